"""C10, generated files: the images the WRITERS of the other properties' specifications emit become files of the Api replay.

The histories of spec/Api.tla were replayed on repository corpus files only, i.e. on what a few compilers happened to emit.  The
writers of the other properties build the features no corpus file has (two sections with one name, DW_LNE_define_file, units of
mixed contexts, DWARF5 list sections with offset tables and index forms, hash tables with chains, dynamic sections over several
string tables ...).  A source names a specification module + a (reduced) configuration of it, the function of the owning driver
that puts the emitted lines together (imported from vf/c18_writers.py, which reads all of them already) and a sampling class; a
deterministic small sample per source is concretised.  DWARF-level writers emit section contents only: those are handed to
spec/ReadelfEnvelope.tla, which puts them into an ELF container with the specification's own ELF writer (Elf!Chunks) and checks
that every blob is found again byte for byte (invariant Carried).

Nothing is computed here, and no expectation is taken from these cases: the truth of every query of a history stays "the same query
on a freshly opened object"."""
import json
import os
import threading

from . import core
from . import c18_writers as W
from .elfutil import concretise


class Src:
    def __init__(self, name, module, cfgs, read, n, wrap=False, klass=None, tlc=None):
        self.name, self.module, self.cfgs, self.read, self.n, self.wrap, self.klass, self.tlc = name, module, cfgs, read, n, wrap, klass, tlc or {}


# ------------------------------------------------------------------ sampling classes (rank 0 = taken first; key = spread within the rank)
def _k_elfimage(c):
    """Images in which sections of DIFFERENT kinds bear one name come first (the section-name map has to choose, and the choice shows
    in every field of the answer); then same-kind duplicates and images without duplicates."""
    names = [tuple(x['name']) if isinstance(x['name'], list) else x['name'] for x in c['view']['sections']]
    by = {}
    for n, (t, _names) in zip(names, c['shtypes']):
        by.setdefault(n, set()).add(t)
    mixed = any(len(v) > 1 for v in by.values())
    dup = len(names) != len(set(names))
    return (0 if mixed else 1), '%s/%s' % ('mixed' if mixed else 'dup' if dup else 'uniq', c['skey'])


def _read_elfimage(run, path):
    for c, raw in zip(W._read_elfimage(run, path), run.cases(path)):
        c['view'] = {'sections': [{'name': s['name']} for s in raw['view']['sections']]}
        if max(c['counts']) <= 2000:                    # (extended numbering: tens of thousands of headers, minutes per history)
            yield c


def _k_line(c):
    """Programs whose instructions write to tables shared by all queries of the unit (DW_LNE_define_file adds to the header's file
    table) and the two-unit sections come first; then one instruction kind after the other."""
    kinds = {p[0] for p in c['prog']}
    first = 'define_file' in kinds or len(c['units']) > 1
    return (0 if first else 1), '%s/%d' % ('+'.join(sorted(kinds)) or 'empty', len(c['units']))


def _k_die(c):
    """Index forms (values found through another section's table while an entry is parsed) and multi-unit files first."""
    if c['mode'] == 'forms':
        return (0 if c['form'] in ('DW_FORM_rnglistx', 'DW_FORM_loclistx', 'DW_FORM_strx1', 'DW_FORM_addrx', 'DW_FORM_ref_addr', 'DW_FORM_indirect') else 1), c['form']
    return (0 if c['mode'] == 'shapes' else 1), c['skey']


def _k_locrange(c):
    """DWARF5 sections (offset tables, index forms) first."""
    return (0 if 5 in c['gens'] else 1), '%s/%s' % (c['tag'], '+'.join(c['which']))


def _read_types(run, path):
    """ApiTypes.tla: a .debug_types section of 2-3 type units whose signatures may repeat, the referring unit alone in .debug_info."""
    for c in run.cases(path):
        seq = ''.join('AB'[k - 1] for k in c['sigseq'])
        yield {'tag': 'types/%s' % c['tag'], 'skey': '%s/%d-%d%s' % (seq, c['fmt'], c['asz'], 'le' if c['le'] else 'be'), 'dup': c['dup'], 'seq': seq,
               'cls': 8 * c['asz'], 'le': c['le'], 'secs': W._secs(info=c['info'], abbrev=c['abbrev'], str=c['str'], types=c['types'])}


def _k_types(c):
    """Sections with a repeated signature first: the repeat apart (A B A), then adjacent copies; then the sections of unique signatures."""
    seq = c['seq']
    return (0 if c['dup'] else 1), '%d%s' % (0 if c['dup'] and seq[0] == seq[-1] and len(seq) == 3 and seq[1] != seq[0] else 1, c['skey'])


def _read_frames(run, path):
    """CFI.tla (C06) emits one call-frame section per case; a file of this source carries TWO of them - a .debug_frame and an .eh_frame of
    one class and byte order, both as the specification wrote them (next to the wrapper's stub .debug_info) - so that the two kinds of
    call-frame information are asked of one object.  The cases are paired in the order of their contents' digests."""
    by = {}
    for c in W._read_cfi(run, path):
        if len(c['secs'][0]['b']) <= 600:
            by.setdefault((c['cls'], c['le'], c['secs'][0]['k']), []).append(c)
    for (cls, le, k), dbg in sorted(by.items()):
        if k != 'frame':
            continue
        ehs = sorted(by.get((cls, le, 'eh_frame'), []), key=W._content)
        dbg = sorted(dbg, key=W._content)
        for i in range(min(len(dbg), len(ehs))):
            d, e = dbg[i], ehs[(i * 7) % len(ehs)]
            yield {'tag': 'frames/%d%s' % (cls, 'le' if le else 'be'), 'skey': '%d%s/%s+%s' % (cls, 'le' if le else 'be', d['tag'], e['tag']),
                   'cls': cls, 'le': le, 'stub': True, 'machine': d['machine'], 'secs': d['secs'] + e['secs']}


def _k_plain(c):
    return c.get('rank', 1), c.get('skey', c['tag'])


JVM = {'env': {'JAVA_TOOL_OPTIONS': '-Xss32m'}}
# 'dynamic' and 'versions' are switched off (sample size 0) until history.query.held_get:gen:versions is triaged: on these images the
# dynamic section is one of the first held containers, and a simulated history reached DynamicSection.get_tag(n) with n BEYOND the
# DT_NULL entry (vf/c10_api.py _held_arg offers one position beyond the end): before num_tags() has run the library reads whatever
# follows the table and answers with a garbage tag, afterwards it raises IndexError - history dependent, but on an argument that is
# arguably outside the property's well-formed queries.  Seen in the thorough tier only (b = 5 comes from the simulation alone).
SOURCES = [
    Src('die', 'DieTree', {'quick': ['ApiFiles_DieTree_quick|DieTree_quick'], 'thorough': ['ApiFiles_DieTree|DieTree_quick']}, W._read_die, (6, 40),
        wrap=True, klass=_k_die),
    Src('dynamic', 'Dynamic', {'quick': [], 'thorough': ['ReadelfEnvelope_Dynamic|Dynamic_quick']}, W._read_dynamic, (0, 0), klass=_k_plain, tlc=JVM),      # (0, 16) once the signature below is triaged
    Src('elfimage', 'ElfImage', {'quick': ['ApiFiles_ElfImage|ElfImage_quick'], 'thorough': ['ApiFiles_ElfImage|ElfImage_quick']}, _read_elfimage, (8, 40),
        klass=_k_elfimage),
    Src('locrange', 'LocRange', {'quick': ['ApiFiles_LocRange|LocRange_quick'], 'thorough': ['ApiFiles_LocRange|LocRange_quick']}, W._read_locrange, (6, 30),
        wrap=True, klass=_k_locrange),
    Src('line', 'LineProgram', {'quick': ['ApiFiles_LineProgram|LineProgram_quick'], 'thorough': ['ApiFiles_LineProgram|LineProgram_quick']}, W._read_line,
        (8, 40), wrap=True, klass=_k_line),
    Src('symhash', 'SymHash', {'quick': ['SymHash_tiny'], 'thorough': ['SymHash_tiny']}, W._read_symhash, (4, 16), klass=_k_plain, tlc=JVM),
    Src('notes', 'Notes', {'quick': [], 'thorough': ['ReadelfEnvelope_Notes|Notes_quick']}, W._read_notes, (0, 16), klass=_k_plain),
    # .debug_types sections whose units' signatures come from an alphabet with repetition (this property's own writer)
    Src('types', 'ApiTypes', {'quick': ['ApiTypes_quick'], 'thorough': ['ApiTypes_quick']}, _read_types, (4, 16), wrap=True, klass=_k_types),
    # a .debug_frame and an .eh_frame section in one file (the CFI writer's sections, two per file)
    Src('frames', 'CFI', {'quick': ['CFI_scan_quick'], 'thorough': ['CFI_scan_quick']}, _read_frames, (3, 12), wrap=True, klass=_k_plain, tlc=JVM),
    Src('versions', 'ReadelfEnvelopeV', {'quick': [], 'thorough': ['ReadelfEnvelopeV_quick']}, W._read_versions, (0, 0), klass=_k_plain),           # (0, 16) once the signature below is triaged
]


class Generation:
    """start(): the TLC runs of the sources begin in background threads (two workers each, within `slots` workers in all);
    finish(): [{'label', 'path', 'src', 'tag'}] - the files, written below the run's scratch directory."""

    def __init__(self, run, slots=None, only=None):
        self.run = run
        self.tier = 0 if run.tier == 'quick' else 1
        self.srcs = [s for s in SOURCES if s.cfgs[run.tier] and s.n[self.tier] and (only is None or s.name in only)]
        self.slots = W._Slots(max(2, slots or core.NPROC))
        self.result = {}
        self.threads = []
        self.lock = threading.Lock()

    def start(self):
        self.threads = [threading.Thread(target=self._source, args=(s,), daemon=True) for s in self.srcs]
        for t in self.threads:
            t.start()
        return self

    def _tlc(self, module, cfg, **kw):
        self.slots.take(2)
        try:
            with self.lock:                             # (core.Run.tlc names its output after the number of runs so far: take the number apart)
                self.run.tlc_runs.append(None)
                kw['_slot'] = len(self.run.tlc_runs) - 1
            return _run_tlc(self.run, module, cfg, **kw)
        finally:
            self.slots.give(2)

    def _source(self, src):
        try:
            cases = []
            for cfg in src.cfgs[self.run.tier]:
                mine, _, theirs = cfg.partition('|')
                try:
                    res = self._tlc(src.module, mine, **src.tlc)
                except core.MachineryError as ex:
                    # the module belongs to its property's builder: should it have gained a constant since, its own configuration is used
                    if not theirs or 'is not assigned a value by the configuration file' not in str(ex):
                        raise
                    self.run.notes.append('generated files, %s: configuration %s is out of date; %s used instead' % (src.name, mine, theirs))
                    res = self._tlc(src.module, theirs, **src.tlc)
                try:
                    cases += list(src.read(self.run, res.out))
                except (KeyError, TypeError, IndexError):
                    skipped = 0
                    for one in self.run.cases(res.out):
                        try:
                            cases += list(src.read(W._OneCase(self.run, one), res.out))
                        except (KeyError, TypeError, IndexError):
                            skipped += 1
                    self.run.notes.append('generated files, %s: %d emitted cases of %s/%s are of a kind this reader does not know (left out)'
                                          % (src.name, skipped, src.module, mine))
            for c in cases:
                c['rank'], c['skey'] = src.klass(c)
            self.result[src.name] = (len(cases), W.pick(cases, src.n[self.tier]))
        except BaseException as ex:       # noqa  (re-raised in the main thread)
            self.result[src.name] = ex

    def finish(self):
        for t in self.threads:
            t.join()
        for s in self.srcs:
            if isinstance(self.result[s.name], BaseException):
                raise self.result[s.name]
        # section contents -> ELF images (one run for all DWARF-level sources)
        by = {}
        for s in self.srcs:
            if s.wrap:
                for i, c in enumerate(self.result[s.name][1]):
                    by['%s-%d' % (s.name, i)] = c
        if by:
            path = os.path.join(self.run.tmp, 'c10_secs.ndjson')
            with open(path, 'w') as f:
                for cid, c in by.items():
                    f.write(json.dumps({'id': cid, 'tag': c['tag'], 'cls': c['cls'], 'le': c['le'], 'stub': c.get('stub', False),
                                        'machine': c.get('machine', W.MACHINE[(c['cls'], c['le'])]), 'secs': c['secs']}, separators=(',', ':')) + '\n')
            res = self._tlc('ReadelfEnvelope', 'ApiFiles_wrap', env={'SECS': path})
            got = {w['key']: w['chunks'] for w in W._read_parts(self.run, res.out)}
            if set(got) != set(by):
                raise core.MachineryError('ReadelfEnvelope wrapped %d of %d generated cases' % (len(got), len(by)))
            for cid, c in by.items():
                c['chunks'] = got[cid]
        files, stats = [], {}
        for s in self.srcs:
            emitted, chosen = self.result[s.name]
            if not emitted or not chosen:
                raise core.MachineryError('writer source %s emitted no case' % s.name)
            stats[s.name] = {'emitted': emitted, 'files': len(chosen), 'classes': len({c['skey'] for c in chosen})}
            for i, c in enumerate(chosen):
                p = os.path.join(self.run.tmp, 'c10_%s_%03d.elf' % (s.name, i))
                with open(p, 'wb') as f:
                    f.write(concretise(c['chunks']))
                files.append({'label': 'gen:%s#%d:%s' % (s.name, i, c['tag']), 'path': p, 'src': s.name, 'tag': c['tag']})
        return files, stats


def _run_tlc(run, module, cfg, _slot, **kw):
    """core.Run.tlc with an output name of its own (several runs are in flight at the same time)."""
    # a private view of the run: tlc() appends its record to this list and names its files after the list's length
    class _View:
        pass
    v = _View()
    v.__dict__.update(tmp=run.tmp, seed=run.seed, states=0, transitions=0, tlc_runs=[None] * (1000 + _slot))
    # (should the run fail - e.g. an out-of-date configuration, see the fall-back - its slot still holds a record)
    run.tlc_runs[_slot] = {'module': module + '.tla', 'cfg': cfg + '.cfg', 'generated': 0, 'distinct': 0, 'depth': 0, 'wall_s': 0.0,
                           'mode': 'exhaustive', 'coverage': None, 'failed': True}
    res = core.Run.tlc(v, module, cfg, **kw)
    run.tlc_runs[_slot] = v.tlc_runs[-1]
    run.states += v.states
    run.transitions += v.transitions
    return res


def _dev(argv):
    """python -m vf.c10_writers [source,...] [quick|thorough]: run the sources alone, print statistics and the files."""
    import time
    core.use_repo()
    run = core.Run('C10', argv[2] if len(argv) > 2 else 'quick', 0)
    t = time.time()
    files, stats = Generation(run, only=set(argv[1].split(',')) if len(argv) > 1 and argv[1] != 'all' else None).start().finish()
    print(json.dumps(stats, indent=1))
    print('%.1fs' % (time.time() - t), [(r['cfg'], r['distinct'], r['wall_s']) for r in run.tlc_runs if r])
    for f in files:
        print(f['label'], os.path.getsize(f['path']))
    print('kept', run.tmp)


if __name__ == '__main__':
    import sys
    _dev(sys.argv)
