"""C03 - symbol tables enumerate exactly; name and hash lookups are complete and sound.

Spec: spec/SymHash.tla (abstract symbol tables, canonical SysV / GNU hash table builders, ELF container
over spec/Elf.tla) and spec/HashWalk.tla (hash functions in 16-bit limbs, byte-level reader machines).
G: every table the specification selects comes with the file bytes (chunks) and the declarative view
   (entries in index order, ByName, for every query name the set of hashed indices bearing it, the count).
   The file is opened with ELFFile; SymbolTableSection (num_symbols / get_symbol / iter_symbols in several
   consumption patterns / get_symbol_by_name), SymbolTableIndexSection.get_section_index,
   SUNWSyminfoTableSection.iter_symbols, ELFHashSection / GNUHashSection get_symbol for every query name
   (twice, in two orders) and get_number_of_symbols are compared with the view.  The mach mode repeats this for
   every e_machine of the specification's alphabet; the multi mode emits files with several symbol tables (section
   names own / equal / blank) with the view of every table and query schedules over (table, name): every schedule
   is walked on one ELFFile, with cached and with freshly fetched section objects.  The dyn mode emits dynamic objects
   (.dynsym / .dynstr / .hash / .gnu.hash / .dynamic, PT_LOAD, PT_DYNAMIC; with and without section headers; duplicate and
   several empty names): the table as the PT_DYNAMIC segment gives it (DynamicSegment num_symbols / get_symbol / iter_symbols /
   get_symbol_by_name) is compared with the same view, and every client session the specification walked (ClientCall: look-ups
   by name in every order, count, listing, by index, a stepwise iteration in between; expected answer per call in the log) is
   replayed call by call on ONE long-lived object - the segment, and the .dynsym section object.
T: for every SHT_HASH / SHT_GNU_HASH section of the corpus files the raw section bytes and the library's
   answers for every symbol name and for absent names are validated by spec/trace/SymHashTrace.tla against
   the same reader machines (total verdict)."""
import io
import os

from . import core
from .core import denote
from .elfutil import concretise, vocab, registry, enum_verdict

LEVEL = 'model_checking'

CORPUS = ('test/testfiles_for_unittests', 'test/testfiles_for_readelf')
JVM = {'JAVA_TOOL_OPTIONS': '-Xss32m'}      # the reader machines in operator form recurse once per chain element


# ----------------------------------------------------------------------------- names
class _Ctx:
    """Name tables: the specification's literals (gABI figures) joined with the vendored registry's names of
    the same code; vocabularies = the names the tree under test claims to know (keys only)."""

    def __init__(self, tables):
        self.names = [bytes(n) for n in tables['names']]
        self.strs = [n.decode('utf-8') for n in self.names]
        reg = registry()['names']
        self.tab = {}
        for fam, prefix in (('bind', 'STB_'), ('type', 'STT_'), ('vis', 'STV_'), ('shn', 'SHN_'), ('bt', 'SYMINFO_BT_')):
            d = {}
            for code, names in tables[fam]:
                d.setdefault(code, set()).update(names)
            for name, val in reg.items():
                if name.startswith(prefix):
                    d.setdefault(int(val[0]), set()).add(name)
            self.tab[fam] = d
        self.voc = {'bind': vocab('ENUM_ST_INFO_BIND'), 'type': vocab('ENUM_ST_INFO_TYPE'), 'vis': vocab('ENUM_ST_VISIBILITY'),
                    'shn': vocab('ENUM_ST_SHNDX'), 'bt': vocab('ENUM_SUNW_SYMINFO_BOUNDTO')}

    def verdict(self, fam, obs, code):
        return enum_verdict(obs, code, self.tab[fam].get(code, set()), self.voc[fam])


def _entry_key(sym):
    e = sym.entry
    return (sym.name, e['st_name'], e['st_value'], e['st_size'], str(e['st_info']['bind']), str(e['st_info']['type']),
            tuple(sorted((k, str(v)) for k, v in e['st_other'].items())), str(e['st_shndx']))


# ----------------------------------------------------------------------------- G: one case
def _cmp_symbol(ctx, bad, i, e, sym):
    """e: the specification's view of entry i = [name id, value, size, bind, type, st_other, shndx, companion word]."""
    want = ctx.strs[e[0] - 1]
    if sym.name != want:
        bad('symbol.name', {'index': i, 'name': want}, sym.name)
    if sym['st_value'] != denote(e[1]):
        bad('symbol.st_value', {'index': i, 'st_value': denote(e[1])}, sym['st_value'])
    if sym['st_size'] != denote(e[2]):
        bad('symbol.st_size', {'index': i, 'st_size': denote(e[2])}, sym['st_size'])
    info = sym['st_info']
    if ctx.verdict('bind', info['bind'], e[3]) is False:
        bad('symbol.bind', {'index': i, 'bind': e[3], 'names': sorted(ctx.tab['bind'].get(e[3], ()))}, info['bind'])
    if ctx.verdict('type', info['type'], e[4]) is False:
        bad('symbol.type', {'index': i, 'type': e[4], 'names': sorted(ctx.tab['type'].get(e[4], ()))}, info['type'])
    other = e[5]
    so = sym['st_other']
    vis = so['visibility']
    # visibility: the low 2 bits (gABI) or the low 3 bits (Solaris) of st_other - either reading is accepted
    if ctx.verdict('vis', vis, other & 7) is False and ctx.verdict('vis', vis, other & 3) is False:
        bad('symbol.visibility', {'index': i, 'st_other': other, 'visibility': [other & 3, other & 7]}, vis)
    # the other bits: every bit of st_other outside the visibility must be reported by some field
    fields = {k: v for k, v in so.items() if k != 'visibility'}
    if 'local' in fields and fields['local'] != other >> 5:
        bad('symbol.other_bits', {'index': i, 'st_other': other, 'bits 5-7': other >> 5}, fields['local'], t='bits5-7')
    mid = (other >> 3) & 3
    if mid and not any(isinstance(v, int) and v in (mid, mid << 3, other >> 3, other & 0xf8, other) for k, v in fields.items() if k != 'local'):
        bad('symbol.other_bits', {'index': i, 'st_other': other, 'bits 3-4': mid}, {k: str(v) for k, v in so.items()}, t='bits3-4')
    if ctx.verdict('shn', sym['st_shndx'], e[6]) is False:
        bad('symbol.st_shndx', {'index': i, 'st_shndx': e[6], 'names': sorted(ctx.tab['shn'].get(e[6], ()))}, sym['st_shndx'])


def _patterns(symsec, n):
    """Every way of consuming the table; each yields (pattern name, list of symbols)."""
    yield 'get_symbol', [symsec.get_symbol(i) for i in range(n)]
    yield 'iter.list', list(symsec.iter_symbols())
    a, b = symsec.iter_symbols(), symsec.iter_symbols()
    la, lb = [], []
    for x in a:                                   # two iterators interleaved, the second one step behind
        la.append(x)
        if len(la) > 1:
            lb.append(next(b))
    lb.extend(b)
    yield 'iter.interleaved.first', la
    yield 'iter.interleaved.second', lb
    it = symsec.iter_symbols()
    for _ in it:
        break                                     # abandoned after one symbol
    symsec.get_symbol_by_name('no such name')     # builds the lazy name map in between
    yield 'iter.after_abandoned', list(symsec.iter_symbols())
    yield 'get_symbol.reverse', [symsec.get_symbol(i) for i in reversed(range(n))][::-1]


def _replay(run, ctx, case, ELFFile, sessions=()):
    data = concretise(case['chunks'])
    syms = case['syms']
    n = len(syms)
    hp = case['hp']
    mode = case['mode']
    tag = '%s/%s' % (mode, case['kind'])
    if mode == 'mach':
        tag += '/cls%d/em%d' % (case['cls'], case['mach'])
    if mode == 'dyn':
        tag += '/%s/%s' % ('sht' if case['dyn']['sht'] else 'nosht', case['dyn']['tags'])
    small = len(data) < 3000
    brief = {'mode': mode, 'cls': case['cls'], 'le': case['le'], 'kind': case['kind'], 'ent': case['ent'], 'hp': hp, 'ix': case['ix'],
             'e_machine': case['mach'],
             'names': [s[0] for s in syms] if n <= 8 else 'fields table (%d entries)' % n,
             'bytes_b64': core.b64(data) if small else None, 'chunks': None if small else case['chunks']}
    pat = ['-']

    def bad(clause, expected, observed, t=None):
        run.mismatch(clause, t or tag, dict(brief, pattern=pat[0]), expected, observed)

    try:
        ef = ELFFile(io.BytesIO(data))
    except Exception as ex:
        bad('open', 'ELFFile', 'exc:%s:%s' % (type(ex).__name__, ex))
        return
    if mode == 'dyn':
        brief = dict(brief, dyn=case['dyn'])
        _replay_dyn(run, ctx, case, ELFFile, data, brief, tag, sessions)
        if not case['dyn']['sht']:
            return 0                              # no section headers: the segment view is all there is
    ix = case['ix']
    want_cls = {'sym': 'SymbolTableSection', 'str': 'StringTableSection', 'hash': 'ELFHashSection', 'gnu': 'GNUHashSection',
                'shndx': 'SymbolTableIndexSection', 'info': 'SUNWSyminfoTableSection'}
    sec = {}
    for k, i in ix.items():
        if i >= 0:
            try:
                sec[k] = ef.get_section(i)
            except Exception as ex:
                bad('front-end', want_cls[k], 'exc:%s:%s' % (type(ex).__name__, ex))
                return
            if type(sec[k]).__name__ != want_cls[k]:
                bad('front-end', want_cls[k], type(sec[k]).__name__)
                return
    symsec = sec['sym']
    # ---- enumeration
    got_n = symsec.num_symbols()
    if got_n != n:
        bad('num_symbols', n, got_n)
        return
    ref = None
    listed = None
    for name, got in _patterns(symsec, n):
        pat[0] = name
        keys = [_entry_key(s) for s in got]
        if ref is not None and keys == ref:
            continue                              # the same observation as a pattern already judged
        if len(got) != n:
            bad('enumeration.count', n, len(got))
        for i, (e, s) in enumerate(zip(syms, got)):
            _cmp_symbol(ctx, bad, i, e, s)
        if ref is None:
            ref, listed = keys, got
    pat[0] = '-'
    where = {}
    for i, k in enumerate(ref):
        where.setdefault(k, []).append(i)

    def indices(symbols):
        out = []
        for s in symbols:
            out.append(where.get(_entry_key(s), [-1]))
        return out

    # ---- companion index table
    if 'shndx' in sec:
        for i, e in enumerate(syms):
            v = sec['shndx'].get_section_index(i)
            if v != denote(e[7]):
                bad('symtab_shndx', {'index': i, 'st_shndx': e[6], 'word': denote(e[7])}, v)
    # ---- lookup by name
    for k, name in enumerate(ctx.strs):
        want = sorted(case['byname'][k])
        for rnd in (0, 1):
            r = symsec.get_symbol_by_name(name)
            if not want:
                if r is not None:
                    bad('get_symbol_by_name', {'name': name, 'indices': None}, [s.name for s in r], t='%s/absent' % mode)
                continue
            if r is None:
                bad('get_symbol_by_name', {'name': name, 'indices': want}, None, t='%s/present' % mode)
                continue
            cand = indices(r)
            obs = sorted(c[0] for c in cand)
            if any(len(c) != 1 for c in cand) or obs != want:
                bad('get_symbol_by_name', {'name': name, 'indices': want}, cand if len(cand) < 12 else obs[:40],
                    t='%s/%s' % (mode, 'duplicates' if len(want) > 1 else 'present'))
    # ---- syminfo
    if 'info' in sec:
        isec = sec['info']
        if isec.num_symbols() != n - 1:
            bad('syminfo.num_symbols', n - 1, isec.num_symbols())
        got = list(isec.iter_symbols())
        if len(got) != len(case['info']):
            bad('syminfo.count', len(case['info']), len(got))
        a, b = isec.iter_symbols(), isec.iter_symbols()          # two iterators interleaved with symbol table reads
        other = []
        for x in a:
            symsec.get_symbol(0)
            y = next(b, None)
            other.append((x.name, dict(x.entry)) == (y.name, dict(y.entry)) if y is not None else False)
        if len(other) != len(got) or not all(other) or [(x.name, dict(x.entry)) for x in isec.iter_symbols()] != [(x.name, dict(x.entry)) for x in got]:
            bad('syminfo.patterns', 'the same entries from every iterator', 'iterators disagree')
        for i, (e, s) in enumerate(zip(case['info'], got), 1):
            wname = ctx.strs[syms[i][0] - 1]
            if s.name != wname:
                bad('syminfo.name', {'index': i, 'name': wname}, s.name)
            if ctx.verdict('bt', s['si_boundto'], e[0]) is False:
                bad('syminfo.si_boundto', {'index': i, 'si_boundto': e[0], 'names': sorted(ctx.tab['bt'].get(e[0], ()))}, s['si_boundto'])
            if s['si_flags'] != e[1]:
                bad('syminfo.si_flags', {'index': i, 'si_flags': e[1]}, s['si_flags'])
    # ---- hash sections
    nlook = 0
    if 'hash' in sec:
        for kind, hs, clause in (('v', sec['hash'], 'sysv_hash'), ('g', sec['gnu'], 'gnu_hash')):
            try:
                c = hs.get_number_of_symbols()
            except Exception as ex:
                c = 'exc:%s:%s' % (type(ex).__name__, ex)
            if c != case['count']:
                bad(clause + '.get_number_of_symbols', case['count'], c, t='%s/so=%s' % (mode, 'len' if hp['so'] == n else '<len'))
            order = list(range(len(ctx.strs)))
            for rnd, ks in enumerate((order, order[::-1])):
                for k in ks:
                    lk = case['look'][k]
                    name = ctx.strs[k]
                    nlook += 1
                    t = 'hash-equal-name-differs' if (kind == 'g' and lk['coll']) else ('present' if lk['ok'] else 'absent')
                    exp = {'name': name, 'any of': sorted(lk['ok']), 'reference walk': lk[kind], 'round': rnd}
                    try:
                        r = hs.get_symbol(name)
                    except Exception as ex:
                        bad(clause + '.get_symbol', exp, 'exc:%s:%s' % (type(ex).__name__, ex), t=t)
                        continue
                    if not lk['ok']:
                        if r is not None:
                            bad(clause + '.get_symbol', exp, {'returned': r.name, 'index': indices([r])[0]}, t=t)
                        continue
                    if r is None:
                        bad(clause + '.get_symbol', exp, None, t=t)
                        continue
                    cand = indices([r])[0]
                    if not set(cand) & set(lk['ok']):
                        bad(clause + '.get_symbol', exp, {'returned': r.name, 'index': cand}, t=t)
    if mode == 'multi':
        _replay_multi(run, ctx, case, ELFFile, data, brief)
    return nlook


def _replay_multi(run, ctx, case, ELFFile, data, brief):
    """A file with several symbol tables: every table enumerates its own entries, and every query of every schedule
    (table, name id) is answered from that table alone."""
    tabs = case['tabs']
    tag = 'multi/%s' % case['naming']
    brief = dict(brief, naming=case['naming'], tables=[{'section': t['sym'], 'names': [s[0] for s in t['syms']]} for t in tabs])
    where = ['-']

    def bad(clause, expected, observed):
        run.mismatch(clause, tag, dict(brief, at=where[0]), expected, observed)

    # the listing of every table, from an ELFFile that is asked nothing else
    ef0 = ELFFile(io.BytesIO(data))
    index = []
    for ti, t in enumerate(tabs):
        where[0] = 'table %d (section %d)' % (ti + 1, t['sym'])
        sec = ef0.get_section(t['sym'])
        if type(sec).__name__ != 'SymbolTableSection':
            bad('front-end', 'SymbolTableSection', type(sec).__name__)
            return
        got = list(sec.iter_symbols())
        if sec.num_symbols() != len(t['syms']) or len(got) != len(t['syms']):
            bad('num_symbols', len(t['syms']), [sec.num_symbols(), len(got)])
            return
        for i, (e, s) in enumerate(zip(t['syms'], got)):
            _cmp_symbol(ctx, lambda c, x, o, t=None: bad(c, x, o), i, e, s)
        d = {}
        for i, s in enumerate(got):
            d.setdefault(_entry_key(s), []).append(i)
        index.append(d)
    for si, sc in enumerate(case['sched']):
        fresh, sched = sc['fresh'], sc['q']
        ef = ELFFile(io.BytesIO(data))
        cache = {}
        for step, (t, k) in enumerate(sched):
            tv = tabs[t - 1]
            where[0] = 'schedule %d%s, query %d: table %d (section %d)' % (si + 1, ' (fresh section objects)' if fresh else '', step + 1,
                                                                           t, tv['sym'])
            if fresh or t not in cache:
                cache[t] = ef.get_section(tv['sym'])
            sec = cache[t]
            name = ctx.strs[k - 1]
            want = sorted(tv['byname'][k - 1])
            r = sec.get_symbol_by_name(name)
            if r is None:
                if want:
                    bad('get_symbol_by_name', {'name': name, 'indices': want, 'earlier queries (table, name id)': sched[:step]}, None)
                continue
            cand = [index[t - 1].get(_entry_key(s), [-1]) for s in r]
            obs = sorted(c[0] for c in cand)
            if any(len(c) != 1 for c in cand) or obs != want:
                bad('get_symbol_by_name', {'name': name, 'indices': want or None, 'earlier queries (table, name id)': sched[:step]},
                    {'returned': [[s.name, s['st_value']] for s in r], 'indices in this table': cand})


def _replay_dyn(run, ctx, case, ELFFile, data, brief, tag, sessions):
    """A dynamic object: the table as the PT_DYNAMIC segment gives it, then every session of the specification on one
    long-lived object (the segment / the .dynsym section)."""
    syms = case['syms']
    n = len(syms)
    pat = ['-']

    def bad(clause, expected, observed, t=None):
        run.mismatch(clause, t or tag, dict(brief, pattern=pat[0]), expected, observed)

    def ident(sym):
        """The index of the specification's entry this symbol is (names and values: the writer gives every symbol of a
        table its own value), -1 if none."""
        hits = [i for i, e in enumerate(syms) if denote(e[1]) == sym['st_value'] and ctx.strs[e[0] - 1] == sym.name]
        return hits[0] if len(hits) == 1 else -1

    def target(ef, tgt):
        if tgt == 'seg':
            obj = ef.get_segment(case['dyn']['pt'])
            want = 'DynamicSegment'
        else:
            obj = ef.get_section(case['ix']['sym'])
            want = 'SymbolTableSection'
        if type(obj).__name__ != want:
            bad('front-end', want, type(obj).__name__)
            return None
        return obj

    # ---- enumeration through the segment
    try:
        with core.guard(20):
            seg = target(ELFFile(io.BytesIO(data)), 'seg')
            if seg is None:
                return
            got_n = seg.num_symbols()
            if got_n != n:
                bad('segment.num_symbols', n, got_n)
                return
            ref = None
            for name, got in _patterns(seg, n):
                pat[0] = name
                keys = [_entry_key(s) for s in got]
                if ref is not None and keys == ref:
                    continue
                if len(got) != n:
                    bad('segment.enumeration.count', n, len(got))
                for i, (e, s) in enumerate(zip(syms, got)):
                    _cmp_symbol(ctx, lambda c, x, o, t=None: bad('segment.' + c, x, o, t), i, e, s)
                if ref is None:
                    ref = keys
            pat[0] = '-'
    except Exception as ex:
        bad('segment.enumeration', 'the %d entries' % n, 'exc:%s:%s' % (type(ex).__name__, ex))
        return
    # ---- sessions
    # (a scripted session has an ELFFile of its own; the free sessions of a file share one ELFFile and ask it for the segment /
    # section object anew - whatever an earlier session left behind on the file object must not show either)
    shared = None
    for sn in sessions:
        tgt, disc, log = sn['tgt'], sn['disc'], sn['log']
        pat[0] = 'session %s/%s' % (tgt, disc)
        if disc == 'free':
            shared = shared or ELFFile(io.BytesIO(data))
            obj = target(shared, tgt)
        else:
            obj = target(ELFFile(io.BytesIO(data)), tgt)
        if obj is None:
            return
        it = None
        for step, (op, q, ans) in enumerate(log):
            exp = {'call': [op, ctx.strs[q - 1] if op == 'name' else q], 'answer (indices)': ans,
                   'earlier calls': [[o, ctx.strs[a - 1] if o == 'name' else a] for o, a, _ in log[:step]]}
            t = '%s/%s' % (tgt, disc)
            try:
                with core.guard(10):
                    if op == 'name':
                        r = obj.get_symbol_by_name(ctx.strs[q - 1])
                        obs = [] if not r else sorted(ident(x) for x in r)
                        clause = 'session.get_symbol_by_name'
                        t = '%s/%s' % (tgt, 'duplicates' if len(ans) > 1 else 'present' if ans else 'absent')
                    elif op == 'num':
                        obs, clause = [obj.num_symbols()], 'session.num_symbols'
                    elif op == 'all':
                        obs, clause = [ident(x) for x in obj.iter_symbols()], 'session.iter_symbols'
                    elif op == 'get':
                        obs, clause = [ident(obj.get_symbol(q))], 'session.get_symbol'
                    elif op == 'open':
                        it, obs, clause = obj.iter_symbols(), [], 'session.iter_open'
                    elif op == 'step':
                        x = next(it, None)
                        obs, clause = ([] if x is None else [ident(x)]), 'session.iter_step'
                    else:
                        raise core.MachineryError('unknown session call %r' % op)
            except core.MachineryError:
                raise
            except Exception as ex:
                bad('session.exception', exp, 'exc:%s:%s' % (type(ex).__name__, ex), t=t)
                break
            if obs != ans:
                bad(clause, exp, obs, t=t)
                break
        run.validated += 1
    pat[0] = '-'


# ----------------------------------------------------------------------------- T: corpus traces
def _absent(names, k):
    """Names that are not in the table, derived from those that are (prefixes, extensions, one-byte changes)."""
    have = set(names)
    out = []
    pool = [x for x in names if x][: 4 * k]
    for j, x in enumerate(pool):
        for c in (x + '_', x[:-1], x[1:], x[:-1] + chr((ord(x[-1]) ^ 1) & 0x7f or 0x41), x + x):
            if c not in have and c not in out and '\0' not in c:
                out.append(c)
        if len(out) >= k:
            break
    for c in ('', 'a', 'b', 'no_such_symbol', 'é€'):
        if c not in have and c not in out:
            out.append(c)
    return out[: k + 5]


def _record(run):
    from elftools.elf.elffile import ELFFile
    nabs = 50 if run.tier == 'quick' else 400
    events, where, skipped, qinfo = [], {}, [], {}
    tid = 0
    Z = {'cls': 0, 'le': True, 'kind': '', 'h': [], 'sym': [], 'str': [], 'ent': 0, 'name': [], 'res': [], 'n': 0}
    for d in CORPUS:
        root = os.path.join(core.REPO, d)
        for fn in sorted(os.listdir(root)):
            path = os.path.join(root, fn)
            if not os.path.isfile(path):
                continue
            with open(path, 'rb') as fh:
                if fh.read(4) != b'\x7fELF':
                    continue
                raw = fh.read()
                raw = b'\x7fELF' + raw
                try:
                    ef = ELFFile(fh)
                    hsecs = [(i, s) for i, s in enumerate(ef.iter_sections()) if s['sh_type'] in ('SHT_HASH', 'SHT_GNU_HASH')]
                except Exception as ex:
                    skipped.append('%s/%s: %s' % (d, fn, type(ex).__name__))
                    continue
                for i, hs in hsecs:
                    st = ef.get_section(hs['sh_link'])
                    strs = ef.get_section(st['sh_link'])
                    ext = lambda s: list(raw[s['sh_offset']: s['sh_offset'] + s['sh_size']])
                    if max(hs['sh_size'], st['sh_size'], strs['sh_size']) > (1 << 22):
                        skipped.append('%s/%s %s: section beyond 4 MiB' % (d, fn, hs.name))
                        continue
                    tid += 1
                    where[tid] = '%s/%s %s' % (d, fn, hs.name)
                    kind = 'gnu' if hs['sh_type'] == 'SHT_GNU_HASH' else 'sysv'
                    events.append(dict(Z, t=tid, k='tab', cls=ef.elfclass, le=ef.little_endian, kind=kind, h=ext(hs), sym=ext(st),
                                       str=ext(strs), ent=st['sh_entsize']))
                    listed = list(st.iter_symbols())
                    idx = {}
                    for j, s in enumerate(listed):
                        idx.setdefault(_entry_key(s), []).append(j)
                    names = []
                    for s in listed:
                        if s.name not in names and '�' not in s.name:
                            names.append(s.name)
                    if run.tier == 'quick' and len(names) > 600:
                        names = names[:300] + names[-300:]
                    for q in names + _absent(names, nabs):
                        try:
                            r = hs.get_symbol(q)
                            res = [] if r is None else idx.get(_entry_key(r), [-1])
                        except Exception as ex:
                            res = [-2]
                            qinfo[len(events) + 1] = 'exc:%s:%s' % (type(ex).__name__, ex)
                        events.append(dict(Z, t=tid, k='q', name=list(q.encode('utf-8')), res=res))
                    try:
                        cnt = hs.get_number_of_symbols()
                    except Exception as ex:
                        cnt = -2
                        qinfo[len(events) + 1] = 'exc:%s:%s' % (type(ex).__name__, ex)
                    events.append(dict(Z, t=tid, k='cnt', n=cnt))
    return events, where, skipped, qinfo


def _trace_check(run):
    events, where, skipped, qinfo = _record(run)
    if not events:
        raise core.MachineryError('no hash sections found in the corpus under %s' % core.REPO)
    trace = run.trace_file('symhash', events)
    res = run.tlc('SymHashTrace', 'SymHashTrace', env=dict(JVM, TRACE=trace), workers=1)
    verdicts = list(run.cases(res.out))
    if len(verdicts) != 1:
        raise core.MachineryError('SymHashTrace wrote %d verdicts\n%s' % (len(verdicts), res.stdout[-2000:]))
    v = verdicts[0]
    nq = sum(1 for e in events if e['k'] == 'q')
    nc = sum(1 for e in events if e['k'] == 'cnt')
    if v['okq'] + v['okc'] + v['skip'] + len(v['bad']) + len(v['undet']) != nq + nc:
        raise core.MachineryError('trace verdict not total: %d + %d ok, %d skipped, %d bad, %d undetermined != %d queries + %d counts'
                                  % (v['okq'], v['okc'], v['skip'], len(v['bad']), len(v['undet']), nq, nc))
    for tid, line, why, ref in sorted(v['bad']):
        ev = events[line - 1]
        tab = next(e for e in events if e['t'] == tid and e['k'] == 'tab')
        case = {'where': where[tid], 'kind': tab['kind'], 'cls': tab['cls'], 'le': tab['le'], 'note': qinfo.get(line)}
        if why == 'count':
            run.mismatch('trace.count', tab['kind'], case, ref, ev['n'])
        else:
            run.mismatch('trace.lookup.' + why, tab['kind'], dict(case, name=bytes(ev['name']).decode('utf-8', 'replace')),
                         {'reference walk': ref}, ev['res'])
    run.validated += v['okq'] + v['okc']
    run.extra['corpus_traces'] = {
        'tables': len(where), 'queries': nq, 'lookups_accepted': v['okq'], 'counts_accepted': v['okc'], 'not_judged': v['skip'],
        'ill_formed_tables': sorted(where[t] for t in v['ill']), 'rejected': len(v['bad']),
        'count_not_determined_by_table': sorted('%s: get_number_of_symbols()=%d, symbol table has %d' % (where[t], n, m)
                                                for t, n, m in v['undet']),
        'skipped': skipped}
    for tid in where:
        run.count('T:' + where[tid], nontrivial=True)
    return len(where)


# ----------------------------------------------------------------------------- driver
def check(run):
    from elftools.elf.elffile import ELFFile
    run.rule = ('G cases = symbol tables selected by SymHash.tla (lookup mode: null entry + up to MaxSyms symbols over 6 names x 4 '
                'class/byte order x nbucket(s) x symoffset x bloom geometry, each with .dynsym/.dynstr/.hash/.gnu.hash; fields mode: '
                '257-entry tables sweeping st_info/st_other/st_shndx/value/size as .dynsym, .symtab (sh_entsize + 8) and '
                '.SUNW_ldynsym with .symtab_shndx and .SUNW_syminfo, and the empty table; mach mode: small hashed tables x e_machine '
                'codes x class/byte order; multi mode: files with 2..3 symbol tables x section naming own/same/blank x 4 query '
                'schedules over (table, name); dyn mode: dynamic objects (PT_LOAD, PT_DYNAMIC, .dynamic; tables with duplicate '
                'and several empty names) x with / without section headers x DT_HASH / DT_GNU_HASH / both, each with the client '
                'sessions of the specification (up / down / weave / free) on the segment and on the section object); distinct by '
                'file bytes; non-trivial = at '
                'least one symbol after the null entry.  T cases = hash sections of the corpus files; non-trivial = all of them')
    run.assumptions += ['GNU tables: symoffset >= 1 (bucket value 0 means "empty"); bloom_size >= 1, nbuckets >= 1, shift < 32',
                        'GNU tables without a populated bucket whose symoffset is not the table length (GNU ld output for objects '
                        'without hashed symbols) do not determine the symbol count: listed, not judged',
                        'visibility may be read with the gABI mask 0x3 or the Solaris mask 0x7',
                        'names the vendored registry and the gABI figures do not define are not asserted (vocabulary gating)',
                        'any hashed symbol bearing the queried name is a correct lookup answer',
                        'SysV names whose figure 5-13 hash depends on the width of unsigned long are not judged',
                        'ELFCLASS64 files of EM_ALPHA / EM_S390 (psABIs with 64-bit SysV hash words) are outside the generated set']
    # two runs of the same module: the lookup mode on all workers, the fields mode on one worker (its emitted lines are
    # longer than one atomic append, concurrent writers would interleave them)
    # (SymHash_quick_all = the lookup mode of SymHash_quick.cfg + the mach and multi modes)
    runs = [('SymHash_quick_all', None), ('SymHash_fields', 1)] if run.tier == 'quick' else \
           [('SymHash_thorough_all', None), ('SymHash_fields_thorough', 1)]
    ctx = None
    seen = set()
    nlook = nsess = nsegs = 0
    for cfg, workers in runs:
        res = run.tlc('SymHash', cfg, env=JVM, workers=workers)
        if ctx is None:
            for c in run.cases(res.out):
                if 'tables' in c:
                    ctx = _Ctx(c['tables'])
                    break
        if ctx is None:
            raise core.MachineryError('SymHash/%s emitted no tables record' % cfg)
        sessions = {}
        for c in run.cases(res.out):
            if 'sess' in c:
                sessions.setdefault(c['sess'], []).append(c)
        for case in run.cases(res.out):
            if 'tables' in case or 'sess' in case:
                continue
            key = core.digest(case['chunks'])
            if key in seen:
                continue
            seen.add(key)
            nontriv = len(case['syms']) > 1
            run.count(key, nontrivial=nontriv)
            if nontriv and len(run.samples) < 3 and run.evaluations % 499 == 5 and any(l['ok'] for l in case['look']):
                run.samples.append({'mode': case['mode'], 'cls': case['cls'], 'le': case['le'], 'hp': case['hp'],
                                    'names': [ctx.strs[s[0] - 1][:8] for s in case['syms']][:8], 'look': case['look'],
                                    'byname': case['byname']})
            try:
                own = sessions.get(case['key'], ()) if case['mode'] == 'dyn' else ()
                if case['mode'] == 'dyn' and not own:
                    raise core.MachineryError('dyn case %s without sessions' % case['key'])
                nsess += len(own)
                nsegs += case['mode'] == 'dyn'
                nlook += _replay(run, ctx, case, ELFFile, own) or 0
            except core.MachineryError:
                raise
            except Exception as ex:
                import traceback
                run.mismatch('exception', case['mode'], {'cls': case['cls'], 'le': case['le'], 'hp': case['hp'], 'chunks': case['chunks']},
                             'no exception', 'exc:%s:%s @ %s' % (type(ex).__name__, ex, traceback.format_exc().splitlines()[-3].strip()))
    run.validated += run.evaluations
    run.extra['hash_lookups_replayed'] = nlook
    run.extra['dynamic_objects'] = nsegs
    run.extra['sessions_replayed'] = nsess
    if run.tier in ('quick', 'thorough') and not nsess:
        raise core.MachineryError('no client session was replayed')
    _trace_check(run)
    if not run.samples:
        run.samples.append({'note': 'no sample'})
