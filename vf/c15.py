"""C15 - Symbol-version sections resolve each symbol to its encoded version.

Spec: spec/Versions.tla (record layouts of the Sun/GNU symbol versioning specification, abstract
writer with displacement-linked placement, reader machine, view) over spec/Elf.tla (container).

G: every finished object of the Versions writer is concretised from the chunks the specification
   computed, opened with ELFFile, and every observable the property names is compared with the view
   the specification wrote out: num_versions / iter_versions (entry fields, auxiliary chains, names)
   / get_version for carried and absent indices / has_indexes, num_symbols / get_symbol /
   iter_symbols.  The lazy auxiliary iterators are consumed nested, deferred in reverse, round-robin,
   partially, and from two interleaved section iterations: one expectation for all of them.
   Client sessions: every finished session of the specification (actions StartSession / ClientCall:
   look-ups in ascending / descending / repeated order, has_indexes, num_versions, complete iterations
   and the steps of one open iteration, interleaved; all call pairs (quick) / triples (thorough) over a
   small alphabet on small objects) is replayed call by call on ONE fresh section object and every
   answer is compared with the answer the specification logged for that call.  File sessions (StartFileSession)
   address the three version section objects of ONE file object, whose stream they share: the version-symbol
   iteration interleaved with look-ups / iterations on the other two sections and with the client repositioning
   the stream.
T: for every ELF of the test corpus that has version sections the entries and auxiliaries are
   recorded in yield order, together with the raw bytes of the section and of its linked tables;
   spec/trace/VersionsTrace.tla runs the chain machine of Versions.tla on the raw bytes and checks
   every recorded event against it (total verdict)."""
import io
import os

from . import core
from .core import denote
from .elfutil import concretise, vocab, enum_verdict

LEVEL = 'model_checking'

CORPUS = ('test/testfiles_for_unittests', 'test/testfiles_for_readelf')
CLASSES = {'verdef': 'GNUVerDefSection', 'verneed': 'GNUVerNeedSection', 'versym': 'GNUVerSymSection'}


# ------------------------------------------------------------------ normalisation
def _exp_fields(rec):
    return {f: denote(v) for f, v in rec.items()}


def _obs_fields(obj, fields):
    """The fields the specification names, read through the dict-like access of the library object;
    plus any field the library has and the layout has not."""
    out = {}
    for f in fields:
        try:
            out[f] = obj[f]
        except KeyError:
            out[f] = 'missing'
    try:
        for f in obj.entry.keys():
            if f not in fields:
                out[f] = 'extra'
    except Exception:
        pass
    return out


def _name(bs):
    return bytes(bs).decode('utf-8')


def _exp_chain(view, kind):
    """[(entry fields, entry name or None, [(aux fields, aux name)])] from the specification's view."""
    out = []
    for ent in view:
        out.append([_exp_fields(ent['e']), _name(ent['name']) if kind == 'need' else None,
                    [[_exp_fields(a['a']), _name(a['name'])] for a in ent['auxes']]])
    return out


def _obs_entry(v, exp_ent, kind):
    return [_obs_fields(v, exp_ent[0]), v.name if kind == 'need' else None]


def _obs_aux(a, exp_aux):
    return [_obs_fields(a, exp_aux[0]), a.name]


def _aux_fields(expc, k, j):
    """Field names of auxiliary (k, j) (or of any auxiliary when the library yields too many)."""
    try:
        return expc[k][2][j]
    except IndexError:
        for e in expc:
            if e[2]:
                return e[2][0]
        return [{}, '']


def _ent_fields(expc, k):
    return expc[k] if k < len(expc) else (expc[0] if expc else [{}, None, []])


LIMIT = 12     # an iterator yielding more than this is cut off (the expectation never has more than 3 per chain)


def _take(it, n=LIMIT):
    out = []
    for x in it:
        out.append(x)
        if len(out) >= n:
            break
    return out


# ------------------------------------------------------------------ consumption patterns
def _nested(sec, expc, kind):
    got = []
    for k, (v, it) in enumerate(_take(sec.iter_versions())):
        ent = _obs_entry(v, _ent_fields(expc, k), kind)
        ent.append([_obs_aux(a, _aux_fields(expc, k, j)) for j, a in enumerate(_take(it))])
        got.append(ent)
    return got


def _deferred_reverse(sec, expc, kind):
    pairs = list(_take(sec.iter_versions()))
    got = [None] * len(pairs)
    for k in reversed(range(len(pairs))):
        v, it = pairs[k]
        auxes = [_obs_aux(a, _aux_fields(expc, k, j)) for j, a in enumerate(_take(it))]
        got[k] = _obs_entry(v, _ent_fields(expc, k), kind) + [auxes]
    return got


def _round_robin(sec, expc, kind):
    pairs = list(_take(sec.iter_versions()))
    got = [_obs_entry(v, _ent_fields(expc, k), kind) + [[]] for k, (v, it) in enumerate(pairs)]
    live = list(range(len(pairs)))
    while live:
        for k in list(live):
            try:
                a = next(pairs[k][1])
            except StopIteration:
                live.remove(k)
                continue
            got[k][2].append(_obs_aux(a, _aux_fields(expc, k, len(got[k][2]))))
            if len(got[k][2]) >= LIMIT:
                live.remove(k)
    return got


def _partial(sec, expc, kind):
    """First auxiliary only, then the chain is abandoned."""
    got = []
    for k, (v, it) in enumerate(_take(sec.iter_versions())):
        ent = _obs_entry(v, _ent_fields(expc, k), kind)
        first = next(it, None)
        ent.append([] if first is None else [_obs_aux(first, _aux_fields(expc, k, 0))])
        got.append(ent)
    return got


def _interleaved(sec, expc, kind):
    """Two iterations of the same section advanced alternately, their auxiliary chains zipped."""
    a, b = sec.iter_versions(), sec.iter_versions()
    ga, gb = [], []
    k = 0
    while k < LIMIT:
        pa, pb = next(a, None), next(b, None)
        if pa is None and pb is None:
            break
        for g, p in ((ga, pa), (gb, pb)):
            if p is not None:
                g.append(_obs_entry(p[0], _ent_fields(expc, k), kind) + [[]])
        ia = pa[1] if pa else iter(())
        ib = pb[1] if pb else iter(())
        j = 0
        while j < LIMIT:
            xa, xb = next(ia, None), next(ib, None)
            if xa is None and xb is None:
                break
            if xa is not None:
                ga[-1][2].append(_obs_aux(xa, _aux_fields(expc, k, j)))
            if xb is not None:
                gb[-1][2].append(_obs_aux(xb, _aux_fields(expc, k, j)))
            j += 1
        k += 1
    return ga, gb


def _safe(fn, *a):
    try:
        return fn(*a)
    except Exception as ex:   # noqa
        import traceback
        return 'exc:%s:%s @ %s' % (type(ex).__name__, ex, traceback.format_exc().splitlines()[-3].strip())


# ------------------------------------------------------------------ G
def _check_chain(run, sec, kind, view, queries, bad):
    expc = _exp_chain(view, kind)
    n = _safe(sec.num_versions)
    if n != len(expc):
        bad(kind + '.num_versions', len(expc), n)
    full = _safe(_nested, sec, expc, kind)
    if full != expc:
        bad(kind + '.iter.nested', expc, full)
    got = _safe(_deferred_reverse, sec, expc, kind)
    if got != expc:
        bad(kind + '.iter.deferred', expc, got)
    got = _safe(_round_robin, sec, expc, kind)
    if got != expc:
        bad(kind + '.iter.roundrobin', expc, got)
    part = [[e[0], e[1], e[2][:1]] for e in expc]
    got = _safe(_partial, sec, expc, kind)
    if got != part:
        bad(kind + '.iter.partial', part, got)
    got = _safe(_interleaved, sec, expc, kind)
    if got != (expc, expc):
        bad(kind + '.iter.interleaved', [expc, expc], got)
    # index resolution: the entry carrying the index, None when no entry carries it
    for q in queries:
        if kind == 'def':
            (idx, k), j = q, 0
        else:
            idx, k, j = q
        want = _want_lookup(kind, expc, k, j)
        got = _safe(_lookup, sec, kind, expc, idx, k, j)
        if got != want:
            bad(kind + ('.get_version.present' if want is not None else '.get_version.absent'), {'index': idx, 'result': want}, {'index': idx, 'result': got})
    return full


def _lookup(sec, kind, expc, idx, k, j):
    """get_version(idx) in the shape of the expectation: None, or [entry fields, name, auxiliaries / the auxiliary]."""
    r = sec.get_version(idx)
    if r is None:
        return None
    if kind == 'def':
        v, it = r
        return _obs_entry(v, _ent_fields(expc, max(k - 1, 0)), kind) + \
            [[_obs_aux(a, _aux_fields(expc, max(k - 1, 0), n)) for n, a in enumerate(_take(it))]]
    v, a = r
    return _obs_entry(v, _ent_fields(expc, max(k - 1, 0)), kind) + [_obs_aux(a, _aux_fields(expc, max(k - 1, 0), max(j - 1, 0)))]


def _want_lookup(kind, expc, k, j):
    if k == 0:
        return None
    if kind == 'def':
        return expc[k - 1]
    return [expc[k - 1][0], expc[k - 1][1], expc[k - 1][2][j - 1]]


def _run_session(ef_open, exp, session, bad):
    """One session of the specification on one fresh section object: each call's answer against the logged one."""
    kind = session['kind']
    expc = _exp_chain(exp[kind], kind)
    try:
        sec = ef_open().get_section(exp['idx']['verdef' if kind == 'def' else 'verneed'])
    except Exception as ex:   # noqa
        bad('open', 'ELFFile + version section', 'exc:%s:%s' % (type(ex).__name__, ex))
        return
    it = None
    for n, (op, q, k, j) in enumerate(session['log']):
        if op == 'get':
            want, got = _want_lookup(kind, expc, k, j), _safe(_lookup, sec, kind, expc, q, k, j)
        elif op == 'has':
            want, got = bool(k), _safe(sec.has_indexes)
        elif op == 'num':
            want, got = k, _safe(sec.num_versions)
        elif op == 'all':
            want, got = expc, _safe(_nested, sec, expc, kind)
        elif op == 'open':
            it = sec.iter_versions()
            continue
        else:                       # step: the next entry with its whole auxiliary chain; peek: with its first auxiliary only
            want = None if k == 0 else [expc[k - 1][0], expc[k - 1][1], expc[k - 1][2][:j]]

            def advance():
                p = next(it, None)
                if p is None:
                    return None
                v, auxit = p
                pos = max(k - 1, 0)
                auxes = _take(auxit) if op == 'step' else ([] if (first := next(auxit, None)) is None else [first])
                return _obs_entry(v, _ent_fields(expc, pos), kind) + [[_obs_aux(a, _aux_fields(expc, pos, m)) for m, a in enumerate(auxes)]]
            got = _safe(advance)
        if got != want:
            bad('%s.session.%s' % (kind, op), {'call': n, 'op': op, 'index': q, 'answer': want, 'after': session['log'][:n]},
                {'call': n, 'answer': got})
            return                  # the first wrong answer of a session is the finding; later ones are consequences


def _run_file_session(ef_open, exp, session, voc, bad):
    """One file session of the specification: the three version section objects of ONE file object (one shared stream);
    each call's answer against the logged one.  `seek` is the client repositioning that stream between calls."""
    try:
        ef = ef_open()
        secs = {'d': ef.get_section(exp['idx']['verdef']), 'n': ef.get_section(exp['idx']['verneed']),
                's': ef.get_section(exp['idx']['versym'])}
    except Exception as ex:   # noqa
        bad('open', 'ELFFile + version sections', 'exc:%s:%s' % (type(ex).__name__, ex))
        return
    kinds = {'d': 'def', 'n': 'need'}
    expc = {c: _exp_chain(exp[k], k) for c, k in kinds.items()}
    view = exp['versym']
    its = {}

    def sym_verdict(get, k, j):
        """(want, got) of a call that returns version symbol k (1-based; 0: nothing)."""
        s = get()
        if k == 0:
            return None, None if s is None else {'ndx': s.entry['ndx'], 'sym': s.name}
        v = view[k - 1]
        want = {'i': k - 1, 'ndx': v['ndx'], 'names': v['names'], 'sym': _name(v['sym'])}
        if s is None:
            return want, None
        ok = enum_verdict(s.entry['ndx'], v['ndx'], v['names'], voc) is not False and s.name == want['sym']
        return want, want if ok else {'i': k - 1, 'ndx': s.entry['ndx'], 'sym': s.name}
    for n, (op, q, k, j) in enumerate(session['log']):
        c = op[0]
        if op in ('sstep', 'sget') and k and view[k - 1]['ndx'] != j:
            raise core.MachineryError('session log and view disagree on versym[%d]' % k)
        if op == 'seek':
            size = ef.stream.seek(0, 2)                       # q: 0 = start, 1 = end, 2 = middle of the file
            ef.stream.seek({0: 0, 1: size, 2: size // 2}[q])
            continue
        if op in ('sopen', 'dopen', 'nopen'):
            its[c] = secs[c].iter_symbols() if c == 's' else secs[c].iter_versions()
            continue
        if op == 'sstep':
            r = _safe(sym_verdict, lambda: next(its['s'], None), k, j)
            want, got = r if isinstance(r, tuple) else ('symbol %d' % k, r)
        elif op == 'sget':
            r = _safe(sym_verdict, lambda: secs['s'].get_symbol(q), k, j)
            want, got = r if isinstance(r, tuple) else ('symbol %d' % k, r)
        elif op == 'snum':
            want, got = k, _safe(secs['s'].num_symbols)
        elif op in ('dget', 'nget'):
            want, got = _want_lookup(kinds[c], expc[c], k, j), _safe(_lookup, secs[c], kinds[c], expc[c], q, k, j)
        else:                       # dstep / nstep: the next entry with its whole auxiliary chain
            want = None if k == 0 else [expc[c][k - 1][0], expc[c][k - 1][1], expc[c][k - 1][2][:j]]

            def advance():
                p = next(its[c], None)
                if p is None:
                    return None
                v, auxit = p
                pos = max(k - 1, 0)
                return _obs_entry(v, _ent_fields(expc[c], pos), kinds[c]) + \
                    [[_obs_aux(a, _aux_fields(expc[c], pos, m)) for m, a in enumerate(_take(auxit))]]
            got = _safe(advance)
        if got != want:
            bad('file.session.%s' % op, {'call': n, 'op': op, 'arg': q, 'answer': want, 'after': session['log'][:n]},
                {'call': n, 'answer': got})
            return                  # the first wrong answer of a session is the finding; later ones are consequences


def _check_versym(run, sec, view, voc, bad):
    n = _safe(sec.num_symbols)
    if n != len(view):
        bad('versym.num_symbols', len(view), n)
        return

    def verdict(sym, v):
        r = enum_verdict(sym.entry['ndx'], v['ndx'], v['names'], voc)
        return (r is not False), sym.name == _name(v['sym'])
    listed = _safe(lambda: _take(sec.iter_symbols(), len(view) + 8))
    if isinstance(listed, str) or len(listed) != len(view):
        bad('versym.iter_symbols.len', len(view), listed if isinstance(listed, str) else len(listed))
        listed = None
    for i in reversed(range(len(view))):          # random access, back to front
        v = view[i]
        want = {'i': i, 'ndx': v['ndx'], 'names': v['names'], 'sym': _name(v['sym'])}
        for how, get in (('get_symbol', lambda: sec.get_symbol(i)), ('iter_symbols', (lambda: listed[i]) if listed is not None else None)):
            if get is None:
                continue
            try:
                s = get()
                okn, oks = verdict(s, v)
                obs = {'i': i, 'ndx': s.entry['ndx'], 'sym': s.name}
            except Exception as ex:   # noqa
                okn = oks = False
                obs = 'exc:%s:%s' % (type(ex).__name__, ex)
            if not okn:
                bad('versym.%s.ndx' % how, want, obs)
            if not oks:
                bad('versym.%s.name' % how, want, obs)


def _replay_case(run, case, ELFFile, voc, classes):
    exp = case['expect']
    data = concretise(case['chunks'])
    tag = case['tag']
    brief = {'tag': tag, 'cls': case['cls'], 'le': case['le'], 'shape': case['shape'], 'bytes_b64': core.b64(data), 'expect': exp}

    def bad(clause, e, o):
        run.mismatch(clause, tag, brief, e, o)
    try:
        ef = ELFFile(io.BytesIO(data))
        secs = {k: ef.get_section(exp['idx'][k]) for k in ('verdef', 'verneed', 'versym')}
    except Exception as ex:
        bad('open', 'ELFFile + version sections', 'exc:%s:%s' % (type(ex).__name__, ex))
        return
    for k, cname in classes.items():
        if type(secs[k]).__name__ != cname:
            bad('section.class', cname, type(secs[k]).__name__)
            return
    # has_indexes before and after the chains have been walked (memoised flag)
    h0 = _safe(secs['verneed'].has_indexes)
    if h0 != exp['has_indexes']:
        bad('need.has_indexes', exp['has_indexes'], h0)
    _check_chain(run, secs['verdef'], 'def', exp['def'], exp['defq'], bad)
    _check_chain(run, secs['verneed'], 'need', exp['need'], exp['needq'], bad)
    h1 = _safe(secs['verneed'].has_indexes)
    if h1 != exp['has_indexes']:
        bad('need.has_indexes.again', exp['has_indexes'], h1)
    # a fresh object asked only after a full walk
    try:
        fresh = ef.get_section(exp['idx']['verneed'])
        for _, it in fresh.iter_versions():
            list(it)
        h2 = fresh.has_indexes()
    except Exception as ex:   # noqa
        h2 = 'exc:%s' % type(ex).__name__
    if h2 != exp['has_indexes']:
        bad('need.has_indexes.fresh', exp['has_indexes'], h2)
    _check_versym(run, secs['versym'], exp['versym'], voc, bad)
    # the same sections are found by name
    for nm, k in (('.gnu.version_d', 'verdef'), ('.gnu.version_r', 'verneed'), ('.gnu.version', 'versym')):
        s = ef.get_section_by_name(nm)
        if s is None or dict(s.header) != dict(secs[k].header):
            bad('by_name', nm, None if s is None else dict(s.header))
    # client sessions: each on a section object of its own (of a file object of its own)
    for session in case.get('sessions', ()):
        def sbad(clause, e, o, session=session):
            run.mismatch(clause, 'session/%s%s/%s' % ('file-' if session['kind'] == 'file' else '', session['disc'], tag.split('/')[2]),
                         dict(brief, session=session), e, o)
        with core.guard(20):
            try:
                if session['kind'] == 'file':
                    _run_file_session(lambda: ELFFile(io.BytesIO(data)), exp, session, voc, sbad)
                else:
                    _run_session(lambda: ELFFile(io.BytesIO(data)), exp, session, sbad)
            except core.CallTimeout:
                sbad('session.timeout', 'an answer', 'no answer within 20 s')


# ------------------------------------------------------------------ T
def _digs(v):
    return list(int(v).to_bytes(max(1, (int(v).bit_length() + 7) // 8), 'little'))


def _pairs(entry):
    return [[k, _digs(v)] for k, v in entry.items()]


def _event(tid, ev, **kw):
    e = {'id': tid, 'ev': ev, 'sec': '', 'le': True, 'count': 0, 'bytes': [], 'strtab': [], 'symtab': [], 'syment': 0,
         'f': [], 'name': [], 'ename': '', 'file': ''}
    e.update(kw)
    return e


def _record_corpus(run, ELFFile):
    """One trace per version section of every corpus ELF: what the library yields, in yield order,
    next to the raw bytes it was read from."""
    events, traces = [], []
    for d in CORPUS:
        base = os.path.join(core.REPO, d)
        for fn in sorted(os.listdir(base)):
            p = os.path.join(base, fn)
            if not os.path.isfile(p):
                continue
            with open(p, 'rb') as fh:
                if fh.read(4) != b'\x7fELF':
                    continue
                fh.seek(0)
                try:
                    ef = ELFFile(fh)
                    secs = [(i, s) for i, s in enumerate(ef.iter_sections())
                            if type(s).__name__ in ('GNUVerDefSection', 'GNUVerNeedSection', 'GNUVerSymSection')]
                except Exception:
                    continue            # malformed corpus files are C19's subject
                for i, s in secs:
                    tid = len(traces) + 1
                    kind = {'GNUVerDefSection': 'def', 'GNUVerNeedSection': 'need', 'GNUVerSymSection': 'sym'}[type(s).__name__]
                    label = '%s/%s[%d]%s' % (os.path.basename(d), fn, i, s.name)
                    linked = ef.get_section(s['sh_link'])
                    ev = []
                    try:
                        if kind == 'sym':
                            strtab = ef.get_section(linked['sh_link'])
                            ev.append(_event(tid, 'open', sec=kind, le=ef.little_endian, count=s.num_symbols(), bytes=list(s.data()),
                                             symtab=list(linked.data()), syment=linked['sh_entsize'], strtab=list(strtab.data()), file=label))
                            for sym in s.iter_symbols():
                                n = sym.entry['ndx']
                                ev.append(_event(tid, 'sym', f=[] if isinstance(n, str) else [['ndx', _digs(n)]],
                                                 ename=n if isinstance(n, str) else '', name=list(sym.name.encode('utf-8'))))
                        else:
                            ev.append(_event(tid, 'open', sec=kind, le=ef.little_endian, count=s['sh_info'], bytes=list(s.data()),
                                             strtab=list(linked.data()), file=label))
                            for v, it in s.iter_versions():
                                ev.append(_event(tid, 'entry', f=_pairs(v.entry), name=list((v.name or '').encode('utf-8'))))
                                for a in it:
                                    ev.append(_event(tid, 'aux', f=_pairs(a.entry), name=list(a.name.encode('utf-8'))))
                        ev.append(_event(tid, 'end'))
                    except Exception as ex:   # noqa
                        ev.append(_event(tid, 'raise', ename=type(ex).__name__))
                    events += ev
                    traces.append({'id': tid, 'label': label, 'kind': kind, 'events': len(ev)})
    return events, traces


def _validate_corpus(run, ELFFile):
    events, traces = _record_corpus(run, ELFFile)
    if not traces:
        if run.nviol:
            run.notes.append('no corpus trace could be recorded (the library fails on every corpus file)')
            return []
        raise core.MachineryError('no corpus ELF with version sections found under %s' % core.REPO)
    path = run.trace_file('versions', events)
    res = run.tlc('VersionsTrace', 'VersionsTrace', env={'TRACE': path}, workers=1)
    verdicts = list(run.cases(res.out))
    if len(verdicts) != 1:
        raise core.MachineryError('VersionsTrace wrote %d verdicts\n%s' % (len(verdicts), res.stdout[-2000:]))
    v = verdicts[0]
    if v['events'] != len(events) or v['ok'] + len({b[0] for b in v['bad']}) + len({b[0] for b in v['malformed']}) != len(traces):
        raise core.MachineryError('trace not consumed: %r vs %d events / %d traces' % ({k: v[k] for k in ('events', 'ok')}, len(events), len(traces)))
    byid = {t['id']: t for t in traces}
    for tid, line, why in sorted(map(tuple, v['bad'])):
        t = byid[tid]
        ev = events[line - 1]
        run.mismatch('trace.' + why, t['kind'], {'file': t['label'], 'event_no': line},
                     'an event the chain machine can take on the raw bytes', {k: ev[k] for k in ('ev', 'f', 'name', 'ename')})
    for tid, line, why in sorted(map(tuple, v['malformed'])):
        run.notes.append('corpus section %s is not well-formed for the chain machine (%s at event %d): not asserted' % (byid[tid]['label'], why, line))
    for t in traces:
        run.count('T:' + t['label'], nontrivial=t['events'] > 2)
    run.validated += v['ok']
    run.extra['corpus_traces'] = {'sections': len(traces), 'events': len(events), 'ok': v['ok'],
                                  'bad': len(v['bad']), 'malformed': len(v['malformed'])}
    return traces


def _assemble(run, path):
    """Cases are emitted as several lines (see Emit in Versions.tla); put them together again.  The finished
    client sessions of an object are lines of their own (t = "sess"), written after the object's case: they are
    collected in a first pass (they are small), so that the cases can be streamed in the second."""
    import json
    sessions = {}
    with open(path) as f:
        for line in f:
            if '\\"t\\":\\"sess\\"' not in line:
                continue
            part = json.loads(json.loads(line))
            sessions.setdefault(part['k'], []).append(part['v'])
    pending, done = {}, set()
    for part in run.cases(path):
        if part['t'] == 'sess':
            continue
        slot = pending.setdefault(part['k'], {})
        slot[part['i']] = part
        if len(slot) < part['n']:
            continue
        del pending[part['k']]
        done.add(part['k'])
        parts = [slot[i] for i in sorted(slot)]
        head = parts[0]['v']
        exp = {'idx': head['idx'], 'defq': head['defq'], 'needq': head['needq'], 'has_indexes': head['has_indexes'],
               'def': [], 'need': [], 'versym': []}
        chunks = []
        for p in parts[1:]:
            if p['t'] == 'chunk':
                chunks.append(p['v'])
            elif p['t'] == 'versym':
                exp['versym'] += p['v']
            else:
                exp[p['t']] = p['v']
        yield {'tag': head['tag'], 'cls': head['cls'], 'le': head['le'], 'shape': head['shape'], 'chunks': chunks, 'expect': exp,
               'sessions': sorted(sessions.get(part['k'], ()), key=lambda v: (v['kind'], v['disc'], v['log']))}
    if pending:
        raise core.MachineryError('%d cases were emitted incompletely' % len(pending))
    if set(sessions) - done:
        raise core.MachineryError('%d sessions belong to no emitted case' % len(set(sessions) - done))


# ------------------------------------------------------------------ replay of a recorded mismatch
def replay(run, path):
    import base64
    import json
    from elftools.elf.elffile import ELFFile
    voc = vocab('ENUM_VERSYM')
    rec = json.load(open(path))
    corpus = False
    for mm in [rec['first']] + rec.get('more', []):
        c = mm['case']
        if 'bytes_b64' not in c:
            corpus = True
            continue
        case = {'tag': c['tag'], 'cls': c['cls'], 'le': c['le'], 'shape': c['shape'], 'expect': c['expect'],
                'chunks': [[0, list(base64.b64decode(c['bytes_b64'])), 1]], 'sessions': [c['session']] if 'session' in c else []}
        run.count(core.digest(c['bytes_b64']))
        _replay_case(run, case, ELFFile, voc, CLASSES)
    if corpus:
        _validate_corpus(run, ELFFile)
    return run.finish()


# ------------------------------------------------------------------ entry point
def check(run):
    from elftools.elf.elffile import ELFFile
    voc = vocab('ENUM_VERSYM')
    classes = CLASSES
    run.rule = ('G cases = finished objects of the Versions writer (definition shapes x placement patterns {packed, padded, reversed '
                'auxiliary arrays, striped chains} x index assignments {sequential, gaps, hidden bit, none, last only} x class/byte '
                'order x container arrangement; versym tables of several lengths); non-trivial = at least one definition or '
                'requirement entry, or a versym table longer than the null symbol; distinct by emitted bytes.  T cases = one '
                'trace per version section of the corpus ELFs; non-trivial = the section yields at least one record.  '
                'Client sessions (call sequences on one section object, or on the three section objects of one file object) are part '
                'of their object\'s case; their number is in extra')
    run.assumptions += ['well-formed version sections only: counts agree with the chains, the last next displacement is 0, '
                        'displacements are forward (the fields are unsigned), no two entries carry the same index',
                        'hash fields carry arbitrary words, not the ELF hash of the name',
                        'Version.name of a definition entry is not asserted (the names are in its auxiliaries)',
                        'index 0 is not looked up among requirements when some vna_other is 0 (0 = no index)',
                        'names of reserved versym values the vendored registry does not define are not asserted']
    cfgs = ['Versions_quick'] if run.tier == 'quick' else ['Versions_thorough', 'Versions_free']
    seen = set()
    nsess, ncalls = {}, [0]
    for case in (c for cfg in cfgs for c in _assemble(run, run.tlc('Versions', cfg).out)):
        key = core.digest([case['tag'], case['chunks']])
        if key in seen:
            continue
        seen.add(key)
        sh = case['shape']
        nontriv = bool(sh[0] or sh[1] or sh[2] > 1)
        sample = None
        if sh[0] and len(run.samples) < 3 and len(seen) % 601 == 7:
            sample = {'tag': case['tag'], 'cls': case['cls'], 'le': case['le'], 'shape': sh,
                      'def': case['expect']['def'][:1], 'defq': case['expect']['defq'][:4], 'versym': [v['ndx'] for v in case['expect']['versym']][:12]}
        run.count(key, nontrivial=nontriv, sample=sample)
        _replay_case(run, case, ELFFile, voc, classes)
        for ses in case['sessions']:
            dn = ('file-' if ses['kind'] == 'file' else '') + ses['disc']
            nsess[dn] = nsess.get(dn, 0) + 1
            ncalls[0] += len(ses['log'])
    run.validated = run.evaluations
    if run.evaluations == 0:
        raise core.MachineryError('Versions emitted no case')
    traces = _validate_corpus(run, ELFFile)
    if len(run.samples) < 4 and traces:
        run.samples.append({'trace': traces[0]})
    run.extra['exhaustive'] = True
    run.extra['client_sessions'] = {'by_discipline': nsess, 'calls': ncalls[0]}
    if not nsess:
        raise core.MachineryError('Versions emitted no client session')
