"""C10 - answers do not depend on query history or stream position.

Spec: spec/Reader.tla (API-level machine: unit cache, entry cache, parent/terminator links,
live generator frames; stream repositioning as an action parameter).  TLC verifies the caching
and navigation design over all call interleavings up to the depth bound and emits the labelled
transition graph edge by edge.  G: every edge is replayed into the real code from a shortest
path to its source state; the answer must equal the one the specification computed (= the
declarative truth, i.e. what a fresh object answers); the projection of the private caches is
compared with the model state and reported as DRIFT only.  A second part (spec/Api.tla) lets TLC
generate long histories over the wider read-only API, replayed on corpus files and on a sample of the
images the other properties' writers generate (vf/c10_writers.py) against a freshly opened object
per query."""
import io
import json
import os
from collections import deque

from . import core

LEVEL = 'model_checking'


def _canon(o):
    """Canonical hashable form of an abstract state (sets arrive as unordered arrays)."""
    if isinstance(o, dict):
        return tuple((k, _canon(o[k])) for k in sorted(o))
    if isinstance(o, list):
        return tuple(_canon(x) for x in o)
    return o


def _canon_state(s):
    return _canon({'cus': sorted(s['cus']), 'dc': [sorted(x) for x in s['dc']],
                   'par': [sorted(map(tuple, x)) for x in s['par']], 'term': [sorted(map(tuple, x)) for x in s['term']],
                   'gens': s['gens']})


class Impl:
    """One freshly opened object plus the live generators of a history."""

    def __init__(self, frec):
        from elftools.dwarf.dwarfinfo import DWARFInfo, DwarfConfig, DebugSectionDescriptor
        self.streams = []

        def sec(b, name):
            b = bytes(b)
            st = io.BytesIO(b)
            self.streams.append((st, len(b)))
            return DebugSectionDescriptor(stream=st, name=name, global_offset=0, size=len(b), address=0)
        self.di = DWARFInfo(
            config=DwarfConfig(little_endian=frec['le'], machine_arch='x64', default_address_size=8),
            debug_info_sec=sec(frec['info'], '.debug_info'), debug_aranges_sec=None, debug_abbrev_sec=sec(frec['abbrev'], '.debug_abbrev'),
            debug_frame_sec=None, eh_frame_sec=None, debug_str_sec=sec([0], '.debug_str'), debug_loc_sec=None,
            debug_ranges_sec=None, debug_line_sec=None, debug_pubtypes_sec=None, debug_pubnames_sec=None,
            debug_addr_sec=None, debug_str_offsets_sec=None, debug_line_str_sec=None, debug_loclists_sec=None,
            debug_rnglists_sec=None, debug_sup_sec=None, gnu_debugaltlink_sec=None, debug_types_sec=None)
        self.uoffs = [u['off'] for u in frec['units']]
        self.gens = []

    def perturb(self, w):
        if w == 'none':
            return
        for st, n in self.streams:
            st.seek({'zero': 0, 'mid': n // 2, 'end': n}[w])

    def _die(self, off):
        cu = self.di.get_CU_containing(off)
        return cu.get_DIE_from_refaddr(off)

    def do(self, act, w):
        with core.guard(10):
            return self._do(act, w)

    def _do(self, act, w):
        self.perturb(w)
        k = act[0]
        if k == 'GetCUAt':
            return ['cu', self.di.get_CU_at(self.uoffs[act[1] - 1]).cu_offset]
        if k == 'GetCUContaining':
            return ['cu', self.di.get_CU_containing(act[1]).cu_offset]
        if k == 'TopDIE':
            return ['die', self.di.get_CU_at(self.uoffs[act[1] - 1]).get_top_DIE().offset]
        if k == 'RefAddr':
            return ['die', self.di.get_DIE_from_refaddr(act[1]).offset]
        if k == 'Parent':
            p = self._die(act[1]).get_parent()
            return ['none'] if p is None else ['die', p.offset]
        if k == 'FollowRef':
            return ['die', self._die(act[1]).get_DIE_from_attribute('DW_AT_type').offset]
        if k == 'StartCUs':
            self.gens.append(self.di.iter_CUs())
            return ['gen']
        if k == 'StartKids':
            self.gens.append(self._die(act[1]).iter_children())
            return ['gen']
        if k == 'StartDIEs':
            self.gens.append(self.di.get_CU_at(self.uoffs[act[1] - 1]).iter_DIEs())
            return ['gen']
        if k == 'Advance':
            try:
                x = next(self.gens[act[1] - 1])
            except StopIteration:
                return ['stop']
            return ['cu', x.cu_offset] if hasattr(x, 'cu_offset') else ['die', x.offset]
        if k == 'Abandon':
            del self.gens[act[1] - 1]
            return ['gen']
        raise core.MachineryError('unknown action %r' % (act,))

    def projection(self, nunits):
        """Read (never write) the private caches: the model's abstract state as the code holds it."""
        di = self.di
        cus = sorted(getattr(di, '_cu_offsets_map'))
        dc, par, term = [[] for _ in range(nunits)], [[] for _ in range(nunits)], [[] for _ in range(nunits)]
        for cu in getattr(di, '_cu_cache'):
            u = self.uoffs.index(cu.cu_offset)
            dc[u] = sorted(cu._diemap)
            for d in cu._dielist:
                if d._parent is not None:
                    par[u].append((d.offset, d._parent.offset))
                if d._terminator is not None:
                    term[u].append((d.offset, d._terminator.offset))
            par[u].sort()
            term[u].sort()
        return cus, dc, par, term


def _proj_of_state(s):
    return (sorted(s['cus']), [sorted(x) for x in s['dc']], [sorted(map(tuple, x)) for x in s['par']],
            [sorted(map(tuple, x)) for x in s['term']])


def _replay_graph(run, cfg, res):
    frec = None
    edges = []
    for rec in run.cases(res.out):
        if 'file' in rec:
            frec = rec
        else:
            edges.append(rec)
    if frec is None:
        raise core.MachineryError('Reader emitted no file record (%s)' % cfg)
    nunits = len(frec['units'])
    # index the graph
    out = {}
    for e in edges:
        e['_s'] = _canon_state(e['src'])
        e['_d'] = _canon_state(e['dst'])
        out.setdefault(e['_s'], []).append(e)
    init = None
    for s in out:
        if not dict(s)['cus'] and not dict(s)['gens']:
            init = s
            break
    # BFS: shortest action path to every state
    path = {init: []}
    dq = deque([init])
    while dq:
        s = dq.popleft()
        for e in out.get(s, []):
            if e['_d'] not in path:
                path[e['_d']] = path[s] + [e]
                dq.append(e['_d'])
    drift_seen = set()
    n = 0

    def build(s):
        impl = Impl(frec)
        for pe in path[s]:
            impl.do(pe['act'], pe['w'])
        return impl

    def judge(impl, s, e, n):
        case = {'cfg': cfg, 'file': frec['file'], 'path': [[p['act'], p['w']] for p in path[s]], 'act': e['act'], 'w': e['w']}
        try:
            got = impl.do(e['act'], e['w'])
        except Exception as ex:
            got = ['exc', type(ex).__name__, str(ex)[:100]]
        run.count((cfg, n), nontrivial=bool(path[s]))
        if len(run.samples) < 3 and len(path[s]) >= 3 and n % 997 == 3:
            run.samples.append(dict(case, res=e['res']))
        if got != e['res']:
            run.mismatch('answer.' + e['act'][0], 'w=%s' % e['w'], case, e['res'], got)
            return False
        run.validated += 1
        # drift: private caches vs the model's post-state
        try:
            if impl.projection(nunits) != _proj_of_state(e['dst']):
                k = e['act'][0]
                if k not in drift_seen:
                    drift_seen.add(k)
                    run.drift.append('%s: cache projection after %s differs from the model (file %d)' % (cfg, k, frec['file']))
                return False
        except Exception as ex:
            if 'projection' not in drift_seen:
                drift_seen.add('projection')
                run.drift.append('%s: private cache attributes not readable (%s)' % (cfg, type(ex).__name__))
            return False
        return True

    for s, es in out.items():
        if run.nviol >= 300:
            run.notes.append('%s: replay stopped after %d violations (verdict decided)' % (cfg, run.nviol))
            break
        if s not in path:
            raise core.MachineryError('state unreachable in emitted graph')
        try:
            live = build(s)
        except Exception as ex:
            run.mismatch('path.exception', 'path', {'cfg': cfg, 'path': [[p['act'], p['w']] for p in path[s]]},
                         'no exception', 'exc:%s:%s' % (type(ex).__name__, str(ex)[:100]))
            continue
        # calls the model says leave the abstract state unchanged are executed in sequence on the one live object
        # (generator-free self loops only: Advance/Start/Abandon always change the frames)
        for e in es:
            if e['_d'] == s:
                n += 1
                if not judge(live, s, e, n):
                    live = build(s)          # answer or projection moved: re-derive the state
        for e in es:
            if e['_d'] != s:
                n += 1
                judge(build(s), s, e, n)
    return len(edges), len(out)


def check(run):
    run.rule = ('cases = labelled edges (source cache state, call, stream repositioning) of the Reader state graph explored '
                'exhaustively by TLC up to the depth bound on three constant files, each replayed from a shortest path on a fresh '
                'object; plus TLC-simulated long histories and systematic patterns over the wider API on corpus files and on a sample of the images '
                'the other properties\' writers generate; non-trivial = the edge is taken from a '
                'non-initial cache state; distinct by (file, source state, call, repositioning)')
    run.assumptions += ['hidden implementation state = projected caches + generator frames + stream positions (pruning hypothesis); '
                        'positions are attacked before every call, projections are monitored and reported as DRIFT',
                        'bounded depth: quick 4-5 calls, thorough 6; longer histories only by simulation']
    cfgs = ['Reader_f1_quick', 'Reader_f2_quick', 'Reader_f3_quick'] if run.tier == 'quick' else \
        ['Reader_f1_thorough', 'Reader_f2_thorough', 'Reader_f3_thorough']
    tot_e = tot_s = 0
    # the files of the Api part that the other properties' writers generate: their TLC runs go on in the background meanwhile
    from . import c10_writers
    generation = c10_writers.Generation(run, slots=max(2, core.NPROC - 3)).start()
    from concurrent.futures import ThreadPoolExecutor
    # the three TLC runs are independent: run them side by side, replay as each finishes
    with ThreadPoolExecutor(max_workers=3) as ex:
        futs = [(cfg, ex.submit(run.tlc, 'Reader', cfg, None, 1)) for cfg in cfgs]   # 1 worker: strict BFS, deterministic levels
        import time as _t
        for cfg, fu in futs:
            r = fu.result()
            _t0 = _t.time()
            ne, ns = _replay_graph(run, cfg, r)
            run.notes.append('%s: %d edges replayed in %.1fs' % (cfg, ne, _t.time() - _t0))
            tot_e += ne
            tot_s += ns
    run.extra['graph_edges'] = tot_e
    run.extra['graph_states_with_successors'] = tot_s
    from . import c10_api, c10_memo
    _t0 = _t.time()
    c10_memo.memo_histories(run)
    run.notes.append('memo part in %.1fs' % (_t.time() - _t0))
    _t0 = _t.time()
    c10_api.histories(run, generation)
    run.notes.append('api part in %.1fs' % (_t.time() - _t0))
    if not run.samples:
        run.samples.append({'note': 'no sample'})
