import argparse
import importlib
import os
import sys
import traceback

from . import core


def generic_replay(mod, run, path):
    """Replay of a recorded violation for drivers without a dedicated replay(): re-run the check on the current tree
    and report whether the same clause:tag still fails (exit 1) or not (exit 0).  Evidence is not rewritten."""
    import json
    rec = json.load(open(path))
    sig = '%s:%s' % (rec['clause'], rec['tag'])
    print('replaying %s (recorded on tree %s): %s' % (path, rec.get('tree'), sig))
    print('  recorded case: %s' % json.dumps(rec['first']['case'])[:600])
    print('  recorded expected=%s' % json.dumps(rec['first']['expected'])[:300])
    print('  recorded observed=%s' % json.dumps(rec['first']['observed'])[:300])
    mod.check(run)
    n = run.viol_keys.get(sig, 0)
    run.cleanup()
    if n:
        print('VIOLATION property=%s replay=%s' % (run.pid, path))
        print('  still fails on the current tree: %s (%d cases)' % (sig, n))
        return 1
    print('%s: %s does not fail on the current tree' % (run.pid, sig))
    return 0


def main():
    ap = argparse.ArgumentParser()
    ap.add_argument('pid')
    ap.add_argument('--tier', default=os.environ.get('VERIF_TIER', 'quick'), choices=['quick', 'thorough'])
    ap.add_argument('--replay', default=None)
    ap.add_argument('--keep', action='store_true', help='keep the temp dir (debugging)')
    a = ap.parse_args()
    seed = int(os.environ.get('VERIF_SEED', '0') or 0)
    pid = a.pid.upper()
    try:
        mod = importlib.import_module('vf.' + pid.lower())
    except ImportError as ex:
        print('no such check: %s (%s)' % (pid, ex))
        return 2
    run = None
    try:
        core.use_repo()
        run = core.Run(pid, a.tier, seed, level=getattr(mod, 'LEVEL', 'model_checking'))
        if a.replay:
            if hasattr(mod, 'replay'):
                return mod.replay(run, a.replay)
            return generic_replay(mod, run, a.replay)
        mod.check(run)
        return run.finish()
    except core.MachineryError as ex:
        print('MACHINERY-FAILURE %s: %s' % (pid, ex))
        if run:
            run.cleanup()
        return 2
    except Exception:
        traceback.print_exc()
        print('MACHINERY-FAILURE %s: unexpected exception in the harness' % pid)
        if run and not a.keep:
            run.cleanup()
        return 2


if __name__ == '__main__':
    sys.exit(main())
