import argparse
import importlib
import os
import sys
import traceback

from . import core


def main():
    ap = argparse.ArgumentParser()
    ap.add_argument('pid')
    ap.add_argument('--tier', default=os.environ.get('VERIF_TIER', 'quick'), choices=['quick', 'thorough'])
    ap.add_argument('--replay', default=None)
    ap.add_argument('--keep', action='store_true', help='keep the temp dir (debugging)')
    a = ap.parse_args()
    seed = int(os.environ.get('VERIF_SEED', '0') or 0)
    pid = a.pid.upper()
    try:
        mod = importlib.import_module('vf.' + pid.lower())
    except ImportError as ex:
        print('no such check: %s (%s)' % (pid, ex))
        return 2
    run = None
    try:
        core.use_repo()
        run = core.Run(pid, a.tier, seed, level=getattr(mod, 'LEVEL', 'model_checking'))
        if a.replay:
            return mod.replay(run, a.replay)
        mod.check(run)
        return run.finish()
    except core.MachineryError as ex:
        print('MACHINERY-FAILURE %s: %s' % (pid, ex))
        if run:
            run.cleanup()
        return 2
    except Exception:
        traceback.print_exc()
        print('MACHINERY-FAILURE %s: unexpected exception in the harness' % pid)
        if run and not a.keep:
            run.cleanup()
        return 2


if __name__ == '__main__':
    sys.exit(main())
