"""The cross-writer sweep of C18: the images the WRITERS of the other properties' specifications emit are dumped by GNU readelf
and by the clone under the option that prints the structure the writer builds.

Nothing is computed here: a source names a specification module + configuration, how its emitted lines are put together (the
function of the owning driver is imported), which option(s) dump the structure, and the envelope predicate (a reason string when
a case is outside what both tools support).  DWARF-level writers emit section contents only; those are handed to
spec/ReadelfEnvelope.tla, which puts them into an ELF container with the specification's own ELF writer (Elf!Chunks).

Sources of C18's own (no other property builds these structures inside the envelope of a whole-file dump): 'dumps'
(spec/ReadelfEnvelopeS.tla: sections for -x / -p), 'relocenv' (spec/ReadelfEnvelopeR.tla: the Reloc writer's tables with named
symbols, for -r), 'exprctx' (spec/ReadelfEnvelopeE.tla: expressions in mixed unit contexts), 'cfinest' (spec/ReadelfEnvelopeC.tla:
the CFI writer with an alphabet of blocks that nests DW_CFA_remember_state / DW_CFA_restore_state pairs, for frames / frames-interp),
'locbase' (spec/ReadelfEnvelopeL.tla: pair-format location / range lists with base address selection entries {0, low_pc, other} in
units with low_pc {0, non-zero}, for loc / Ranges / info).  A source may also emit SEQUENCES
(cases with a 'seq' list of image keys): the images of a sequence are dumped one after the other by one process - the job's path is
the paths joined by '|' (c18._one)."""
import json
import os
import re
import sys
import threading

from . import core
from .elfutil import concretise


class Source:
    def __init__(self, name, module, cfgs, read, options, sample=(120, 1500), envelope=None, tlc=None, wrap=False, seqs=(0, 0)):
        self.name = name
        self.module = module
        self.cfgs = cfgs              # {'quick': [cfg...], 'thorough': [cfg...]}
        self.read = read              # (run, path) -> iterable of {'tag': str, 'chunks'| 'secs': ..., ...}
        self.options = options        # [option] or callable(case) -> [option]
        self.sample = sample          # images per tier
        self.envelope = envelope      # case -> None | reason (outside the envelope)
        self.tlc = tlc or {}
        self.wrap = wrap
        self.seqs = seqs              # sequences of dumps by one process (cases with a 'seq' list of image keys) per tier


# ------------------------------------------------------------------ readers (assembly functions of the owning drivers)
class _OneCase:
    """A run whose cases() yields one given case (see Sweep._source)."""

    def __init__(self, run, case):
        self._run, self._case = run, case

    def cases(self, path):
        yield self._case

    def __getattr__(self, k):
        return getattr(self._run, k)


def _read_parts(run, path):
    """Cases of the ReadelfEnvelope* modules: one line per chunk piece [k: case key, n: pieces, i, tag, v: chunk] (lines stay
    below the 8 KB a CSVWrite appends atomically)."""
    pending, seen = {}, set()
    for part in run.cases(path):
        if part['k'] in seen:
            continue                  # (a constraint may be evaluated more than once for one state)
        slot = pending.setdefault(part['k'], {})
        slot[part['i']] = part
        if len(slot) < part['n']:
            continue
        del pending[part['k']]
        seen.add(part['k'])
        yield {'tag': part['tag'].replace('<<', '').replace('>>', '').replace(', ', ''), 'key': part['k'],
               'chunks': part['vs'] if 'vs' in part else [slot[i]['v'] for i in sorted(slot)]}
    if pending:
        raise core.MachineryError('%d cases of %s were emitted incompletely' % (len(pending), path))


def _read_versions(run, path):
    """ReadelfEnvelopeV.tla: the class of a case is mode/placement pattern/index assignment; container and shapes only spread the sample."""
    for c in _read_parts(run, path):
        c['skey'] = c['tag']
        c['tag'] = '/'.join(c['tag'].split('/')[:3])
        yield c


def _secs(**kw):
    """[{k: section key, b: bytes, addr}] for spec/ReadelfEnvelope.tla; empty sections are left out."""
    return [{'k': k, 'b': list(v), 'addr': []} for k, v in kw.items() if v]


def _read_line(run, path):
    """LineProgram.tla (C05): .debug_line with 1-2 units + the minimal .debug_info/.debug_abbrev whose units carry DW_AT_stmt_list."""
    for i, c in enumerate(run.cases(path)):
        u = c['units'][0]
        kinds = '+'.join(sorted({p[0] for p in c['prog']})) or 'empty'
        yield {'tag': '%s/%s/%s' % (c['mode'], u['id'], kinds), 'rank': 0 if len(c['prog']) <= 1 and c['mode'] == 'prog' else 1,
               'skey': '%s/%s/%s' % (c['mode'], u['id'], json.dumps(c['prog'], separators=(',', ':')) if c['mode'] == 'prog' else core.digest(c['line'])),
               'cls': 8 * u['hdr']['address_size'], 'le': c['le'], 'prog': c['prog'], 'cus': c['cus'], 'units': [{'id': x['id']} for x in c['units']],
               'secs': _secs(info=c['info'], abbrev=c['abbrev'], line=c['line'], line_str=c['line_str'], str=c['str'])}


def _read_die(run, path):
    """DieTree.tla (C04): .debug_info / .debug_abbrev and the sections the forms refer to (the spec's one list section stands for
    .debug_loclists and .debug_rnglists alike, as in C04's driver)."""
    for c in run.cases(path):
        us = c['units']
        ctx = 'v%d-%d-%d%s' % (us[0]['ver'], us[0]['fmt'], us[0]['asz'], 'le' if c['le'] else 'be')
        if c['mode'] == 'forms':
            a = us[0]['dies'][1]['attrs'][0]          # the attribute in the form under test
            skey = 'forms/%s/%s' % (c['tag'], core.digest(a['raw']))
        elif c['mode'] == 'shapes':
            skey = 'shapes/%s/%d/%d' % (ctx, len(us), len(c['info']))
        else:
            skey = '%s/%s/%s' % (c['mode'], c['tag'], ctx)
        yield {'tag': '%s/%s' % (c['mode'], c['tag']), 'skey': skey, 'rank': 1 if c['mode'] == 'shapes' else 0, 'mode': c['mode'], 'form': c['tag'],
               'tagcodes': sorted({d['tag'] for u in us for d in u['dies'] if not d['isnull']}),
               'cls': 8 * max(u['asz'] for u in us), 'le': c['le'],
               'secs': _secs(info=c['info'], abbrev=c['abbrev'], str=c['str'], line_str=c['line_str'], str_offsets=c['str_offsets'],
                             addr=c['addr'], loclists=c['lists'], rnglists=c['lists'])}


# forms for which the clone's form description table (dwarf/descriptions.py _ATTR_DESCRIPTION_MAP) has no entry and whose parsed value
# its fallback prints as is, where GNU readelf resolves an index / marks a reference
_FORMS_NOT_DESCRIBED = {
    'DW_FORM_strx', 'DW_FORM_strx1', 'DW_FORM_strx2', 'DW_FORM_strx3', 'DW_FORM_strx4', 'DW_FORM_addrx', 'DW_FORM_addrx1', 'DW_FORM_addrx2',
    'DW_FORM_addrx3', 'DW_FORM_addrx4', 'DW_FORM_loclistx', 'DW_FORM_rnglistx', 'DW_FORM_ref_sup4', 'DW_FORM_ref_sup8', 'DW_FORM_strp_sup',
    'DW_FORM_GNU_ref_alt', 'DW_FORM_GNU_strp_alt', 'DW_FORM_data16', 'DW_FORM_indirect'}


def _env_die(c):
    if c['mode'] == 'types':
        return 'a file with .debug_types but no .debug_info is not something a toolchain produces (the clone dumps nothing without .debug_info)'
    if c['mode'] == 'forms' and c['form'] in _FORMS_NOT_DESCRIBED:
        return ('forms the clone has no description for (DWARF5 index forms strx*/addrx*/loclistx/rnglistx, supplementary-file forms, data16, '
                'indirect): its fallback prints the parsed value as is')
    if any(t >= 0x4080 or t not in _dw_tags() for t in c['tagcodes']):
        return 'tag numbers no standard names (vendor extensions): GNU readelf prints "User TAG value", the clone the number'
    return None


_DWTAGS = None


def _dw_tags():
    """Vocabulary: the tag codes the tree under test names (as in the description sweep)."""
    global _DWTAGS
    if _DWTAGS is None:
        from elftools.dwarf import enums as DE
        _DWTAGS = {v for k, v in DE.ENUM_DW_TAG.items() if isinstance(v, int)}
    return _DWTAGS


def _read_notes(run, path):
    """Notes.tla (C14): complete images; every note extent is exposed as SHT_NOTE section and PT_NOTE segment."""
    for c in run.cases(path):
        if 'tables' in c or c['mode'] == 'stabs':
            continue                                  # (readelf has no option that dumps .stab)
        ns = c['notes']
        if c['mode'] == 'walk':
            skey = 'walk/%s/%s' % (c['tag'], '-'.join('%d.%d' % (n['namesz'], n['descsz']) for n in ns))
        else:
            skey = '%s/%s' % (c['mode'], core.digest([[n['dk'], n['type'], n['name'], n['dn'], sorted(n['df']) if isinstance(n['df'], dict) else len(n['df'])] for n in ns]))
        yield {'tag': '%s/%s' % (c['mode'], '+'.join(n['dk'] for n in ns) or 'empty'), 'skey': skey, 'rank': 0 if c['mode'] != 'walk' else 1,
               'core': c['core'], 'etype': c['etype'], 'machine': c['machine'], 'le': c['le'],
               'notes': [{k: n[k] for k in ('name', 'type', 'dk', 'df', 'dn')} for n in ns], 'chunks': c['chunks']}


def _read_dynamic(run, path):
    """Dynamic.tla (C09): dynamic objects; the image with section headers (the one without is for the library's segment route)."""
    from . import c09
    for _, slot in c09._objects(run, path, 'C18', {'n': 0}):
        A, S = slot['A'], slot['S']
        b = A['key']['b']
        yield {'tag': '%s/m%d/%s/%s' % (b['mode'], b['machine'], b['variant'], b['layout']),
               'skey': '%s/m%d-%d%s/%s/%s/%s/%s/%s' % (b['mode'], b['machine'], b['cls'], 'le' if b['le'] else 'be', b['variant'], b['layout'], b['mpos'],
                                                    b['hk'], json.dumps([A['key']['fid'], A['key']['tid'], A['key']['sn']])),
               'variant': b['variant'], 'dtags': [[sorted(t[1]), core.denote(t[2])] for t in slot['B']['view']['tags']],
               'chunks': [A['eh1']] + A['common'] + S['sh']}


_DYN_VOC = None


def _env_dynamic(c):
    global _DYN_VOC
    if _DYN_VOC is None:
        from elftools.elf import enums as E
        known = set()
        for k in core.load_known('C18').values():          # deviations of the description sweep that are on record already
            for sig in k.get('signatures', ()):
                m = re.match(r'readelf\.sweep:d_tag:(\w+):-d$', sig)
                if m:
                    known.add(m.group(1))
        _DYN_VOC = {'tags': {k for k in E.ENUM_D_TAG if isinstance(k, str) and k != '_default_'}, 'known': known,
                    'DT_FLAGS': sum(v for k, v in E.ENUM_DT_FLAGS.items() if isinstance(v, int)),
                    'DT_FLAGS_1': sum(v for k, v in E.ENUM_DT_FLAGS_1.items() if isinstance(v, int))}
    if c['variant'] != 'match':
        return ('objects with a decoy .dynstr / a PT_DYNAMIC that designates a copy of the table: GNU readelf takes the string table from the '
                'section named .dynstr and the table from PT_DYNAMIC, the clone goes by sh_link and the SHT_DYNAMIC section')
    for names, val in c['dtags']:
        mine = [n for n in names if n in _DYN_VOC['tags']]
        if not mine:
            return 'tag codes the clone\'s table does not name (unassigned / vendor codes; readelf.py -d raises AttributeError on them)'
        if set(names) & _DYN_VOC['known']:
            return 'tags whose text is a recorded deviation of the description sweep (C18.dtag_named_where_gnu_has_no_name, C18.dtag_value_format)'
        for f in ('DT_FLAGS', 'DT_FLAGS_1'):
            if f in names and val & ~_DYN_VOC[f]:
                return 'flag bits the clone\'s DT_FLAGS / DT_FLAGS_1 tables do not have'
    return None


def _read_symhash(run, path):
    """SymHash.tla (C03): symbol tables with their hash tables (lookup mode) and the 257-entry field sweeps (fields mode)."""
    for c in run.cases(path):
        if 'tables' in c:
            continue
        yield {'tag': '%s/%s' % (c['mode'], c['kind']), 'rank': 0 if c['mode'] == 'fields' else 1,
               'skey': '%s/%s/%d%s/%d/%s' % (c['mode'], c['kind'], c['cls'], 'le' if c['le'] else 'be', len(c['syms']), json.dumps(c['hp'], sort_keys=True)),
               'kind': c['kind'], 'chunks': c['chunks']}


def _read_reloc(run, path):
    """Reloc.tla (C08): relocation tables over a symbol table (decode / refusal / two-table / apply images)."""
    from . import c08
    for c in c08._assembled(run.cases(path)):
        flav = 'rela' if c.get('rela') else 'rel'
        yield {'tag': '%s/m%s-%d%s/%s' % (c['mode'], c.get('machine'), c['cls'], 'le' if c['le'] else 'be', flav), 'mode': c['mode'],
               'skey': '%s/m%s-%d%s/%s/%s' % (c['mode'], c.get('machine'), c['cls'], 'le' if c['le'] else 'be', flav, core.digest(c['chunks'])),
               'syms': [core.denote({'d': e[2]}) for e in c['entries']] if 'entries' in c else None, 'chunks': c['chunks']}


def _env_reloc(c):
    if c['mode'] in ('relr', 'relrset'):
        return 'SHT_RELR tables: the clone does not dump them'
    if c['mode'] == 'dyn':
        return 'relocation tables named by .dynamic only (no section): the clone dumps relocation sections'
    if not c['syms']:
        return ('empty relocation sections / images whose entries are not listed (GNU readelf: "There are no relocations in this file", the clone '
                'prints the heading of the empty section)')
    if any(c['syms']):
        return ('the symbols of the Reloc writer are unnamed absolute STT_NOTYPE symbols: GNU readelf prints <null> for them, the clone takes every '
                'unnamed symbol for a section symbol (and fails on SHN_ABS); only entries without a symbol are compared')
    return None


def _read_attrs(run, path):
    """Attrs.tla (C20): build-attribute sections (ARM / RISC-V)."""
    for c in run.cases(path):
        kinds = sorted({(a['names'] or [str(a['tag'])])[0] for v in c['view'] for ss in v['subsubs'] for a in ss['attrs']})
        yield {'tag': '%s/%s' % (c['mode'], c['table']), 'table': c['table'], 'rank': 0 if c['mode'] in ('tags', 'numbers') else 1,
               'skey': '%s/%s/%d%s/%s/%s' % (c['mode'], c['table'], c['cls'], 'le' if c['le'] else 'be', json.dumps(c['shape']), '+'.join(kinds)),
               'scopes': [ss['scope'] for v in c['view'] for ss in v['subsubs']],
               'attrnames': [a['names'] for v in c['view'] for ss in v['subsubs'] for a in ss['attrs']],
               'attrvals': [[a['kind'], core.denote(a['u']) if a['u']['d'] else 0, a['s']] for v in c['view'] for ss in v['subsubs'] for a in ss['attrs']],
               'chunks': c['chunks']}


_ATTR_VOC = None


def _env_attrs(c):
    global _ATTR_VOC
    if c['table'] != 'arm':
        return 'arch-specific: only ARM works (project exclusion)'
    if _ATTR_VOC is None:
        from elftools.elf import descriptions as D
        from elftools.elf import enums as E
        # vocabulary: the tags the clone has a description and a value table slot for
        _ATTR_VOC = {t for t in D._DESCR_ATTR_TAG_ARM if isinstance(E.ENUM_ATTR_TAG_ARM.get(t), int) and E.ENUM_ATTR_TAG_ARM[t] - 1 < len(D._DESCR_ATTR_VAL_ARM)}
    if any(sc != 1 for sc in c['scopes']):
        return 'Tag_Section / Tag_Symbol sub-subsections (deprecated by the ABI): the clone prints their number lists as a quoted string'
    if any(not (set(names) & _ATTR_VOC) for names in c['attrnames']):
        return 'attribute tags the clone has no description for (its table is older: DSP/MVE/PAC/BTI extensions, unknown numbers)'
    if any('TAG_ALSO_COMPATIBLE_WITH' in names for names in c['attrnames']):
        return 'Tag_also_compatible_with (readelf.py raises TypeError when the nested tag is not Tag_CPU_arch)'
    for names, (kind, u, st) in zip(c['attrnames'], c['attrvals']):
        if 'TAG_NODEFAULTS' in names and u >= 128:
            return 'Tag_nodefaults with a value of more than one byte (GNU readelf skips exactly one byte after this tag)'
        if u >= 2 ** 31:
            return 'attribute values of 2^31 and more (GNU readelf prints them as negative numbers)'
        if kind != 'uleb' and not st:
            return 'empty string values (the clone omits the quotes GNU readelf prints)'
    return None


def _read_elfimage(run, path):
    """ElfImage.tla (C01): headers, section and program header tables in every arrangement the writer has."""
    for c in run.cases(path):
        v = c['view']
        yield {'tag': c['tag'], 'skey': '%s/%d%s/m%s/%d-%d' % (c['tag'], v['elfclass'], 'le' if v['little_endian'] else 'be', core.denote(v['header']['e_machine']),
                                                           v['num_sections'], v['num_segments']),
               'machine': core.denote(v['header']['e_machine']), 'eflags': core.denote(v['header']['e_flags']),
               'eversion': core.denote(v['header']['e_version']), 'counts': [v['num_sections'], v['num_segments']], 'hnames': {k: v['names'][k] for k in ('e_type', 'e_machine', 'EI_OSABI')},
               'shtypes': [[core.denote(x['hdr']['sh_type']), x['typenames']] for x in v['sections']],
               'shflags': [core.denote(x['hdr']['sh_flags']) for x in v['sections']],
               'ptypes': [[core.denote(x['hdr']['p_type']), x['typenames']] for x in v['segments']],
               'chunks': c['chunks']}


_ELF_VOC = None


def _env_elfimage(c):
    global _ELF_VOC
    if c['tag'] in ('osabi', 'e_type', 'e_machine', 'sh_type', 'p_type'):
        return 'one image per registry code of an enumerated header field: the description sweep (spec/Envelope.tla) covers the names the clone has'
    if _ELF_VOC is None:
        from elftools.elf import descriptions as D
        from elftools.elf.constants import SH_FLAGS
        _ELF_VOC = {'shf': sum(f for f in D._DESCR_SH_FLAGS if isinstance(f, int)) | SH_FLAGS.SHF_MASKPROC,
                    'e_type': set(D._DESCR_E_TYPE), 'e_machine': set(D._DESCR_E_MACHINE), 'EI_OSABI': set(D._DESCR_EI_OSABI),
                    'sht': set(D._DESCR_SH_TYPE), 'pt': set(D._DESCR_P_TYPE)}
    unnamed = 'codes the clone\'s description tables have no name for (GNU readelf prints <unknown>: 0x.. / LOPROC+0x.., the clone <unknown>; on some it raises TypeError)'
    for f, names in c['hnames'].items():
        if not set(names) & _ELF_VOC[f]:
            return unnamed
    if any(not set(names) & _ELF_VOC['sht'] for _, names in c['shtypes']) or any(not set(names) & _ELF_VOC['pt'] for _, names in c['ptypes']):
        return unnamed
    if any(f & ~_ELF_VOC['shf'] for f in c['shflags']):
        return 'sh_flags bits the clone\'s flag table has no letter for (GNU readelf prints x for them)'
    if c['eversion'] != 1:
        return 'e_version other than EV_CURRENT (readelf.py raises KeyError)'
    if max(c['counts']) > 2000:
        return 'tens of thousands of section / program headers (extended numbering): minutes of run time in either tool'
    if c['machine'] in (40, 8, 243, 258) and c['eflags'] == 0:
        return ('a zero e_flags word on a machine whose flag word is decoded (ARM, MIPS, RISC-V, LoongArch; toolchains always set ABI bits there): '
                'GNU readelf prints nothing for 0, the clone decodes the zero fields')
    return None


def _env_symhash(c):
    if c['kind'] == 'ldynsym':
        return 'SHT_SUNW_LDYNSYM tables: GNU readelf does not dump them (the clone does)'
    return None


_NOTE_VOC = None


def _note_vocabulary():
    """What the clone's note tables have (names / bit masks only; codes are the registry's or the specification's)."""
    global _NOTE_VOC
    if _NOTE_VOC is None:
        from elftools.elf import descriptions as D
        from elftools.elf import enums as E
        from .elfutil import registry
        names = registry()['names']
        bits = {'GNU_PROPERTY_X86_FEATURE_1_AND': D._DESCR_NOTE_GNU_PROPERTY_X86_FEATURE_1_FLAGS,
                'GNU_PROPERTY_X86_FEATURE_2_USED': D._DESCR_NOTE_GNU_PROPERTY_X86_FEATURE_2_FLAGS,
                'GNU_PROPERTY_X86_ISA_1_NEEDED': D._DESCR_NOTE_GNU_PROPERTY_X86_ISA_1_FLAGS,
                'GNU_PROPERTY_X86_ISA_1_USED': D._DESCR_NOTE_GNU_PROPERTY_X86_ISA_1_FLAGS,
                'GNU_PROPERTY_AARCH64_FEATURE_1_AND': D._DESCR_NOTE_GNU_PROPERTY_AARCH64_FEATURE_1_AND}
        _NOTE_VOC = {'types': {int(names[k][0], 0) for k in D._DESCR_NOTE_N_TYPE if k in names},
                     'props': {k for k in E.ENUM_NOTE_GNU_PROPERTY_TYPE if isinstance(k, str) and k != '_default_'},
                     'bits': {k: sum(m for m, _ in v) for k, v in bits.items()},
                     'abi_os': set(D._DESCR_NOTE_ABI_TAG_OS)}
    return _NOTE_VOC


def _env_notes(c):
    if c['core']:
        return 'core notes are not implemented in the clone (project exclusion)'
    voc = _note_vocabulary()
    for n in c['notes']:
        if n['name'] != [71, 78, 85]:
            return 'the clone describes the notes of owner "GNU" only (its type table is applied to every owner; FreeBSD, Go, FDO, Xen, ... notes are not implemented)'
        t = core.denote({'d': n['type']})
        if t not in voc['types']:
            return 'note types of owner "GNU" the clone has no description for'
        if t == 2:
            return 'NT_GNU_HWCAP: the clone names the type but does not decode the descriptor (GNU readelf prints "Hardware Capabilities: num entries ...")'
        if n['dk'] == 'abi' and not set(n['dn']) & voc['abi_os']:
            return 'ABI tag of an operating system the clone has no name for'
        if n['dk'] == 'props':
            for p, d in zip(n['df'], n['dn']):
                known = [x for x in d['names'] if x in voc['props']]
                if not known:
                    if d['names']:
                        return 'GNU property types the clone has no description for (its table is older than binutils 2.40\'s: x86 feature needed, 1_needed, AArch64 PAuth, ...)'
                    continue              # a type nobody names: both tools print it as raw data
                if known[0].startswith('GNU_PROPERTY_X86') and c['machine'] not in (3, 62):
                    return 'x86 properties in a file for another machine (GNU readelf decodes them under EM_386 / EM_X86_64 only, the clone everywhere)'
                if known[0] in voc['bits'] and len(p['data']) == 4:
                    v = int.from_bytes(bytes(p['data']), 'little' if c['le'] else 'big')
                    if v & ~voc['bits'][known[0]]:
                        return 'GNU property bits the clone\'s tables do not have (the tables are incomplete: "TODO; there is a long list")'
    return None


def _read_cfi(run, path):
    """CFI.tla (C06): one .debug_frame or .eh_frame section (+ the wrapper's stub .debug_info: the clone dumps frames only next to it)."""
    for c in run.cases(path):
        ins = [[i[0] if isinstance(i, list) else i for i in e['ins']] for e in c['ents'] if 'ins' in e]
        kinds = [e['k'] for e in c['ents']]
        cie = [e for e in c['ents'] if e['k'] == 'CIE']
        ctx = '%s/%d-%d%s' % (c['sk'], c['fmt'], c['asz'], 'le' if c['le'] else 'be')
        addr = core.denote(c['addr'])
        fdes = [e for e in c['ents'] if e['k'] == 'FDE']
        yield {'tag': '%s/%s%s' % (c['m'], ctx, ''.join('/' + f for f in c['flags'])), 'flags': c['flags'],
               'ops': {i[0] for e in c['ents'] if 'ins' in e for i in e['ins']}, 'fde_before_cie': any(e['cieoff'] > e['off'] for e in fdes),
               'cie_defines_cfa': all({i[0] for i in e['ins']} & {12, 18} for e in cie),
               'empty_expr': any(i[0] in (15, 16, 22) and i[1][-1][1] == [] for e in c['ents'] if 'ins' in e for i in e['ins']),
               'skey': '%s/%s/%s' % (c['m'], ctx, core.digest([kinds, ins, [[e['caf'], e['daf'], e['ver'], e['aug']] for e in cie]])),
               # a machine for which neither tool has DWARF register names (the writer's register numbers are abstract: 3, 5, 16, 200, ...;
               # the names are the description sweep's business): EM_PPC / EM_PPC64
               'cls': 8 * c['asz'], 'le': c['le'], 'stub': True, 'machine': 20 if c['asz'] == 4 else 21,
               'secs': [{'k': 'frame' if c['sk'] == 'debug' else 'eh_frame', 'b': c['bytes'],
                         'addr': list(addr.to_bytes(c['asz'], 'little')) if c['sk'] == 'eh' else []}]}


def _read_cfinest(run, path):
    """ReadelfEnvelopeC.tla: the CFI writer's sections whose FDE program holds two and more remembered states (nested
    DW_CFA_remember_state / DW_CFA_restore_state); the class of a case is container / depth / (every level left again)."""
    for c in run.cases(path):
        for out in _read_cfi(_OneCase(run, c), path):
            out['tag'] += '/depth%d%s' % (c['depth'], '/closed' if c['closed'] else '')
            out['rank'] = 0 if c['closed'] else 1          # (the outer restores have happened: the core of the alphabet)
            yield out


def _read_locrange(run, path):
    """LocRange.tla (C07): location / range list sections next to the .debug_info whose entries refer to the lists."""
    names = {('loc', 4): 'loc', ('loc', 5): 'loclists', ('rng', 4): 'ranges', ('rng', 5): 'rnglists'}
    for c in run.cases(path):
        if c['mode'] == 'classify':
            continue                                   # (a table of the specification, no bytes)
        secs = {names[(x['which'], x['lv'])]: x['bytes'] for x in c['secs']}
        kinds = sorted({r[0] for x in c['secs'] for l in x['lists'] for r in l.get('raw', [])})
        yield {'tag': '%s/%s' % (c['mode'], c['tag']), 'gens': sorted({x['lv'] for x in c['secs']}), 'which': sorted({x['which'] for x in c['secs']}),
               'skey': '%s/%s/%d%s/%s/%s' % (c['mode'], c['tag'], c['asz'], 'le' if c['le'] else 'be', '+'.join(kinds), core.digest([x['bytes'] for x in c['secs']])),
               'cls': 8 * c['asz'], 'le': c['le'], 'secs': _secs(info=c['info'], abbrev=c['abbrev'], addr=c['addr'], **secs)}


def _env_locrange(c):
    if 5 in c['gens']:
        return ('DWARF5 .debug_loclists / .debug_rnglists: GNU readelf 2.40 does not print the per-table headers that binutils >= 2.41 (the '
                'project\'s target) prints (oracle too old, see ORACLE_SKEW)')
    return None


def _opt_locrange(c):
    return (['--debug-dump=loc'] if 'loc' in c['which'] else []) + (['--debug-dump=Ranges'] if 'rng' in c['which'] else [])


def _env_cfi(c):
    if 45 in c['ops']:
        return ('opcode 0x2d: DW_CFA_GNU_window_save on SPARC, DW_CFA_AARCH64_negate_ra_state on AArch64 - a vendor opcode under a machine that does not '
                'define it (GNU readelf prints the former, the clone the latter)')
    if 'debug64' in c['flags']:
        return '.debug_frame in the 64-bit DWARF format: the clone prints the CIE pointer with 8 digits, GNU readelf with 16'
    if c['fde_before_cie']:
        return 'an FDE that precedes its CIE: binutils bug 31973 (the printed length depends on the binutils version; project exclusion)'
    return None


def _opt_cfi(c):
    """frames-interp only for sections whose CIEs define the CFA as register + offset (every compiler-made CIE does): without a definition
    GNU readelf prints r0+0 and the clone rNone+0, and GNU readelf 2.40 does not carry a CFA *expression* of the CIE over into the FDE's
    table (it prints r0+0 again); an empty expression block is not a location description (the clone raises TypeError on it)."""
    return ['--debug-dump=frames'] + (['--debug-dump=frames-interp'] if c['cie_defines_cfa'] and not c['empty_expr'] else [])


def _env_line(c):
    kinds = {p[0] for p in c['prog']}
    if kinds & {'unknown_ext', 'unknown_std'}:
        return 'opcodes no standard defines (vendor extensions) are not a supported feature: GNU readelf prints them as UNKNOWN, the clone skips them'
    if c['cus'] != list(range(1, len(c['units']) + 1)):
        return ('every line-number unit is referenced by exactly one compilation unit, in section order (what link editors produce): GNU readelf dumps '
                'the units of .debug_line in section order, the clone those the compilation units refer to')
    return None


def _read_exprctx(run, path):
    """ReadelfEnvelopeE.tla: .debug_info sections whose units have different contexts (version, DWARF format, address size), and
    sequences of single-unit files that one process dumps one after the other ('seq': the keys of the files)."""
    for c in run.cases(path):
        if c['mode'] == 'seq':
            yield {'tag': c['tag'], 'skey': '%s/%s' % (c['tag'], '|'.join(c['keys'])), 'seq': c['keys']}
        else:
            yield {'tag': c['tag'], 'skey': '%s/%s' % (c['tag'], c['key']), 'key': c['key'], 'rank': 0 if len(c['units']) == 1 else 1,
                   'cls': c['cls'], 'le': c['le'], 'machine': c['machine'], 'secs': _secs(info=c['info'], abbrev=c['abbrev'])}


def _read_locbase(run, path):
    """ReadelfEnvelopeL.tla: .debug_info / .debug_abbrev / .debug_loc / .debug_ranges of files whose units have every list of the
    base-address alphabet; a case arrives as one line per piece of a section [k, n, i, sec, b] (lines stay below 8 KB)."""
    pending, seen = {}, set()
    for part in run.cases(path):
        if part['k'] in seen:
            continue                  # (a constraint may be evaluated more than once for one state)
        slot = pending.setdefault(part['k'], {})
        slot[part['i']] = part
        if len(slot) < part['n']:
            continue
        del pending[part['k']]
        seen.add(part['k'])
        secs = {}
        for i in sorted(slot):
            secs.setdefault(slot[i]['sec'], []).extend(slot[i]['b'])
        units = part['tag'].split('/', 1)[1].split('>')
        yield {'tag': part['tag'], 'skey': '%s/%s' % (part['tag'], part['k']), 'key': part['k'], 'rank': 0 if len(units) > 1 else 1,
               'cls': part['cls'], 'le': part['le'], 'machine': part['machine'], 'view': slot[1]['view'], 'secs': _secs(**secs)}
    if pending:
        raise core.MachineryError('%d cases of %s were emitted incompletely' % (len(pending), path))


def _read_relocenv(run, path):
    """ReadelfEnvelopeR.tla: the class of a case is configuration / flavour / (negative addend with a symbol) / (entry without symbol)."""
    for c in _read_parts(run, path):
        c['skey'] = '%s/%s' % (c['tag'], c['key'])
        c['rank'] = 0 if 'neg' in c['tag'] else 1
        yield c


def _read_dumps(run, path):
    """ReadelfEnvelopeS.tla: sections for the hex / string dumps; the class of a case is the structure the specification computes."""
    for c in run.cases(path):
        # (hex mode: every case is its own sampling class; strings mode: the classes are the tags, each gets the same share of the sample)
        yield {'tag': '%s/%s' % (c['mode'], c['tag']), 'rank': 0 if c['mode'] == 'hex' else 1, 'mode': c['mode'], 'opts': c['opts'],
               'bytes': c['bytes'][:64], 'strs': c['strs'][:8], 'chunks': c['chunks'],
               **({'skey': 'hex/%s/%d%s/%d/%s' % (c['tag'], c['cls'], 'le' if c['le'] else 'be', c['n'], core.digest(c['chunks']))} if c['mode'] == 'hex' else {})}


# writers whose images were tried and are outside the envelope altogether (kept here so that the evidence says so)
NOT_OFFERED = {
    'LocRange.tla (C07) -> --debug-dump=loc / Ranges':
        'the writer\'s compilation units have no DW_AT_low_pc (readelf.py raises ValueError "Can\'t find the base IP (low_pc) for a CU"), its location '
        'expressions are arbitrary bytes, and GNU readelf 2.40 is too old an oracle for the DWARF5 sections (ORACLE_SKEW); the pair-format '
        'lists inside the envelope are written by spec/ReadelfEnvelopeL.tla (source locbase)',
    'Lookup.tla (C13) -> --debug-dump=aranges / pubnames / pubtypes':
        'the address-range sets name compilation-unit offsets that are not unit headers (GNU readelf: "does not point to a CU header"); most name '
        'tables carry non-ASCII names; readelf.py pairs the set headers of a name table with its entry groups by position, so a set without '
        'entries shifts the headers (a deviation that is reported, not compared)',
}

SOURCES = [
    # (longest TLC runs first: the threads take their worker slots in this order)
    Source('dumps', 'ReadelfEnvelopeS', {'quick': ['ReadelfEnvelopeS_quick'], 'thorough': ['ReadelfEnvelopeS_thorough']}, _read_dumps,
           lambda c: c['opts'], sample=(900, 4000)),
    Source('die', 'DieTree', {'quick': ['ReadelfEnvelope_DieTree|DieTree_quick'], 'thorough': ['DieTree_quick']}, _read_die,
           ['--debug-dump=info'], sample=(500, 2000), wrap=True, envelope=_env_die),
    Source('cfi', 'CFI', {'quick': ['CFI_scan_quick', 'CFI_prog1_quick'], 'thorough': ['CFI_scan_quick', 'CFI_prog1_quick', 'CFI_prog3_quick']}, _read_cfi,
           _opt_cfi, sample=(300, 1500), wrap=True, tlc={'env': {'JAVA_TOOL_OPTIONS': '-Xss32m'}}, envelope=_env_cfi),
    Source('cfinest', 'ReadelfEnvelopeC', {'quick': ['ReadelfEnvelopeC_quick'], 'thorough': ['ReadelfEnvelopeC_thorough']}, _read_cfinest,
           _opt_cfi, sample=(240, 1200), wrap=True, tlc={'env': {'JAVA_TOOL_OPTIONS': '-Xss32m'}}, envelope=_env_cfi),
    Source('versions', 'ReadelfEnvelopeV', {'quick': ['ReadelfEnvelopeV_quick'], 'thorough': ['ReadelfEnvelopeV_thorough']}, _read_versions, ['-V', '-s']),
    Source('notes', 'Notes', {'quick': ['ReadelfEnvelope_Notes|Notes_quick'], 'thorough': ['Notes_quick']}, _read_notes, ['-n'], sample=(400, 2000), envelope=_env_notes),
    Source('elfimage', 'ElfImage', {'quick': ['ReadelfEnvelope_ElfImage|ElfImage_quick'], 'thorough': ['ElfImage_quick']}, _read_elfimage, ['-e'], sample=(300, 1500),
           envelope=_env_elfimage),
    Source('line', 'LineProgram', {'quick': ['ReadelfEnvelope_LineProgram|LineProgram_quick'], 'thorough': ['LineProgram_quick']}, _read_line,
           ['--debug-dump=decodedline'], sample=(500, 2000), wrap=True, envelope=_env_line),
    Source('attrs', 'Attrs', {'quick': ['ReadelfEnvelope_Attrs|Attrs_quick'], 'thorough': ['Attrs_quick']}, _read_attrs, ['-A'], sample=(300, 1500), envelope=_env_attrs),
    Source('dynamic', 'Dynamic', {'quick': ['ReadelfEnvelope_Dynamic|Dynamic_quick'], 'thorough': ['Dynamic_quick']}, _read_dynamic, ['-d'],
           sample=(300, 1500), tlc={'env': {'JAVA_TOOL_OPTIONS': '-Xss32m'}}, envelope=_env_dynamic),
    Source('symbols', 'SymHash', {'quick': ['SymHash_tiny', 'SymHash_fields@1'], 'thorough': ['SymHash_quick', 'SymHash_fields@1']}, _read_symhash,
           ['-s'], sample=(150, 1000), tlc={'env': {'JAVA_TOOL_OPTIONS': '-Xss32m'}}, envelope=_env_symhash),
    Source('exprctx', 'ReadelfEnvelopeE', {'quick': ['ReadelfEnvelopeE_quick'], 'thorough': ['ReadelfEnvelopeE_thorough']}, _read_exprctx,
           ['--debug-dump=info'], sample=(300, 700), wrap=True, seqs=(400, 1500)),
    Source('locbase', 'ReadelfEnvelopeL', {'quick': ['ReadelfEnvelopeL_quick'], 'thorough': ['ReadelfEnvelopeL_thorough']}, _read_locbase,
           ['--debug-dump=loc', '--debug-dump=Ranges', '--debug-dump=info'], sample=(80, 450), wrap=True),
    Source('relocenv', 'ReadelfEnvelopeR', {'quick': ['ReadelfEnvelopeR_quick'], 'thorough': ['ReadelfEnvelopeR_quick']}, _read_relocenv, ['-r'],
           sample=(1300, 1300)),
    Source('reloc', 'Reloc', {'quick': ['ReadelfEnvelope_Reloc|Reloc_quick'], 'thorough': ['Reloc_quick']}, _read_reloc, ['-r'], sample=(300, 1500), envelope=_env_reloc),
]


# ------------------------------------------------------------------ sampling
def _content(c):
    return core.digest(c.get('secs') or c.get('chunks'))


def _spread(cases, n):
    groups = {}
    for c in cases:
        groups.setdefault(c.get('skey', c['tag']), []).append(c)
    tags = sorted(groups)
    if len(cases) <= n:
        return [c for t in tags for c in groups[t]]
    if len(tags) > n:
        # more classes than budget: evenly spaced classes (in sorted order), one case each
        step = len(tags) / float(n)
        tags = [tags[int(i * step)] for i in range(n)]
    per = max(1, n // len(tags))
    out = []
    for t in tags:
        g = groups[t]
        if len(g) > 1:
            g.sort(key=_content)          # TLC's emission order is not deterministic with several workers
        k = min(per, len(g))
        step = len(g) / float(k)
        out += [g[int(i * step)] for i in range(k)]
    return out[:n]


def pick(cases, n):
    """Deterministic sample of at most n cases spanning the source's classes: the cases the source marks as the core of its
    alphabet (rank 0) first, the rest fills the budget; within each part cases are grouped by sampling key (default: the tag),
    classes taken in sorted order, evenly spaced inside each class."""
    first = [c for c in cases if c.get('rank', 1) == 0]
    rest = [c for c in cases if c.get('rank', 1) != 0]
    head = _spread(first, n if not rest else max(n - len(rest), (3 * n) // 4))
    return head + (_spread(rest, n - len(head)) if n > len(head) else [])


# ------------------------------------------------------------------ generation
class _Slots:
    """Worker budget shared by the TLC runs of the sources (they run in parallel threads)."""

    def __init__(self, n):
        self.free = n
        self.cv = threading.Condition()

    def take(self, w):
        with self.cv:
            while self.free < w:
                self.cv.wait()
            self.free -= w

    def give(self, w):
        with self.cv:
            self.free += w
            self.cv.notify_all()


MACHINE = {(32, True): 3, (64, True): 62, (32, False): 20, (64, False): 43}     # EM_386, EM_X86_64; big-endian: EM_PPC, EM_SPARCV9 (no DWARF register names in either tool)


class Sweep:
    """start(): the TLC runs of all sources begin in background threads; finish(): images on disk -> jobs + statistics."""

    def __init__(self, run, tmpd, only=None, slots=None):
        self.run, self.tmpd = run, tmpd
        self.srcs = [s for s in SOURCES if only is None or s.name in only]
        self.result = {}
        self.slots = _Slots(slots or core.NPROC)
        # most of these runs are bound by one thread (initial states, emission): two workers each, more runs side by side
        self.width = 2 if (slots or core.NPROC) >= 4 else 1
        self.threads = []

    def start(self):
        self.threads = [threading.Thread(target=self._source, args=(s,), daemon=True) for s in self.srcs]
        for t in self.threads:
            t.start()
        return self

    def _tlc(self, module, cfg, **kw):
        w = kw.pop('workers', None) or self.width
        w = min(w, self.width)
        self.slots.take(w)
        try:
            return self.run.tlc(module, cfg, workers=w, **kw)
        finally:
            self.slots.give(w)

    def _source(self, src):
        try:
            n = src.sample[0 if self.run.tier == 'quick' else 1]
            cases = []
            for cfg in src.cfgs[self.run.tier]:
                # 'mine|theirs': a reduced configuration of another property's module, and that property's own configuration as the fall-back
                # should the module have gained a constant since (the modules belong to their properties' builders)
                cfg, _, w = cfg.partition('@')         # 'cfg@1': one worker (lines longer than one atomic append must not interleave)
                mine, _, theirs = cfg.partition('|')
                kw = dict(src.tlc, **({'workers': int(w)} if w else {}))
                try:
                    res = self._tlc(src.module, mine, **kw)
                except core.MachineryError as ex:
                    if not theirs or 'is not assigned a value by the configuration file' not in str(ex):
                        raise
                    self.run.notes.append('%s: configuration %s is out of date (%s); %s used instead' % (src.name, mine, str(ex).strip().splitlines()[-1][:120], theirs))
                    res = self._tlc(src.module, theirs, **kw)
                try:
                    cases += list(src.read(self.run, res.out))
                except (KeyError, TypeError, IndexError):
                    # the other property's module has gained a kind of case this reader does not know (the modules belong to their
                    # properties' builders): read case by case and leave those out, counted
                    skipped = 0
                    for one in self.run.cases(res.out):
                        try:
                            cases += list(src.read(_OneCase(self.run, one), res.out))
                        except (KeyError, TypeError, IndexError):
                            skipped += 1
                    self.run.notes.append('%s: %d emitted cases of %s/%s are of a kind this sweep does not read (left out)' % (src.name, skipped, src.module, mine))
            seqs = [c for c in cases if 'seq' in c]
            cases = [c for c in cases if 'seq' not in c]
            outside, inside = {}, []
            for c in cases:
                why = src.envelope(c) if src.envelope else None
                if why:
                    outside[why] = outside.get(why, 0) + 1
                else:
                    inside.append(c)
            chosen = pick(inside, n)
            if src.wrap and chosen:
                self._wrap(src, chosen)
            self.result[src.name] = (len(cases), outside, len(inside), chosen, pick(seqs, src.seqs[0 if self.run.tier == 'quick' else 1]) if seqs else [])
        except BaseException as ex:       # noqa  (re-raised in the main thread)
            self.result[src.name] = ex

    def _wrap(self, src, chosen):
        """Section contents -> ELF images through spec/ReadelfEnvelope.tla (only the cases that will be offered)."""
        path = os.path.join(self.tmpd, 'secs_%s.ndjson' % src.name)
        by = {}
        with open(path, 'w') as f:
            for i, c in enumerate(chosen):
                cid = '%s-%d' % (src.name, i)
                by[cid] = c
                f.write(json.dumps({'id': cid, 'tag': c['tag'], 'cls': c['cls'], 'le': c['le'], 'stub': bool(c.get('stub')),
                                    'machine': c.get('machine', MACHINE[(c['cls'], c['le'])]), 'secs': c['secs']}, separators=(',', ':')) + '\n')
        # one configuration file per source (same content): the runs of several sources are in flight at the same time
        res = self._tlc('ReadelfEnvelope', 'ReadelfEnvelope_' + src.name, env={'SECS': path})
        got = {w['key']: w['chunks'] for w in _read_parts(self.run, res.out)}
        if set(got) != set(by):
            raise core.MachineryError('ReadelfEnvelope wrapped %d of %d cases of %s' % (len(got), len(by), src.name))
        for cid, c in by.items():
            c['chunks'] = got[cid]

    def finish(self):
        for t in self.threads:
            t.join()
        jobs, stats, meta = [], {}, {}
        for s in self.srcs:
            r = self.result[s.name]
            if isinstance(r, BaseException):
                raise r
            emitted, outside, inside, chosen, seqs = r
            if not emitted:
                raise core.MachineryError('writer source %s emitted no case' % s.name)
            st = {'emitted': emitted, 'outside_by_predicate': outside, 'inside_predicate': inside, 'images': len(chosen), 'offered': 0,
                  'classes': len({c['tag'] for c in chosen})}
            by_key = {}
            for i, c in enumerate(chosen):
                path = os.path.join(self.tmpd, 'w_%s_%05d.elf' % (s.name, i))
                with open(path, 'wb') as f:
                    f.write(concretise(c['chunks']))
                by_key[c.get('key')] = (path, c)
                for o in (s.options(c) if callable(s.options) else s.options):
                    name = '%s#%s#%d' % (s.name, c['tag'], i)
                    jobs.append(('writer', name, o, path))
                    meta[(name, o)] = c
                    st['offered'] += 1
            # sequences: the files of a sequence are dumped one after the other by one process (c18._one: paths joined by '|')
            for i, q in enumerate(seqs):
                if any(k not in by_key for k in q['seq']):
                    raise core.MachineryError('a sequence of %s names an image that was not written: %s' % (s.name, q['seq']))
                for o in s.options:
                    name = '%s#%s#s%d' % (s.name, q['tag'], i)
                    jobs.append(('writer', name, o, '|'.join(by_key[k][0] for k in q['seq'])))
                    meta[(name, o)] = dict(by_key[q['seq'][-1]][1], seq=q['seq'])
                    st['offered'] += 1
            if seqs:
                st['sequences'] = len(seqs)
            stats[s.name] = st
        return jobs, stats, meta


def generate(run, tmpd, only=None):
    return Sweep(run, tmpd, only).start().finish()


# ------------------------------------------------------------------ development entry point
def _dev(argv):
    """python -m vf.c18_writers <source>[,<source>] [quick|thorough]: run the sources alone and print the verdict classes."""
    import tempfile
    from multiprocessing import Pool
    from . import c18
    core.use_repo()
    run = core.Run('C18', argv[2] if len(argv) > 2 else 'quick', 0)
    tmpd = tempfile.mkdtemp(prefix='verif_c18w_', dir=run.tmp)
    jobs, stats, meta = generate(run, tmpd, only=set(argv[1].split(',')))
    print(json.dumps(stats, indent=1))
    print([(r['cfg'], r['distinct'], r['wall_s']) for r in run.tlc_runs])
    with Pool(min(6, core.NPROC)) as pool:
        results = pool.map(c18._one, jobs, chunksize=4)
    by = {}
    for (kind, name, option, verdict, msg), job in zip(results, jobs):
        key = (name.split('#')[0], option, verdict, c18.signature(msg) if verdict in ('diff', 'clone_rc') else str(msg)[:60] if verdict != 'ok' else '')
        if os.environ.get('BYTAG'):
            key = (name.split('#')[1], verdict, key[3] if verdict != 'diff' else '')
        by.setdefault(key, []).append((name, job[3], msg))
    keep = os.environ.get('KEEP')
    for key, lst in sorted(by.items(), key=lambda kv: -len(kv[1])):
        print('%5d  %s' % (len(lst), key))
        if key[2] not in ('ok',):
            for name, path, msg in lst[:2]:
                print('         %s %s\n           %s' % (name, path, str(msg)[:400].replace('\n', '\n           ')))
    if keep:
        print('kept', run.tmp)
    else:
        run.cleanup()


if __name__ == '__main__':
    _dev(sys.argv)
