"""C10, second part: TLC-simulated call histories (spec/Api.tla) replayed on corpus files and on GENERATED files.

For every step of a history the answer obtained on the one long-lived object is compared with
the answer of the same query on a freshly opened object (memoised per distinct query): the
property's own oracle.  Abstract argument indices are mapped onto what the file really has.

Generated files (vf/c10_writers.py): a deterministic small sample of the images the writers of the other properties'
specifications emit (ElfImage: several sections under one name; LineProgram: DW_LNE_define_file, two-unit sections; DieTree:
units of mixed contexts; LocRange: DWARF5 list sections with offset tables and DW_FORM_loclistx / DW_FORM_rnglistx; SymHash;
thorough: Dynamic, Notes, versions; spec/ApiTypes.tla: .debug_types sections in which several units bear one signature; CFI: a
.debug_frame and an .eh_frame section in one file) - every one gets the catalogue, the systematic patterns and a few simulated histories.

Memo pairs (Api.tla PP / PQ: two calls of one family - A, B, A - and a generator started after a query of its family) run on every
file; PAIRS_ONLY_QUICK lists small corpus files that the quick tier uses for those patterns alone (files with both kinds of call-frame
section, with .debug_types, with .debug_pubnames and .debug_pubtypes, with notes in sections and segments)."""
import io
import os

from . import core

QUICK_FILES = ['test/testfiles_for_unittests/sample_exe64.elf', 'test/testfiles_for_unittests/dwarfv5_basic.elf',
               'test/testfiles_for_unittests/lib_versioned64.so.1.elf', 'test/testfiles_for_unittests/simple_gcc.elf.arm',
               'test/testfiles_for_unittests/aarch64_be_gnu_hash.so.elf', 'test/testfiles_for_unittests/dwarf_llpair.elf',
               'test/testfiles_for_unittests/compressed_64.o', 'test/testfiles_for_readelf/reloc_arm_gcc.o.elf',
               'test/testfiles_for_readelf/dwarf_test_versions_mix.elf', 'test/testfiles_for_readelf/dwarf_v5ops.so.elf',
               'test/testfiles_for_dwarfdump/dwarf_v5ops-11.so.elf']
# large files that are used only for the list generators (v5 location/range lists need a pure DWARF5 producer)
LIST_KINDS = ('iter_location_lists', 'iter_range_lists', 'iter_CU_range_lists_ex', 'iter_list_CUs')
# file -> (quick, thorough): the generator kinds whose patterns are replayed there (None: no restriction, simulated histories too); the
# only query between two next() calls is indexed_die
LISTS_ONLY = {'test/testfiles_for_readelf/dwarf_v5ops.so.elf': (('iter_location_lists', 'iter_range_lists'), None),
              # a pure DWARF5 producer whose entries use DW_FORM_rnglistx / DW_FORM_loclistx, for the list generators in both tiers
              # (quick: the per-block generators, which do not scan the entries of all units)
              'test/testfiles_for_dwarfdump/dwarf_v5ops-11.so.elf': (('iter_CU_range_lists_ex', 'iter_list_CUs'), LIST_KINDS)}
# forms whose value is found through another section's table WHILE the entry is parsed, rarest first (Api.tla: indexed_die, a)
INDEX_FORMS = [('DW_FORM_rnglistx',), ('DW_FORM_loclistx',), ('DW_FORM_addrx', 'DW_FORM_addrx1', 'DW_FORM_addrx2', 'DW_FORM_addrx3', 'DW_FORM_addrx4'),
               ('DW_FORM_strx', 'DW_FORM_strx1', 'DW_FORM_strx2', 'DW_FORM_strx3', 'DW_FORM_strx4')]
# small files that the quick tier uses only for the held-container patterns (a RELR table, as a section and behind DT_RELR)
HELD_ONLY_QUICK = ['test/testfiles_for_unittests/lib_relro.so.elf']
# small files that the quick tier uses only for the memo-pair patterns (PP / PQ and the other query-first patterns)
PAIRS_ONLY_QUICK = ['test/testfiles_for_readelf/gcc48-simple.o', 'test/testfiles_for_unittests/simple_mipsel.elf',
                    'test/testfiles_for_unittests/dwarf_debug_types.elf', 'test/testfiles_for_readelf/struct-bitfield-packed.elf']
HELD_NAMES = ('held_iter', 'held_count', 'held_get', 'held_first', 'held_list')
# container classes in the order in which a file's containers are numbered (Api.tla: held container a): rare ones first
HELD_RANK = ['RelrRelocationSection', 'RelrRelocationTable', 'GNUVerDefSection', 'GNUVerNeedSection', 'GNUVerSymSection',
             'RelocationTable', 'RelocationSection', 'DynamicSection', 'SymbolTableSection', 'NoteSection',
             'ARMAttributesSection', 'RISCVAttributesSection']
MORE_FILES = ['test/testfiles_for_readelf/penalty_32_gcc.o.elf', 'test/testfiles_for_unittests/simple_gcc.elf.riscv', 'test/testfiles_for_unittests/exe_solaris64_cc.elf',
              'test/testfiles_for_unittests/dwarf_debug_types.elf', 'test/testfiles_for_unittests/lambda.elf',
              'test/testfiles_for_unittests/arm_exidx_test.so', 'test/testfiles_for_unittests/simple_mipsel.elf',
              'test/testfiles_for_unittests/aranges_partial.elf',
              'test/testfiles_for_unittests/lib_relro.so.elf', 'test/testfiles_for_unittests/trailing_null_dies.elf']

QUICK_QUERIES = ('section_data', 'string_at', 'section_by_name', 'symbol_by_name', 'dyn_tag', 'die_at', 'parent', 'children', 'line_program', 'eh_cfi', 'decoded',
                 'loc_of_die', 'ranges_of_die', 'versions', 'hash_lookup', 'attributes', 'ehabi', 'aranges', 'dwarf_again',
                 'name_lookup', 'indexed_die', 'line_tables', 'tu_by_sig')
CAP = 40          # items compared per generator


def _c(o):
    """Normalise any library result into plain comparable data."""
    from elftools.construct.lib.container import Container
    if isinstance(o, (bytes, bytearray)):
        return ('b', bytes(o))
    if isinstance(o, Container) or isinstance(o, dict):
        return tuple(sorted((str(k), _c(v)) for k, v in o.items()))
    if isinstance(o, (list, tuple)):
        return tuple(_c(x) for x in o)
    if isinstance(o, (int, str, bool, float)) or o is None:
        return o
    if hasattr(o, '_asdict'):
        return _c(o._asdict())
    if hasattr(o, '__dict__'):
        return (type(o).__name__,) + tuple(sorted((k, _c(v)) for k, v in vars(o).items() if not k.startswith('_') and
                                                  isinstance(v, (int, str, bool, bytes, list, tuple, dict, type(None)))))
    return repr(o)[:80]


def _sec(s):
    return None if s is None else (s.name, _c(s.header), type(s).__name__)


def _sym(s):
    return None if s is None else (s.name, _c(s.entry))


def _die(d):
    if d is None:
        return None
    return (d.offset, d.tag, d.size, d.abbrev_code, bool(d.has_children),
            tuple((k, a.form, _c(a.value), _c(a.raw_value), a.offset) for k, a in d.attributes.items()))


def _cu(c):
    return None if c is None else (c.cu_offset, c.cu_die_offset, _c(c.header))


def _tu(t):
    return None if t is None else (t.tu_offset, t.tu_die_offset, _c(t.header), _die(t.get_top_DIE()))


def _cfi_entry(e):
    hdr = _c(e.header) if hasattr(e, 'header') else None
    ins = tuple((i.opcode, _c(i.args)) for i in getattr(e, 'instructions', []))
    return (type(e).__name__, getattr(e, 'offset', None), hdr, ins)


def _lp_entry(e):
    st = e.state
    return (e.command, e.is_extended, _c(e.args),
            None if st is None else tuple(getattr(st, f) for f in ('address', 'file', 'line', 'column', 'is_stmt', 'basic_block',
                                                                    'end_sequence', 'prologue_end', 'epilogue_begin', 'isa',
                                                                    'discriminator')))


class World:
    """One opened file (ELFFile + lazily its DWARFInfo) and the argument catalogue of that file."""

    def __init__(self, data, catalogue=None):
        from elftools.elf.elffile import ELFFile
        self.stream = io.BytesIO(data)
        self.n = len(data)
        self.ef = ELFFile(self.stream)
        self._di = None
        self.cat = catalogue
        self.handles = {}          # objects obtained once and kept across later calls (as real clients do)

    @property
    def di(self):
        if self._di is None:
            self._di = self.ef.get_dwarf_info() if self.ef.has_dwarf_info() else False
        return self._di

    def dwarf_streams(self):
        if not self._di:
            return []
        out = []
        for k, v in vars(self._di).items():
            if k.endswith('_sec') and v is not None and hasattr(v, 'stream'):
                out.append((v.stream, v.size))
        return out

    def perturb(self, which, w):
        targets = []
        if which in ('elf', 'all'):
            targets.append((self.stream, self.n))
        if which in ('dwarf', 'all'):
            targets += self.dwarf_streams()
        for st, n in targets:
            st.seek({'zero': 0, 'mid': n // 2, 'end': n}[w])


def _held_api(obj):
    """API vocabulary of a container object: (iterate, count, random access, item -> plain data [drained], item -> plain
    data with only the first nested item taken)."""
    n = type(obj).__name__

    def ver(x):
        return None if x is None else (_c(x[0].entry), tuple((_c(y.entry), y.name) for y in x[1]) if hasattr(x[1], '__next__') else
                                       (_c(x[1].entry), x[1].name))

    def ver1(x):
        if x is None:
            return None
        if not hasattr(x[1], '__next__'):
            return (_c(x[0].entry), x[1].name)
        first = next(x[1], None)                      # the way a symbol dump names a version: first auxiliary only
        return (_c(x[0].entry), None if first is None else first.name)
    if n in ('RelocationSection', 'RelrRelocationSection', 'RelocationTable', 'RelrRelocationTable'):
        f = lambda r: _c(r.entry)
        return obj.iter_relocations, obj.num_relocations, obj.get_relocation, f, f
    if n in ('SymbolTableSection', 'GNUVerSymSection'):
        return obj.iter_symbols, obj.num_symbols, obj.get_symbol, _sym, _sym
    if n == 'DynamicSection':
        f = lambda t: _c(t.entry)
        return obj.iter_tags, obj.num_tags, obj.get_tag, f, f
    if n in ('GNUVerDefSection', 'GNUVerNeedSection'):
        return obj.iter_versions, obj.num_versions, obj.get_version, ver, ver1
    if n == 'NoteSection':
        f = lambda x: (x['n_name'], x['n_type'], x['n_offset'], x['n_size'], _c(x['n_desc']))
        return obj.iter_notes, None, None, f, f
    if n in ('ARMAttributesSection', 'RISCVAttributesSection'):
        f = lambda x: (x['vendor_name'], x['length'])
        return obj.iter_subsections, None, None, f, f
    raise core.MachineryError('no container vocabulary for ' + n)


def _held_obtain(w, loc):
    """The container at catalogue locator loc, obtained once per world and kept (a long-lived object)."""
    if loc not in w.handles:
        if loc[0] == 'sec':
            w.handles[loc] = w.ef.get_section(loc[1])
        else:                                          # ('dyntab', index of the dynamic section, key)
            w.handles[loc] = _held_obtain(w, ('sec', loc[1])).get_relocation_tables()[loc[2]]
    return w.handles[loc]


def _held(w, a):
    held = w.cat['held']
    if a >= len(held):
        return None, None
    return _held_obtain(w, held[a]['loc']), held[a]


def _held_arg(info, b):
    """Item argument b of a random access: positions spread over the container (one beyond its end), or the version
    indexes the section defines (and one it does not) - taken from the catalogue, never from the object under test."""
    if info['keys'] is not None:
        return info['keys'][b % len(info['keys'])]
    n = info['n']
    return [0, n - 1, n // 2, 1, n // 3, n + 5][b % 6] if n else 0


def _held_catalogue(w):
    ef = w.ef
    found = []
    for i, sec in enumerate(ef.iter_sections()):
        n = type(sec).__name__
        if n in HELD_RANK:
            found.append((HELD_RANK.index(n), len(found), ('sec', i)))
        if n == 'DynamicSection':
            try:
                for key, tab in sorted(sec.get_relocation_tables().items()):
                    found.append((HELD_RANK.index(type(tab).__name__), len(found), ('dyntab', i, key)))
            except Exception:                           # noqa: other properties' business
                pass
    out = []
    for _r, _k, loc in sorted(found):
        obj = _held_obtain(w, loc)
        _it, count, _get, _f, _f1 = _held_api(obj)
        info = {'loc': loc, 'type': type(obj).__name__, 'n': 0, 'keys': None}
        try:
            if count is not None:
                info['n'] = count()
            if info['type'] == 'GNUVerDefSection':
                ks = [v['vd_ndx'] for v, _aux in obj.iter_versions()]
                info['keys'] = ks + [max(ks) + 1] if ks else [1]
            elif info['type'] == 'GNUVerNeedSection':
                ks = [x['vna_other'] for _v, aux in obj.iter_versions() for x in aux]
                info['keys'] = ks + [max(ks) + 1] if ks else [1]
        except Exception:                               # noqa
            pass
        out.append(info)
    return out


def catalogue(data):
    """Argument catalogue, taken once from a dedicated object (never used for answers)."""
    w = World(data)
    ef = w.ef
    cat = {'nsec': ef.num_sections(), 'nseg': ef.num_segments()}
    secs = list(ef.iter_sections())
    cat['secnames'] = [s.name for s in secs][:64] + ['.no_such']
    # names for the lookups by name (Api.tla: name_lookup, a): the names several sections bear first, then a name no section has,
    # then the names of the last and of the first sections, then the rest
    allnames = [s.name for s in secs]
    dups = [n for i, n in enumerate(allnames) if allnames.count(n) > 1 and n not in allnames[:i]] if len(secs) <= 4096 else []
    rest = []
    for n in allnames[:0:-1][:3] + allnames[1:4]:
        if n not in dups and n not in rest:
            rest.append(n)
    cat['names'] = (dups[:3] + ['.no_such'] + rest)[:8]
    cat['dupnames'] = len(dups)
    cat['symtabs'] = [i for i, s in enumerate(secs) if type(s).__name__ == 'SymbolTableSection']
    cat['symnames'] = {}
    for i in cat['symtabs']:
        cat['symnames'][i] = [secs[i].get_symbol(k).name for k in range(min(secs[i].num_symbols(), 40))] + ['no_such_symbol']
    # sections whose data path is worth asking for: compressed first, then no-bits, string tables, the rest
    order = sorted(range(len(secs)), key=lambda i: (not secs[i].compressed, secs[i]['sh_type'] != 'SHT_NOBITS',
                                                    secs[i]['sh_type'] != 'SHT_STRTAB', i))
    cat['datasecs'] = order[:36]
    cat['dyn'] = [i for i, s in enumerate(secs) if type(s).__name__ == 'DynamicSection']
    cat['notes'] = [i for i, s in enumerate(secs) if type(s).__name__ == 'NoteSection']
    cat['notesegs'] = [i for i, s in enumerate(ef.iter_segments()) if type(s).__name__ == 'NoteSegment']
    cat['relocs'] = [i for i, s in enumerate(secs) if type(s).__name__ in ('RelocationSection', 'RelrRelocationSection')]
    cat['attrs'] = [i for i, s in enumerate(secs) if type(s).__name__ in ('ARMAttributesSection', 'RISCVAttributesSection')]
    cat['vers'] = [i for i, s in enumerate(secs) if type(s).__name__ in ('GNUVerDefSection', 'GNUVerNeedSection', 'GNUVerSymSection')]
    cat['hash'] = [i for i, s in enumerate(secs) if type(s).__name__ in ('ELFHashSection', 'GNUHashSection')]
    cat['cus'] = []
    cat['dies'] = {}
    cat['refdies'] = {}
    cat['locdies'] = {}
    cat['xdies'] = []
    cat['ncfi'] = cat['nehcfi'] = 0
    cat['sigs'] = []
    if w.di and w.di.debug_types_sec is not None:
        # type signatures (Api.tla: tu_by_sig, a): those SEVERAL units bear first, then the others in section order, then one no unit has
        try:
            allsigs = [tu['signature'] for tu in w.di.iter_TUs()][:4096]
        except Exception:                               # noqa: a section the library cannot walk is the walk's business (C04)
            allsigs = []
        first = [x for i, x in enumerate(allsigs) if x not in allsigs[:i]]
        dups = [x for x in first if allsigs.count(x) > 1]
        missing = 0x0123456789abcdef
        while missing in allsigs:
            missing += 1
        cat['sigs'] = (dups + [x for x in first if x not in dups])[:6] + [missing] if allsigs else []
        cat['dupsigs'] = len(dups)
    if w.di:
        for cu in w.di.iter_CUs():
            cat['cus'].append(cu.cu_offset)
            if len(cat['cus']) <= 6:
                offs, refs, locs = [], [], []
                for d in cu.iter_DIEs():
                    offs.append(d.offset)
                    if not d.is_null():
                        for k, a in d.attributes.items():
                            if a.form in ('DW_FORM_ref4', 'DW_FORM_ref_addr', 'DW_FORM_ref_udata', 'DW_FORM_ref1', 'DW_FORM_ref2', 'DW_FORM_ref8',
                                          'DW_FORM_ref_sig8'):
                                refs.append((d.offset, k))
                                break
                        if 'DW_AT_location' in d.attributes or 'DW_AT_ranges' in d.attributes:
                            locs.append(d.offset)
                    if len(offs) >= 400:
                        break
                cat['dies'][cu.cu_offset] = offs
                cat['refdies'][cu.cu_offset] = refs
                cat['locdies'][cu.cu_offset] = locs
        cat['info_size'] = w.di.debug_info_sec.size if w.di.debug_info_sec else 0
        # entries (not the unit's first) with an attribute in an index form: per form class the first three of each of the first units
        byform = [[] for _ in INDEX_FORMS]
        for cu_off in cat['cus'][:6]:
            per = [0] * len(INDEX_FORMS)
            cu = w.di.get_CU_at(cu_off)
            try:
                for k, d in enumerate(cu.iter_DIEs()):
                    if k == 0 or d.is_null():
                        continue
                    if k >= 40000 or min(per) >= 3:
                        break
                    forms = {a.form for a in d.attributes.values()}
                    for fi_, fs in enumerate(INDEX_FORMS):
                        if per[fi_] < 3 and forms & set(fs):
                            per[fi_] += 1
                            byform[fi_].append(d.offset)
            except Exception:                           # noqa: a unit the library cannot walk is the walk's business (C04)
                pass
        cat['xdies'] = [x for x in byform if x]
    cat['segs_load'] = [(s['p_vaddr'], s['p_filesz']) for s in ef.iter_segments() if s['p_type'] == 'PT_LOAD']
    cat['held'] = _held_catalogue(World(data))
    return cat


def _pick(lst, k, spread=7):
    return lst[(k * spread) % len(lst)] if lst else None


def answer(w, name, a, b):
    """One query on world w.  Returns comparable data; exceptions are part of the answer."""
    try:
        with core.guard(20):
            return _answer(w, name, a, b)
    except Exception as ex:                     # noqa
        return ('exc', type(ex).__name__)


def _die_at(w, a, b):
    cu_off = _pick(w.cat['cus'][:6], a, 1)
    if cu_off is None or not w.di:
        return None
    off = _pick(w.cat['dies'].get(cu_off, []), b, 11 + a)
    return None if off is None else w.di.get_DIE_from_refaddr(off)


def _answer(w, name, a, b):
    ef, cat = w.ef, w.cat
    if name == 'num_sections':
        return ef.num_sections()
    if name == 'section_by_name':
        return _sec(ef.get_section_by_name(_pick(cat['secnames'], a * 6 + b)))
    if name == 'get_section':
        return _sec(ef.get_section((a * 6 + b) % cat['nsec'])) if cat['nsec'] else None
    if name == 'name_lookup':
        # the three lookups by name (they share the lazily built name map); a: which name (several sections may bear it), b: which call
        nm = cat['names'][a % len(cat['names'])]
        if b % 3 == 0:
            return ('section', _sec(ef.get_section_by_name(nm)))
        if b % 3 == 1:
            return ('index', ef.get_section_index(nm))
        return ('has', ef.has_section(nm))
    if name == 'section_index':
        return ef.get_section_index(_pick(cat['secnames'], a * 6 + b))
    if name in ('section_data', 'string_at'):
        if not cat['nsec']:
            return None
        idx = cat['datasecs'][(a * 6 + b) % len(cat['datasecs'])]
        if ('sec', idx) not in w.handles:
            w.handles[('sec', idx)] = ef.get_section(idx)
        sec = w.handles[('sec', idx)]                                        # a long-lived section object
        if name == 'string_at':
            return sec.get_string(b) if hasattr(sec, 'get_string') else None
        d = sec.data()
        return (len(d), bytes(d[:48]), bytes(d[-16:]), sec.data_size, bool(sec.compressed))
    if name == 'segment_data':
        if not cat['nseg']:
            return None
        if ('seg', (a * 6 + b) % cat['nseg']) not in w.handles:
            w.handles[('seg', (a * 6 + b) % cat['nseg'])] = ef.get_segment((a * 6 + b) % cat['nseg'])
        seg = w.handles[('seg', (a * 6 + b) % cat['nseg'])]
        d = seg.data()
        return (len(d), bytes(d[:32]))
    if name == 'num_segments':
        return ef.num_segments()
    if name == 'get_segment':
        return _c(ef.get_segment((a * 6 + b) % cat['nseg']).header) if cat['nseg'] else None
    if name in ('symbol_by_name', 'get_symbol', 'num_symbols'):
        t = _pick(cat['symtabs'], a, 1)
        if t is None:
            return None
        sec = ef.get_section(t)
        if name == 'num_symbols':
            return sec.num_symbols()
        if name == 'get_symbol':
            return _sym(sec.get_symbol((b * 5) % sec.num_symbols())) if sec.num_symbols() else None
        r = sec.get_symbol_by_name(_pick(cat['symnames'][t], b, 5))
        return None if r is None else tuple(_sym(x) for x in r)
    if name in ('dyn_tag', 'num_tags', 'needed', 'reloc_tables'):
        t = _pick(cat['dyn'], a, 1)
        if t is None:
            return None
        sec = ef.get_section(t)
        if name == 'num_tags':
            return sec.num_tags()
        if name == 'dyn_tag':
            return _c(sec.get_tag(b % sec.num_tags()).entry)
        if name == 'needed':
            return tuple(getattr(t_, 'needed', None) for t_ in sec.iter_tags('DT_NEEDED'))
        return tuple(sorted((k, v.num_relocations()) for k, v in sec.get_relocation_tables().items()))
    if name == 'versions':
        t = _pick(cat['vers'], a, 1)
        if t is None:
            return None
        sec = ef.get_section(t)
        if type(sec).__name__ == 'GNUVerSymSection':
            return _sym(sec.get_symbol(b % max(1, sec.num_symbols())))
        return tuple((_c(v.entry), tuple((_c(x.entry), x.name) for x in aux)) for v, aux in sec.iter_versions())
    if name == 'hash_lookup':
        t = _pick(cat['hash'], a, 1)
        if t is None:
            return None
        sec = ef.get_section(t)
        st = _pick(cat['symtabs'], 0, 1)
        nm = _pick(cat['symnames'].get(st, ['x']), b, 3)
        r = sec.get_symbol(nm)
        return (sec.get_number_of_symbols(), None if r is None else _sym(r))
    if name == 'attributes':
        t = _pick(cat['attrs'], a, 1)
        if t is None:
            return None
        sec = ef.get_section(t)
        return tuple((s['vendor_name'], tuple((ss.header.tag if hasattr(ss.header, 'tag') else None, tuple((x.tag, _c(x.value)) for x in ss.iter_attributes()))
                                              for ss in s.iter_subsubsections())) for s in sec.iter_subsections())
    if name == 'ehabi':
        infos = ef.get_ehabi_infos()
        if not infos:
            return None
        inf = infos[a % len(infos)]
        n = inf.num_entry()
        e = inf.get_entry((b * 13) % n) if n else None
        return (n, None if e is None else _c({k: v for k, v in vars(e).items()}))
    if name == 'has_dwarf':
        return (ef.has_dwarf_info(), ef.has_dwarf_info(strict=True))
    if name == 'notes':
        # b even: the notes of the a-th SHT_NOTE section, b odd: those of the a-th PT_NOTE segment
        lst = cat['notes'] if b % 2 == 0 else cat['notesegs']
        if not lst:
            return None
        owner = ef.get_section(lst[a % len(lst)]) if b % 2 == 0 else ef.get_segment(lst[a % len(lst)])
        return tuple((n['n_name'], n['n_type'], n['n_offset'], n['n_size'], _c(n['n_desc'])) for n in owner.iter_notes())[:CAP]
    if name in HELD_NAMES:
        obj, info = _held(w, a)
        if obj is None:
            return None
        it, count, get, full, first = _held_api(obj)
        if name == 'held_count':
            return None if count is None else count()
        if name == 'held_list':
            items = []
            total = 0
            for x in it():                              # a complete pass; the first CAP items are compared, and the count
                if total < CAP:
                    items.append(full(x))
                total += 1
            return (total, tuple(items))
        if get is None:
            return None
        r = get(_held_arg(info, b))
        return full(r) if name == 'held_get' else first(r)
    if name == 'address_offsets':
        seg = _pick(cat['segs_load'], a, 1)
        if seg is None:
            return None
        return tuple(ef.address_offsets(seg[0] + (b * seg[1]) // 7, 1))
    if name == 'section_in_segment':
        if not cat['nseg'] or not cat['nsec']:
            return None
        return ef.get_segment(a % cat['nseg']).section_in_segment(ef.get_section((b * 3) % cat['nsec']))
    if name == 'dwarf_again' and b % 2 == 1:
        # odd b: a view with the OTHER relocation flag (relocate_dwarf_sections=False), asked for whether or not the default
        # (relocating) view of this file object exists already; its sections are the file's bytes as they are
        import hashlib
        if not ef.has_dwarf_info():
            return None
        d2 = ef.get_dwarf_info(relocate_dwarf_sections=False)
        return tuple(('unrelocated:' + k, v.size, hashlib.sha1(v.stream.getvalue()).hexdigest()[:16])
                     for k, v in sorted(vars(d2).items()) if k.endswith('_sec') and v is not None and hasattr(v, 'stream'))
    # ---- DWARF
    di = w.di
    if not di:
        return None
    if name == 'tu_by_sig':
        if not cat['sigs']:
            return None
        sig = cat['sigs'][a % len(cat['sigs'])]
        return ('tu', _tu(di.get_TU_by_sig8(sig))) if b % 2 == 0 else ('die', _die(di.get_DIE_by_sig8(sig)))
    if name == 'tu_list':
        if di.debug_types_sec is None:
            return None
        n = 0
        out = []
        for t in di.iter_TUs():                         # a complete pass; the first CAP units are compared, and the count
            if n < CAP:
                out.append(_tu(t))
            n += 1
        return (n, tuple(out))
    if name == 'cu_list':
        n = 0
        out = []
        for c in di.iter_CUs():
            if n < CAP:
                out.append(_cu(c))
            n += 1
        return (n, tuple(out))
    if name == 'cu_at':
        off = _pick(cat['cus'], a * 6 + b, 1)
        return None if off is None else _cu(di.get_CU_at(off))
    if name == 'cu_containing':
        if not cat.get('info_size'):
            return None
        return _cu(di.get_CU_containing(((a * 6 + b) * 977) % cat['info_size']))
    if name == 'top_die':
        off = _pick(cat['cus'], a * 6 + b, 1)
        return None if off is None else _die(di.get_CU_at(off).get_top_DIE())
    if name in ('die_at', 'die_attrs'):
        return _die(_die_at(w, a, b))
    if name == 'die_count':
        # a walk over every entry of (the first eight) units: afterwards every entry is parsed and cached
        out = []
        for k, cu in enumerate(di.iter_CUs()):
            if k >= 8:
                break
            n = 0
            for _d in cu.iter_DIEs():
                n += 1
                if n >= 50000:
                    break
            out.append(n)
        return tuple(out)
    if name == 'indexed_die':
        # an entry with an attribute in an index form, looked up by offset (a: form class as the file has them, b: which entry)
        if not cat['xdies']:
            return None
        lst = cat['xdies'][a % len(cat['xdies'])]
        return _die(di.get_DIE_from_refaddr(lst[b % len(lst)]))
    if name == 'line_tables':
        # the tables of the line-number program header (directories, files) after the program was run, in full
        off = _pick(cat['cus'], a * 6 + b, 1)
        if off is None:
            return None
        lp = di.line_program_for_CU(di.get_CU_at(off))
        if lp is None:
            return None
        n = len(lp.get_entries())
        return (n,) + tuple((k, len(v), _c(v)) for k, v in sorted(lp.header.items()) if isinstance(v, list))
    if name == 'parent':
        d = _die_at(w, a, b)
        return None if d is None else _die(d.get_parent())
    if name == 'children':
        d = _die_at(w, a, b)
        return None if d is None or d.is_null() else tuple(c.offset for c in d.iter_children())[:CAP]
    if name == 'follow_ref':
        cu_off = _pick(cat['cus'][:6], a, 1)
        ref = _pick(cat['refdies'].get(cu_off, []), b, 3)
        if ref is None:
            return None
        return _die(di.get_DIE_from_refaddr(ref[0]).get_DIE_from_attribute(ref[1]))
    if name == 'line_program':
        off = _pick(cat['cus'], a, 1)
        if off is None:
            return None
        lp = di.line_program_for_CU(di.get_CU_at(off))
        if lp is None:
            return None
        ents = lp.get_entries()
        return (len(ents), tuple(_lp_entry(e) for e in ents[b * 17:b * 17 + 12]), _c(lp.header.get('file_entry', []))[:8])
    if name in ('cfi', 'eh_cfi', 'decoded', 'cfi_decoded'):
        if name in ('cfi', 'cfi_decoded'):
            if not di.has_CFI():
                return None
            ents = di.CFI_entries()
        else:
            if not di.has_EH_CFI():
                return None
            ents = di.EH_CFI_entries()
        if not ents:
            return 0
        e = ents[(a * 6 + b) * 5 % len(ents)]
        if name in ('decoded', 'cfi_decoded') and hasattr(e, 'get_decoded'):
            d = e.get_decoded()
            return (len(ents), tuple(_c(r) for r in d.table), tuple(d.reg_order))
        return (len(ents), _cfi_entry(e))
    if name == 'dwarf_again':
        import hashlib
        d2 = ef.get_dwarf_info()                 # a second view of the same file object
        out = []
        for k, v in sorted(vars(d2).items()):
            if k.endswith('_sec') and v is not None and hasattr(v, 'stream'):
                out.append((k, v.size, hashlib.sha1(v.stream.getvalue()).hexdigest()[:16]))
        for k, v in sorted(vars(di).items()):    # ... and the first view is not disturbed by it
            if k.endswith('_sec') and v is not None and hasattr(v, 'stream'):
                out.append(('first:' + k, v.size, hashlib.sha1(v.stream.getvalue()).hexdigest()[:16]))
        return tuple(out)
    if name == 'aranges':
        ar = di.get_aranges()
        if ar is None or not ar.entries:
            return None
        e = ar.entries[(a * 6 + b) % len(ar.entries)]
        return (ar.cu_offset_at_addr(e.begin_addr), ar.cu_offset_at_addr(e.begin_addr + e.length), _c(e))
    if name in ('pubnames', 'pubtypes'):
        pn = di.get_pubnames() if name == 'pubnames' else di.get_pubtypes()
        if pn is None:
            return None
        keys = list(pn.keys())
        if not keys:
            return 0
        k = keys[(a * 6 + b) % len(keys)]
        return (len(keys), k, _c(pn[k]))
    if name in ('loc_of_die', 'ranges_of_die'):
        cu_off = _pick(cat['cus'][:6], a, 1)
        off = _pick(cat['locdies'].get(cu_off, []), b, 3)
        if off is None:
            return None
        d = di.get_DIE_from_refaddr(off)
        if name == 'loc_of_die':
            from elftools.dwarf.locationlists import LocationParser
            if 'DW_AT_location' not in d.attributes:
                return None
            lp = LocationParser(di.location_lists())
            at = d.attributes['DW_AT_location']
            if not lp.attribute_has_location(at, d.cu['version']):
                return 'noloc'
            return _c(lp.parse_from_attribute(at, d.cu['version'], d))
        if 'DW_AT_ranges' not in d.attributes:
            return None
        rl = di.range_lists()
        return _c(rl.get_range_list_at_offset(d.attributes['DW_AT_ranges'].value, d.cu)) if rl else None
    raise core.MachineryError('unknown query ' + name)


def start(w, kind, a, b):
    """Create a generator on world w (returns an iterator of comparable items)."""
    ef, cat, = w.ef, w.cat

    def sec_of(lst):
        t = _pick(lst, a, 1)
        return None if t is None else ef.get_section(t)
    if kind == 'held_iter':
        obj, _info = _held(w, a)
        if obj is None:
            return iter(())
        it, _count, _get, full, _first = _held_api(obj)
        return (full(x) for x in it())
    if kind == 'iter_sections':
        return (_sec(s) for s in ef.iter_sections())
    if kind == 'iter_segments':
        return (_c(s.header) for s in ef.iter_segments())
    if kind == 'iter_symbols':
        s = sec_of(cat['symtabs'])
        return iter(()) if s is None else (_sym(x) for x in s.iter_symbols())
    if kind == 'iter_tags':
        s = sec_of(cat['dyn'])
        return iter(()) if s is None else (_c(t.entry) for t in s.iter_tags())
    if kind == 'iter_notes':
        s = sec_of(cat['notes'])
        return iter(()) if s is None else ((n['n_name'], n['n_type'], n['n_offset'], n['n_size'], _c(n['n_desc'])) for n in s.iter_notes())
    if kind == 'iter_relocations':
        s = sec_of(cat['relocs'])
        return iter(()) if s is None else (_c(r.entry) for r in s.iter_relocations())
    if kind == 'iter_subsections':
        s = sec_of(cat['attrs'])
        return iter(()) if s is None else ((x['vendor_name'], x['length']) for x in s.iter_subsections())
    if kind == 'iter_versions':
        s = sec_of([i for i in cat['vers'] if type(ef.get_section(i)).__name__ != 'GNUVerSymSection'])
        return iter(()) if s is None else ((_c(v.entry), tuple(x.name for x in aux)) for v, aux in s.iter_versions())
    di = w.di
    if not di:
        return iter(())
    if kind == 'iter_CUs':
        return (_cu(c) for c in di.iter_CUs())
    if kind == 'iter_TUs':
        return iter(()) if di.debug_types_sec is None else (_tu(t) for t in di.iter_TUs())
    if kind == 'iter_DIEs':
        off = _pick(cat['cus'], a * 6 + b, 1)
        return iter(()) if off is None else (_die(d) for d in di.get_CU_at(off).iter_DIEs())
    if kind in ('iter_children', 'iter_siblings'):
        d = _die_at(w, a, b)
        if d is None or d.is_null():
            return iter(())
        if kind == 'iter_children':
            return (_die(c) for c in d.iter_children())
        if d.get_parent() is None:
            return iter(())
        return (_die(c) for c in d.iter_siblings())
    if kind == 'iter_location_lists':
        ll = di.location_lists()
        return iter(()) if ll is None else (_c(x) for x in ll.iter_location_lists())
    if kind == 'iter_range_lists':
        rl = di.range_lists()
        return iter(()) if rl is None else (_c(x) for x in rl.iter_range_lists())
    if kind in ('iter_CU_range_lists_ex', 'iter_list_CUs'):
        # DWARF5 list sections block by block: the blocks' headers with their offset tables (a even: range lists, a odd: location
        # lists), and the raw lists of block a
        loc = kind == 'iter_list_CUs' and a % 2 == 1
        if not (di.debug_loclists_sec if loc else di.debug_rnglists_sec):
            return iter(())                                                   # (the DWARF5 sections only)
        lists = di.location_lists() if loc else di.range_lists()
        if kind == 'iter_list_CUs':
            return (_c(x) for x in lists.iter_CUs())
        blocks = list(lists.iter_CUs())
        return iter(()) if not blocks else (_c(x) for x in lists.iter_CU_range_lists_ex(blocks[a % len(blocks)]))
    if kind == 'line_entries':
        off = _pick(cat['cus'], a * 6 + b, 1)
        if off is None:
            return iter(())
        lp = di.line_program_for_CU(di.get_CU_at(off))
        return iter(()) if lp is None else (_lp_entry(e) for e in lp.get_entries())
    raise core.MachineryError('unknown generator ' + kind)


def _take(it, k):
    """k-th next(): item or ('stop',) / ('exc', type)."""
    try:
        with core.guard(20):
            return next(it)
    except StopIteration:
        return ('stop',)
    except Exception as ex:                     # noqa
        return ('exc', type(ex).__name__)


def _is_pair(p):
    """The query-first patterns: A, B, A (Api.tla PP; P4 with a query in between) and a query followed by a generator (PQ, PW)."""
    if p[0]['op'] != 'query' or len(p) < 3:
        return False
    return p[1]['op'] == 'start' or (len(p) == 3 and p[1]['op'] == 'query' and p[0] == p[2])


class _Ledger:
    """What one file's replay reports back to the parent process (a stand-in for core.Run inside a worker)."""

    def __init__(self, tier):
        self.tier = tier
        self.mism = []
        self.validated = 0
        self.counts = []
        self.notes = []
        self.samples = []
        self.nviol = 0
        self.gen_time = None

    def mismatch(self, clause, tag, case, exp, obs):
        self.nviol += 1
        if len(self.mism) < 40:
            self.mism.append((clause, tag, case, exp, obs))

    def count(self, key, nontrivial=True):
        self.counts.append(key)


def _file_job(args):
    rel, fi, nfiles, tier, hists_path, pats_path = args[:6]
    share = args[6] if len(args) > 6 else (fi, nfiles)
    core.use_repo()
    led = _Ledger(tier)
    hists = list(core.Run.cases(hists_path))
    patterns = list(core.Run.cases(pats_path))
    steps = _replay_file(led, rel, fi, nfiles, hists, patterns, share, args[7] if len(args) > 7 else None)
    return rel, led.mism, led.validated, led.counts, led.notes, led.samples, steps, led.nviol, led.gen_time


def histories(run, generation=None):
    from . import c10_writers
    if generation is None:
        generation = c10_writers.Generation(run).start()
    nsim = 60 if run.tier == 'quick' else 600
    res = run.tlc('Api', 'Api_sim', simulate=nsim, depth=121, workers=1)
    nh = sum(1 for _ in run.cases(res.out))
    if nh < nsim // 2:
        raise core.MachineryError('Api simulation produced only %d histories' % nh)
    pres = run.tlc('Api', 'Api_patterns', workers=2)
    run.extra['api_patterns'] = sum(1 for _ in run.cases(pres.out))
    files = QUICK_FILES + HELD_ONLY_QUICK + PAIRS_ONLY_QUICK if run.tier == 'quick' else \
        QUICK_FILES + MORE_FILES + [f for f in PAIRS_ONLY_QUICK if f not in MORE_FILES]
    import time as _t
    _t0 = _t.time()
    gfiles, gstats = generation.finish()               # the writers' images (their TLC runs were started at the beginning of the check)
    run.notes.append('generated files: waited %.1fs for the writers' % (_t.time() - _t0))
    run.extra['api_generated_files'] = gstats
    from multiprocessing import Pool
    # the simulated histories are dealt out among the files that replay histories (quick: not the patterns-only files)
    tix = 0 if run.tier == 'quick' else 1
    takers = [rel for rel in files if not (LISTS_ONLY.get(rel, (None, None))[tix] is not None or (run.tier == 'quick' and rel in HELD_ONLY_QUICK + PAIRS_ONLY_QUICK))]
    jobs = [(rel, fi, len(files), run.tier, res.out, pres.out, (takers.index(rel), len(takers)) if rel in takers else None)
            for fi, rel in enumerate(files)]
    # generated file k: the patterns, and 3 (quick) / 60 (thorough) of the simulated histories
    jobs += [(g['label'], len(files) + k, len(files) + len(gfiles), run.tier, res.out, pres.out, (k, len(gfiles)), g['path']) for k, g in enumerate(gfiles)]
    # the largest file first
    jobs.sort(key=lambda j: -os.path.getsize(os.path.join(core.REPO, j[0])) if os.path.exists(os.path.join(core.REPO, j[0])) else 0)
    with Pool(min(8, core.NPROC)) as pool:
        results = pool.map(_file_job, jobs, chunksize=1)
    steps = 0
    gsum = {}
    for rel, mism, validated, counts, notes, samples, st, nviol, gtime in results:
        if gtime:
            k = rel.split('#')[0]
            gsum[k] = [x + y for x, y in zip(gsum.get(k, [0, 0, 0.0]), (1,) + gtime)]
        for clause, tag, case, exp, obs in mism:
            run.mismatch(clause, tag, case, exp, obs)
        run.nviol += max(0, nviol - len(mism))
        run.validated += validated
        for k in counts:
            run.count(k, nontrivial=True)
        run.notes += notes
        for sm in samples:
            if len(run.samples) < 4:
                run.samples.append(sm)
        steps += st
    for k, (nf, nh_, sec) in sorted(gsum.items()):
        run.notes.append('api %s: %d files, %d histories in %.1fs' % (k, nf, nh_, sec))
    run.extra['api_history_steps'] = steps
    run.extra['api_files'] = len(files) + len(gfiles)


def _replay_file(run, rel, fi, nfiles, hists, patterns, share=None, gpath=None):
    steps = 0
    gen = gpath is not None
    ftag = rel.split('#')[0] if gen else os.path.basename(rel)           # generated files: 'gen:<source>'
    if True:
        path = gpath or os.path.join(core.REPO, rel)
        if not os.path.exists(path) or os.path.getsize(path) == 0:
            run.notes.append('fixture missing: ' + rel)
            return 0
        data = open(path, 'rb').read()
        image = {'image_b64': core.b64(data)} if gen else {}
        try:
            cat = catalogue(data)
        except Exception as ex:                     # noqa
            if not gen:
                raise
            # a writer's image the library cannot open / enumerate at all: the owning property's business, no history can be replayed on it
            run.notes.append('generated file %s: no catalogue (%s), left out' % (rel, type(ex).__name__))
            return 0
        truth_q = {}
        truth_g = {}

        def fresh_answer(name, a, b):
            k = (name, a, b)
            if k not in truth_q:
                truth_q[k] = answer(World(data, cat), name, a, b)
            return truth_q[k]

        def fresh_item(kind, a, b, k):
            key = (kind, a, b)
            if key not in truth_g:
                it = None
                items = []
                try:
                    it = start(World(data, cat), kind, a, b)
                except Exception as ex:             # noqa
                    items.append(('exc', type(ex).__name__))
                if it is not None:
                    for _ in range(CAP + 1):
                        x = _take(it, 0)
                        items.append(x)
                        if x == ('stop',) or (isinstance(x, tuple) and x[:1] == ('exc',)):
                            break
                truth_g[key] = items
            items = truth_g[key]
            return items[k] if k < len(items) else None       # beyond the cap: not compared
        # every (history, file) pair on its own long-lived object
        def live_kind(h):
            # a pattern on a generator kind this file has nothing for is vacuous: skip it
            st = h[0]
            if st['op'] == 'query':
                return fresh_answer(st['name'], st['a'], st['b']) is not None
            return fresh_item(st['name'], st['a'], st['b'], 0) not in (('stop',), None)
        # patterns that differ only in arguments the generator ignores (same truth list) are one pattern
        seenp = set()
        pats = []
        for p in patterns:
            if not live_kind(p):
                continue
            st = p[0]
            cls = (st['name'], core.digest(repr(truth_g[(st['name'], st['a'], st['b'])] if st['op'] == 'start' else
                                                 truth_q[(st['name'], st['a'], st['b'])])),
                   tuple((o['op'], o['name'] if o['op'] != 'advance' else '', o['g'], o['w'],
                          # (pair patterns: the other call by what it finds in this file, not by its abstract arguments)
                          core.digest(repr(fresh_answer(o['name'], o['a'], o['b']))) if o['op'] == 'query' and _is_pair(p) else
                          (o['a'], o['b']) if o['op'] in ('query', 'start') else None) for o in p[1:]))
            if cls in seenp:
                continue
            held = all(o['name'] in HELD_NAMES for o in p if o['op'] in ('query', 'start', 'advance'))
            if run.tier == 'quick' and rel in HELD_ONLY_QUICK and not held:
                continue
            pair = _is_pair(p)
            p4 = pair and len(p) == 3 and (p[1]['name'], p[1]['a'], p[1]['b']) in (('section_by_name', 1, 1), ('die_at', 0, 1))   # (P4's two)
            # A, B, A with the two diagonal argument pairs of either call (thorough, on the small pair files: all sixteen combinations)
            if (run.tier == 'quick' or rel not in PAIRS_ONLY_QUICK) and pair and len(p) == 3 and not p4 and (p[0]['a'] != p[0]['b'] or p[1]['a'] != p[1]['b']):
                continue
            if run.tier == 'quick' and rel in PAIRS_ONLY_QUICK and (not pair or p4):
                continue
            # a lookup by type signature between two next() calls: only where there are type units
            if run.tier == 'quick' and not cat['sigs'] and not pair and any(o['name'] == 'tu_by_sig' for o in p):
                continue
            # a pair pattern whose other call finds nothing in this file is the first call asked twice (P4 has that)
            if pair and (fresh_answer(p[1]['name'], p[1]['a'], p[1]['b']) is None if p[1]['op'] == 'query' else
                         fresh_item(p[1]['name'], p[1]['a'], p[1]['b'], 0) in (('stop',), None)):
                continue
            only = LISTS_ONLY.get(rel, (None, None))[0 if run.tier == 'quick' else 1]
            if only is not None:
                kinds = {o['name'] for o in p if o['op'] == 'start'}
                if not kinds or not kinds <= set(only) or any(o['op'] == 'query' and o['name'] not in ('indexed_die', 'die_count') for o in p):
                    continue
            # lookups by name on a file whose sections all have different names: quick, the first two names only
            if run.tier == 'quick' and not cat['dupnames'] and any(o['name'] == 'name_lookup' and o['a'] > 1 for o in p):
                continue
            if run.tier == 'quick' and not held and st['op'] == 'start' and \
                    any(o['op'] == 'query' and (o['a'] != 0 or o['name'] not in QUICK_QUERIES) for o in p):
                continue
            # large files: the query-in-between pattern only with four representative queries (and the two that go with the list generators)
            if cat.get('info_size', 0) > 50000 and any(o['op'] == 'query' and o['name'] not in
                                                       ('die_at', 'line_program', 'eh_cfi', 'loc_of_die', 'indexed_die', 'die_count') for o in p):
                continue
            seenp.add(cls)
            pats.append(p)
        mine = (hists[share[0]::share[1]] if run.tier == 'quick' and share else hists) + pats
        if gen:
            nh = 3 if run.tier == 'quick' else 60
            mine = [hists[(share[0] * nh + j) % len(hists)] for j in range(nh)] + pats
        if share is None:
            mine = pats
        import time as _t
        _t0 = _t.time()
        for hi, h in enumerate(mine):
            if run.nviol >= 300:
                run.notes.append('api %s: replay stopped after %d violations (verdict decided)' % (rel, run.nviol))
                break
            w = World(data, cat)
            gens = []
            for si, op in enumerate(h):
                steps += 1
                case = dict(image, file=rel, history=h[:si + 1])
                if op['op'] == 'perturb':
                    w.perturb(op['name'], op['w'])
                elif op['op'] == 'query':
                    got = answer(w, op['name'], op['a'], op['b'])
                    want = fresh_answer(op['name'], op['a'], op['b'])
                    if got != want:
                        run.mismatch('history.query.' + op['name'], ftag, case, repr(want)[:400], repr(got)[:400])
                    else:
                        run.validated += 1
                elif op['op'] == 'start':
                    try:
                        with core.guard(20):
                            gens.append([start(w, op['name'], op['a'], op['b']), op['name'], op['a'], op['b'], 0, False])
                    except Exception as ex:             # noqa
                        gens.append([iter([('exc', type(ex).__name__)]), op['name'], op['a'], op['b'], 0, False])
                elif op['op'] == 'advance':
                    g = gens[op['g'] - 1]
                    if g[5]:
                        continue
                    got = _take(g[0], g[4])
                    want = fresh_item(g[1], g[2], g[3], g[4])
                    g[4] += 1
                    if got == ('stop',) or (isinstance(got, tuple) and got[:1] == ('exc',)):
                        g[5] = True
                    if want is None:
                        continue
                    if got != want:
                        g[5] = True
                        # (the class of the case: were the streams repositioned from outside while the generator was alive?)
                        seek = any(o['op'] == 'perturb' for o in h[:si])
                        run.mismatch('history.generator.' + g[1], ftag + ('+seek' if seek else ''), case, repr(want)[:400], repr(got)[:400])
                    else:
                        run.validated += 1
                elif op['op'] == 'abandon':
                    del gens[op['g'] - 1]
            run.count(('api', rel, hi), nontrivial=True)
            if len(run.samples) < 4 and hi == 1 and fi == 0:
                run.samples.append({'file': rel, 'history': h[:12]})
        if not gen or run.nviol:
            run.notes.append('api %s: %d histories in %.1fs' % (rel if gen else os.path.basename(rel), len(mine), _t.time() - _t0))
        else:
            run.gen_time = (len(mine), _t.time() - _t0)
    return steps
