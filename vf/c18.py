"""C18 - the readelf clone prints what GNU readelf prints.

Differential (translation-validation style): the oracle for the TEXT is GNU readelf 2.40
(/usr/bin/readelf); the TLA+ specification (spec/Envelope.tla over Elf.tla and the vendored
registry) is the generator of the description sweep - one image per entry of every ELF-level
description table the clone has - and the definition of the supported envelope.  The tolerance
rules are a vendored copy of the project's compare_output (vf/c18_compare.py), so loosening the
repository's runner cannot loosen this check.

Cross-writer sweep (vf/c18_writers.py): the images the WRITERS of the other properties'
specifications emit (Versions, Notes, Dynamic, SymHash, Reloc, Attrs, ElfImage, LineProgram, CFI,
DieTree) are dumped by both tools under the option that prints the structure the writer builds.
spec/ReadelfEnvelopeV.tla renders the Versions writer's objects as loadable dynamic objects (GNU
readelf reads .gnu.version through DT_VERSYM and the program headers); spec/ReadelfEnvelope.tla
puts the section contents the DWARF-level writers emit into an ELF container with Elf!Chunks.
Three further sources are writers of this property's own (round 3): spec/ReadelfEnvelopeS.tla (sections for the hex and string dumps,
-x / -p by name and by number), spec/ReadelfEnvelopeR.tla (the Reloc writer's tables rendered with named symbols, symbol indices
inside the table and type codes the machine defines: -r incl. negative addends in every class / byte order) and
spec/ReadelfEnvelopeE.tla (location expressions in the context of their unit - DWARF format, address size, version, byte order,
machine - with several contexts in one .debug_info, and SEQUENCES of files dumped by one process: the clone is run in-process and
keeps module-level state between dumps; every dump of a sequence is compared with what GNU readelf prints for that file alone).
Round 4: spec/ReadelfEnvelopeC.tla (the CFI writer of C06 with an alphabet of BLOCKS that nests DW_CFA_remember_state /
DW_CFA_restore_state pairs up to depth 3 - the depth of the remembered-state stack of DWARF 6.4.2.4 - for frames / frames-interp).
Round 5: spec/ReadelfEnvelopeL.tla (location and range lists of the pair format whose base address selection entries select 0, the
unit's low_pc or another address, in units whose DW_AT_low_pc is 0 or not, for loc / Ranges / info; list expressions with DIE
references inside entry-value blocks), DIE-reference operations nested in entry-value blocks in ReadelfEnvelopeE, and the versions
images also under -s (name@version vs name@@version of symbols that share a version index).
GNU readelf is the oracle only where it accepts the image without complaint (exit status 0, no
"readelf: Warning/Error", no bytes >= 0x80 in the text); every other restriction of the envelope
is a predicate on the emitted case with a stated reason, counted in the evidence."""
import importlib.util
import io
import json
import os
import re
import subprocess
import sys
import tempfile
from multiprocessing import Pool

from . import core
from .c18_compare import compare_output
from .elfutil import concretise

LEVEL = 'translation_validation'
READELF = '/usr/bin/readelf'

OPTIONS = ['-e', '-d', '-s', '-n', '-r', '-x.text', '-p.shstrtab', '-V',
           '--debug-dump=info', '--debug-dump=decodedline', '--debug-dump=frames', '--debug-dump=frames-interp',
           '--debug-dump=aranges', '--debug-dump=pubtypes', '--debug-dump=pubnames', '--debug-dump=loc',
           '--debug-dump=Ranges', '--arch-specific']


def excluded(filename, option):
    """The project's own documented exclusions (test/run_readelf_tests.py run_test_on_file), vendored,
    plus the oracle-skew exclusions of GNU readelf 2.40 (see OracleSkew below)."""
    base = os.path.basename(filename)
    if base.endswith('dwarf_debug_types.elf') and option in ('--debug-dump=frames', '--debug-dump=frames-interp', '--debug-dump=aranges'):
        return 'binutils bug 31973 / IAR aranges (project exclusion)'
    if 'core' in base and option == '-n':
        return 'core notes not implemented in the clone (project exclusion)'
    if 'dwarf_v4cie' in base and option in ('--debug-dump=frames-interp', '--debug-dump=aranges'):
        return 'binutils bug 31975 / unaligned aranges (project exclusion)'
    if option in ('-A', '--arch-specific') and '-eabi-' not in base:
        return 'arch-specific: only ARM works (project exclusion)'
    return ORACLE_SKEW.get((base, option))


# (file, option) pairs on which GNU readelf 2.40 (installed here) differs from the >= 2.41 the project targets.
# Triage notes in DESIGN.md (C18).  These are limitations of the oracle, not findings.
_LARCH = ('readelf 2.40 does not apply the LoongArch R_LARCH_ADD/SUB relocation pairs to debug sections (prints the unrelocated 0 where '
          'the psABI value is 0x80; binutils >= 2.41 does)')
_V5TAB = ('readelf 2.40 does not print the per-table headers ("Table at Offset ...") of DWARF5 .debug_loclists/.debug_rnglists '
          'that binutils >= 2.41 (the project\'s target) prints')
ORACLE_SKEW = {
    ('loongarch64-relocs.o.elf', '--debug-dump=info'): _LARCH,
    ('loongarch64-relocs.o.elf', '--debug-dump=aranges'): _LARCH,
    ('loongarch64-relocs.o.elf', '--debug-dump=frames'): _LARCH,
    ('loongarch64-relocs.o.elf', '--debug-dump=frames-interp'): _LARCH,
    ('dwarf_v5ops.so.elf', '--debug-dump=loc'): _V5TAB,
    ('dwarf_v5ops.so.elf', '--debug-dump=Ranges'): _V5TAB,
    ('dwarf_test_versions_mix.elf', '--debug-dump=Ranges'): _V5TAB,
}


_mod = None


def _clone(option, path):
    """Run scripts/readelf.py in-process (interpreter start would dominate otherwise)."""
    global _mod
    if _mod is None:
        core.use_repo()
        spec = importlib.util.spec_from_file_location('verif_readelf_clone', os.path.join(core.REPO, 'scripts', 'readelf.py'))
        _mod = importlib.util.module_from_spec(spec)
        spec.loader.exec_module(_mod)
    out = io.StringIO()
    argv, sys.argv = sys.argv, ['readelf.py'] + option.split() + [path]
    err, sys.stderr = sys.stderr, io.StringIO()
    rc = 0
    try:
        with core.guard(120):
            _mod.main(out)
    except SystemExit as ex:
        rc = ex.code if isinstance(ex.code, int) else 1
    except Exception as ex:                     # noqa
        rc = 'exc:%s:%s' % (type(ex).__name__, str(ex)[:80])
    finally:
        sys.argv = argv
        sys.stderr = err
    return rc, out.getvalue()


def _gnu(option, path, timeout=300):
    p = subprocess.run([READELF] + option.split() + [path], stdout=subprocess.PIPE, stderr=subprocess.PIPE,
                       env=dict(os.environ, LC_ALL='C'), timeout=timeout)
    return p.returncode, p.stdout.decode('latin-1'), p.stderr.decode('latin-1')


def signature(msg):
    """Development aid: a diff message with the numbers blanked."""
    import re
    m = re.search(r'>>(.*)<<\n>>(.*)<<', str(msg))
    if not m:
        return str(msg)[:80]
    return re.sub(r'[0-9a-f]{2,}|\d', '#', m.group(1))[:70] + ' | ' + re.sub(r'[0-9a-f]{2,}|\d', '#', m.group(2))[:70]


def _pair(kind, option, path):
    """One (file, option) pair: (verdict, message)."""
    try:
        rc1, out1, err1 = _gnu(option, path, 300 if kind != 'writer' else 30)
    except subprocess.TimeoutExpired:
        if kind != 'writer':
            raise
        return 'oracle_rc', 'timeout'          # a generated image the oracle does not finish on: outside the envelope
    if rc1 != 0:
        return 'oracle_rc', rc1                # the oracle itself refuses the file: outside the envelope
    if kind == 'writer' and ('readelf: Warning' in err1 or 'readelf: Error' in err1):
        # generated images: GNU readelf is the oracle only where it accepts the input without complaint
        return 'oracle_warn', err1.strip().splitlines()[0][:120]
    if kind == 'writer' and any(ord(ch) >= 128 for ch in out1):
        # names with bytes >= 0x80: what reaches the terminal depends on the encoding of stdout, which the property does not fix
        return 'oracle_warn', 'output with bytes >= 0x80 (terminal-encoding dependent)'
    rc2, out2 = _clone(option, path)
    if rc2 != 0:
        return 'clone_rc', str(rc2)
    ok, msg = compare_output(out1, out2)
    return ('ok' if ok else 'diff'), msg[:600]


def _one(job):
    kind, name, option, path = job
    try:
        if '|' not in path:
            verdict, msg = _pair(kind, option, path)
            return (kind, name, option, verdict, msg)
        # a sequence of dumps by ONE process (the clone keeps module-level state between dumps): every dump is compared with what
        # GNU readelf prints for that file; the first dump that disagrees is reported
        for k, p in enumerate(path.split('|')):
            verdict, msg = _pair(kind, option, p)
            if verdict in ('diff', 'clone_rc'):
                return (kind, name, option, verdict, 'dump %d of the sequence: %s' % (k + 1, msg))
            if verdict != 'ok':
                return (kind, name, option, verdict, msg)
        return (kind, name, option, 'ok', '')
    except Exception as ex:                     # noqa
        return (kind, name, option, 'machinery', '%s:%s' % (type(ex).__name__, ex))


def check(run):
    if not os.path.exists(READELF):
        raise core.MachineryError('GNU readelf not found at ' + READELF)
    run.rule = ('programs = (file, option) pairs: the readelf regression corpus x 18 options (minus the documented exclusions), the '
                'description sweep images (one per entry of each ELF-level description table of the clone, generated by spec/Envelope.tla) '
                'and the cross-writer sweep (a deterministic sample of the images the writers of the other properties\' specifications emit, '
                'under the option that dumps the structure: see coverage.writers for images offered / refused by the oracle / compared per '
                'source; sources of this property: hex / string dump sections, relocation tables rendered with named symbols, expressions in '
                'mixed unit contexts and sequences of dumps by one process, call-frame programs with nested remember/restore_state pairs); '
                'each pair runs GNU readelf 2.40 and the clone and compares '
                'under the vendored tolerance rules')
    run.assumptions += ['GNU binutils readelf 2.40 is the oracle for the text; the project targets >= 2.41: pairs that differ only because of '
                        'the older oracle are excluded with the reason (ORACLE_SKEW)',
                        'the clone is run in-process through its main(stream); 1 pair in 40 is repeated through a real subprocess',
                        'sequences (exprctx): the files of a sequence are dumped one after the other by the same process; each dump is '
                        'expected to print what GNU readelf prints for the file alone (ReadelfEnvelopeE!HistoryFree)',
                        'cross-writer sweep: an image is outside the envelope when GNU readelf exits non-zero or prints "readelf: Warning/Error" '
                        'for it, or when the source\'s envelope predicate names a reason (counted per reason in coverage.writers)']
    jobs = []
    # ---- cross-writer sweep: the TLC runs of the other properties' writers start now, in background threads
    from . import c18_sweep, c18_writers
    tmpd = tempfile.mkdtemp(prefix='verif_c18_', dir=run.tmp)
    # (the description sweep's two TLC runs below use ~1/3 of the cores meanwhile)
    writers = c18_writers.Sweep(run, tmpd, slots=max(2, core.NPROC - core.NPROC // 3)).start()
    cdir = os.path.join(core.REPO, 'test', 'testfiles_for_readelf')
    files = sorted(f for f in os.listdir(cdir) if f.endswith('.elf') and os.path.getsize(os.path.join(cdir, f)) > 0)
    skipped = {}
    for f in files:
        for opt in OPTIONS:
            why = excluded(f, opt)
            if why:
                skipped[why] = skipped.get(why, 0) + 1
                continue
            jobs.append(('corpus', f, opt, os.path.join(cdir, f)))
    # ---- description sweep: images from the specification
    sweep_jobs = c18_sweep.generate(run, tmpd)
    sweep_jobs += c18_sweep.geometry_jobs(run, tmpd)
    jobs += sweep_jobs
    with Pool(min(16, core.NPROC)) as pool:
        # the corpus and the description sweep are compared while the writers' TLC runs finish
        pending = pool.map_async(_one, jobs, chunksize=4)
        wjobs, wstats, wmeta = writers.finish()
        results = pending.get() + pool.map(_one, wjobs, chunksize=4)
    jobs += wjobs
    programs = 0
    diffs = 0
    outside = 0
    for kind, name, option, verdict, msg in results:
        if verdict == 'machinery':
            raise core.MachineryError('%s %s: %s' % (name, option, msg))
        wst = wstats[name.split('#')[0]] if kind == 'writer' else None
        if verdict in ('oracle_rc', 'oracle_warn'):
            outside += 1
            if wst is not None:
                wst.setdefault('oracle_refused', {})
                why = 'exit status %s' % msg if verdict == 'oracle_rc' else re.sub(r'\d+', 'N', str(msg))
                wst['oracle_refused'][why] = wst['oracle_refused'].get(why, 0) + 1
            continue
        programs += 1
        run.count((kind, name, option), nontrivial=True)
        if wst is not None:
            wst['compared'] = wst.get('compared', 0) + 1
        if verdict == 'ok':
            run.validated += 1
            if wst is not None:
                wst['agreed'] = wst.get('agreed', 0) + 1
            continue
        diffs += 1
        tag = '%s:%s' % (name if kind == 'corpus' else ':'.join(name.split('#')[:2]), option)
        case = {'kind': kind, 'file': name, 'option': option}
        if kind == 'writer':
            c = wmeta[(name, option)]
            data = concretise(c['chunks'])
            case['image_b64'] = core.b64(data) if len(data) <= 6000 else None
        run.mismatch('readelf.' + kind + ('.crash' if verdict == 'clone_rc' else ''), tag, case, 'output of GNU readelf 2.40', msg)
    # in-process route == real subprocess route (sampled)
    sub_checked = 0
    for job in jobs[::40]:
        kind, name, option, path = job
        if '|' in path:
            continue                  # (a sequence of dumps by one process: the in-process route is what is under test)
        p = subprocess.run([sys.executable, os.path.join(core.REPO, 'scripts', 'readelf.py')] + option.split() + [path], stdout=subprocess.PIPE,
                           stderr=subprocess.PIPE, cwd=core.REPO,
                           # (stdout is decoded as latin-1 below: have the interpreter encode it that way, non-ASCII names occur)
                           env=dict(os.environ, LC_ALL='C', PYTHONPATH=core.REPO, PYTHONIOENCODING='latin-1'), timeout=600)
        rc, out = _clone(option, path)
        sub_checked += 1
        if p.returncode == 0 and rc == 0 and p.stdout.decode('latin-1') != out:
            raise core.MachineryError('in-process clone output differs from the subprocess for %s %s' % (name, option))
    run.extra.update({'programs': programs, 'disagreements_checked': diffs, 'outside_envelope_oracle_refused': outside,
                      'excluded_pairs': skipped, 'subprocess_route_checked': sub_checked, 'sweep_images': len({j[1] for j in sweep_jobs}),
                      'corpus_files': len(files), 'writers': wstats, 'writer_programs': len(wjobs),
                      'writers_not_offered': c18_writers.NOT_OFFERED})
    run.samples = [{'file': j[1], 'option': j[2]} for j in jobs[::max(1, len(jobs) // 4)]][:4]
