"""C18 - the readelf clone prints what GNU readelf prints.

Differential (translation-validation style): the oracle for the TEXT is GNU readelf 2.40
(/usr/bin/readelf); the TLA+ specification (spec/Envelope.tla over Elf.tla and the vendored
registry) is the generator of the description sweep - one image per entry of every ELF-level
description table the clone has - and the definition of the supported envelope.  The tolerance
rules are a vendored copy of the project's compare_output (vf/c18_compare.py), so loosening the
repository's runner cannot loosen this check."""
import importlib.util
import io
import json
import os
import subprocess
import sys
import tempfile
from multiprocessing import Pool

from . import core
from .c18_compare import compare_output
from .elfutil import concretise

LEVEL = 'translation_validation'
READELF = '/usr/bin/readelf'

OPTIONS = ['-e', '-d', '-s', '-n', '-r', '-x.text', '-p.shstrtab', '-V',
           '--debug-dump=info', '--debug-dump=decodedline', '--debug-dump=frames', '--debug-dump=frames-interp',
           '--debug-dump=aranges', '--debug-dump=pubtypes', '--debug-dump=pubnames', '--debug-dump=loc',
           '--debug-dump=Ranges', '--arch-specific']


def excluded(filename, option):
    """The project's own documented exclusions (test/run_readelf_tests.py run_test_on_file), vendored,
    plus the oracle-skew exclusions of GNU readelf 2.40 (see OracleSkew below)."""
    base = os.path.basename(filename)
    if base.endswith('dwarf_debug_types.elf') and option in ('--debug-dump=frames', '--debug-dump=frames-interp', '--debug-dump=aranges'):
        return 'binutils bug 31973 / IAR aranges (project exclusion)'
    if 'core' in base and option == '-n':
        return 'core notes not implemented in the clone (project exclusion)'
    if 'dwarf_v4cie' in base and option in ('--debug-dump=frames-interp', '--debug-dump=aranges'):
        return 'binutils bug 31975 / unaligned aranges (project exclusion)'
    if option in ('-A', '--arch-specific') and '-eabi-' not in base:
        return 'arch-specific: only ARM works (project exclusion)'
    return ORACLE_SKEW.get((base, option))


# (file, option) pairs on which GNU readelf 2.40 (installed here) differs from the >= 2.41 the project targets.
# Triage notes in DESIGN.md (C18).  These are limitations of the oracle, not findings.
_LARCH = ('readelf 2.40 does not apply the LoongArch R_LARCH_ADD/SUB relocation pairs to debug sections (prints the unrelocated 0 where '
          'the psABI value is 0x80; binutils >= 2.41 does)')
_V5TAB = ('readelf 2.40 does not print the per-table headers ("Table at Offset ...") of DWARF5 .debug_loclists/.debug_rnglists '
          'that binutils >= 2.41 (the project\'s target) prints')
ORACLE_SKEW = {
    ('loongarch64-relocs.o.elf', '--debug-dump=info'): _LARCH,
    ('loongarch64-relocs.o.elf', '--debug-dump=aranges'): _LARCH,
    ('loongarch64-relocs.o.elf', '--debug-dump=frames'): _LARCH,
    ('loongarch64-relocs.o.elf', '--debug-dump=frames-interp'): _LARCH,
    ('dwarf_v5ops.so.elf', '--debug-dump=loc'): _V5TAB,
    ('dwarf_v5ops.so.elf', '--debug-dump=Ranges'): _V5TAB,
    ('dwarf_test_versions_mix.elf', '--debug-dump=Ranges'): _V5TAB,
}


_mod = None


def _clone(option, path):
    """Run scripts/readelf.py in-process (interpreter start would dominate otherwise)."""
    global _mod
    if _mod is None:
        core.use_repo()
        spec = importlib.util.spec_from_file_location('verif_readelf_clone', os.path.join(core.REPO, 'scripts', 'readelf.py'))
        _mod = importlib.util.module_from_spec(spec)
        spec.loader.exec_module(_mod)
    out = io.StringIO()
    argv, sys.argv = sys.argv, ['readelf.py', option, path]
    err, sys.stderr = sys.stderr, io.StringIO()
    rc = 0
    try:
        with core.guard(120):
            _mod.main(out)
    except SystemExit as ex:
        rc = ex.code if isinstance(ex.code, int) else 1
    except Exception as ex:                     # noqa
        rc = 'exc:%s:%s' % (type(ex).__name__, str(ex)[:80])
    finally:
        sys.argv = argv
        sys.stderr = err
    return rc, out.getvalue()


def _gnu(option, path):
    p = subprocess.run([READELF, option, path], stdout=subprocess.PIPE, stderr=subprocess.PIPE,
                       env=dict(os.environ, LC_ALL='C'), timeout=300)
    return p.returncode, p.stdout.decode('latin-1')


def _one(job):
    kind, name, option, path = job
    try:
        rc1, out1 = _gnu(option, path)
        rc2, out2 = _clone(option, path)
    except Exception as ex:                     # noqa
        return (kind, name, option, 'machinery', '%s:%s' % (type(ex).__name__, ex))
    if rc1 != 0:
        return (kind, name, option, 'oracle_rc', rc1)      # the oracle itself refuses the file: outside the envelope
    if rc2 != 0:
        return (kind, name, option, 'clone_rc', str(rc2))
    ok, msg = compare_output(out1, out2)
    return (kind, name, option, 'ok' if ok else 'diff', msg[:600])


def check(run):
    if not os.path.exists(READELF):
        raise core.MachineryError('GNU readelf not found at ' + READELF)
    run.rule = ('programs = (file, option) pairs: the readelf regression corpus x 18 options (minus the documented exclusions) and the '
                'description sweep images (one per entry of each ELF-level description table of the clone, generated by spec/Envelope.tla); '
                'each pair runs GNU readelf 2.40 and the clone and compares under the vendored tolerance rules')
    run.assumptions += ['GNU binutils readelf 2.40 is the oracle for the text; the project targets >= 2.41: pairs that differ only because of '
                        'the older oracle are excluded with the reason (ORACLE_SKEW)',
                        'the clone is run in-process through its main(stream); 1 pair in 40 is repeated through a real subprocess']
    jobs = []
    cdir = os.path.join(core.REPO, 'test', 'testfiles_for_readelf')
    files = sorted(f for f in os.listdir(cdir) if f.endswith('.elf') and os.path.getsize(os.path.join(cdir, f)) > 0)
    skipped = {}
    for f in files:
        for opt in OPTIONS:
            why = excluded(f, opt)
            if why:
                skipped[why] = skipped.get(why, 0) + 1
                continue
            jobs.append(('corpus', f, opt, os.path.join(cdir, f)))
    # ---- description sweep: images from the specification
    from . import c18_sweep
    tmpd = tempfile.mkdtemp(prefix='verif_c18_', dir=run.tmp)
    sweep_jobs = c18_sweep.generate(run, tmpd)
    sweep_jobs += c18_sweep.geometry_jobs(run, tmpd)
    jobs += sweep_jobs
    with Pool(min(16, core.NPROC)) as pool:
        results = pool.map(_one, jobs, chunksize=4)
    programs = 0
    diffs = 0
    outside = 0
    for kind, name, option, verdict, msg in results:
        if verdict == 'machinery':
            raise core.MachineryError('%s %s: %s' % (name, option, msg))
        if verdict == 'oracle_rc':
            outside += 1
            continue
        programs += 1
        run.count((kind, name, option), nontrivial=True)
        if verdict == 'ok':
            run.validated += 1
            continue
        diffs += 1
        tag = '%s:%s' % (name if kind == 'corpus' else ':'.join(name.split('#')[:2]), option)
        run.mismatch('readelf.' + kind + ('.crash' if verdict == 'clone_rc' else ''), tag,
                     {'kind': kind, 'file': name, 'option': option}, 'output of GNU readelf 2.40', msg)
    # in-process route == real subprocess route (sampled)
    sub_checked = 0
    for job in jobs[::40]:
        kind, name, option, path = job
        p = subprocess.run([sys.executable, os.path.join(core.REPO, 'scripts', 'readelf.py'), option, path], stdout=subprocess.PIPE,
                           stderr=subprocess.PIPE, cwd=core.REPO, env=dict(os.environ, LC_ALL='C', PYTHONPATH=core.REPO), timeout=600)
        rc, out = _clone(option, path)
        sub_checked += 1
        if p.returncode == 0 and rc == 0 and p.stdout.decode('latin-1') != out:
            raise core.MachineryError('in-process clone output differs from the subprocess for %s %s' % (name, option))
    run.extra.update({'programs': programs, 'disagreements_checked': diffs, 'outside_envelope_oracle_refused': outside,
                      'excluded_pairs': skipped, 'subprocess_route_checked': sub_checked, 'sweep_images': len({j[1] for j in sweep_jobs}),
                      'corpus_files': len(files)})
    run.samples = [{'file': j[1], 'option': j[2]} for j in jobs[::max(1, len(jobs) // 4)]][:4]
