"""C06 - call-frame information is parsed and interpreted per DWARF/.eh_frame rules.

Spec: spec/CFI.tla (section scan: Enc/View/reader machine; instruction table; section 6.4
interpreter, one operator per DW_CFA opcode) and spec/trace/CFITrace.tla (same interpreter
operators, total verdict).

G: TLC enumerates abstract sections (scan mode; scanz mode: .eh_frame terminators that are not the last
   record, set-valued expectation; pers mode: the personality pointer of a 'P' CIE over every pointer encoding x
   the value classes of its format, negative values included), FDE programs (prog mode) and long random programs
   (sim mode) and writes bytes + the view a correct reader reports + the decoded tables.  The driver
   hands the bytes to CallFrameInfo(...).get_entries() (and, for a sample, to
   DWARFInfo.CFI_entries/EH_CFI_entries) and compares kinds, offsets, header fields,
   augmentation_dict/bytes, lsda_pointer, cie.offset, instructions (opcode, args), the decoded table
   as a function location -> (CFA rule, register rules) and reg_order.
T: for every CIE/FDE of .eh_frame/.debug_frame of the corpus ELF files the public instruction list and
   the rows of get_decoded().table are recorded as begin/instr/end events (plus the entry's offset,
   length, id field and CIE link) and validated by one TLC run of CFITrace.

Python knows no format: expectations are read from the TLC output; the only vocabulary mappings are
CFARule/RegisterRule objects -> tuples and number denotation (digit lists -> int)."""
import base64
import glob
import inspect
import io
import multiprocessing
import os

from . import core

LEVEL = 'model_checking'

JAVA_ENV = {'JAVA_TOOL_OPTIONS': '-Xss32m'}      # the recursive operators need a deeper stack for 30-step programs

SCAN_TAGS = ('debug64', 'eh_noz', 'eh_noR', 'mid_terminator')


# ----------------------------------------------------------------------------- denotation
def _den(v):
    return v if isinstance(v, int) else core.denote(v)


def _arg(a):
    """operand as emitted by CFI!ArgJ: Small int | [0, LE digits] | [1, block bytes]"""
    if isinstance(a, int):
        return a
    if a[0] == 0:
        return int.from_bytes(bytes(a[1]), 'little')
    return list(a[1])


def _lib_arg(a):
    return a if isinstance(a, int) else list(a)


def _lib_ins(entry):
    return [[i.opcode, [_lib_arg(a) for a in i.args]] for i in entry.instructions]


def _exp_ins(ent):
    return [[i[0], [_arg(a) for a in i[1]]] for i in ent['ins']]


def _cfa(c):
    """CFARule -> the spec's <<kind, reg, off, expr>>"""
    if c.expr is not None:
        return ['expr', 0, 0, list(c.expr)]
    if c.reg is None:
        return ['none', 0, 0, []]
    return ['regoff', c.reg, c.offset, []]


def _rule(reg, r):
    a = r.arg
    if a is None:
        return [reg, r.type, 0, []]
    if isinstance(a, int):
        return [reg, r.type, a, []]
    return [reg, r.type, 0, list(a)]


def _lib_row(line):
    rules = sorted((_rule(k, v) for k, v in line.items() if k not in ('pc', 'cfa')), key=repr)
    return [line['pc'], _cfa(line['cfa']), rules]


def _lib_table(entry):
    d = entry.get_decoded()
    return [_lib_row(l) for l in d.table], list(d.reg_order)


def _exp_rows(tab):
    return [[int.from_bytes(bytes(r[0]), 'little'), r[1], sorted(r[2], key=repr), r[3]] for r in tab['rows']]


def _table_agrees(kind, exp_rows, lib_rows):
    """The table as a function location -> (CFA rule, register rules).  A later row at the same
    location replaces the earlier one; an empty row (no CFA rule, no register rule) may be left out;
    the location column of a CIE's own table is not compared."""
    if kind == 'CIE':
        e = exp_rows[-1]
        if not lib_rows:
            return e[3]
        return len(lib_rows) == 1 and lib_rows[0][1:] == e[1:3]
    lib = {}
    for r in lib_rows:
        lib[r[0]] = r[1:]
    exp = {r[0]: r for r in exp_rows}
    if not set(lib) <= set(exp):
        return False
    for loc, r in exp.items():
        if loc in lib:
            if lib[loc] != r[1:3]:
                return False
        elif not r[3]:
            return False
    return True


# ----------------------------------------------------------------------------- library calls
def _structs(case):
    from elftools.dwarf.structs import DWARFStructs
    return DWARFStructs(little_endian=case['le'], dwarf_format=32, address_size=case['asz'])


def _entries_direct(case, data):
    from elftools.dwarf.callframe import CallFrameInfo
    cfi = CallFrameInfo(io.BytesIO(data), len(data), _den(case['addr']), _structs(case),
                        for_eh_frame=(case['sk'] == 'eh'))
    ents = cfi.get_entries()
    if cfi.get_entries() is not ents and list(cfi.get_entries()) != list(ents):
        raise core.MachineryError('get_entries() is not stable')
    return ents


def _entries_dwarfinfo(case, data):
    from elftools.dwarf.dwarfinfo import DWARFInfo, DwarfConfig, DebugSectionDescriptor
    eh = case['sk'] == 'eh'
    name = '.eh_frame' if eh else '.debug_frame'
    sec = DebugSectionDescriptor(stream=io.BytesIO(data), name=name, global_offset=0, size=len(data),
                                 address=_den(case['addr']))
    kw = {p: None for p in inspect.signature(DWARFInfo.__init__).parameters if p not in ('self', 'config')}
    kw['eh_frame_sec' if eh else 'debug_frame_sec'] = sec
    di = DWARFInfo(config=DwarfConfig(little_endian=case['le'], machine_arch='x64' if case['asz'] == 8 else 'x86',
                                      default_address_size=case['asz']), **kw)
    return di.EH_CFI_entries() if eh else di.CFI_entries()


def _kind(e):
    return type(e).__name__


def _project(e):
    """Everything the property talks about, per entry, as plain data."""
    k = _kind(e)
    if k == 'ZERO':
        return {'k': k, 'off': e.offset}
    h = e.header
    if k == 'CIE':
        ad = e.augmentation_dict
        pers = ad.get('personality')
        return {'k': k, 'off': e.offset,
                'header': [h['length'], h['CIE_id'], h['version'], list(h['augmentation']), h['address_size'],
                           h['segment_size'], h['code_alignment_factor'], h['data_alignment_factor'],
                           h['return_address_register']],
                'augb': list(e.augmentation_bytes),
                'augd': [ad.get('length'), ad.get('FDE_encoding'), ad.get('LSDA_encoding'),
                         None if pers is None else pers['encoding']],
                'pers': None if pers is None else pers['function'],
                'ins': _lib_ins(e)}
    return {'k': k, 'off': e.offset, 'header': [h['length'], h['CIE_pointer']],
            'loc': [h['initial_location'], h['address_range']],
            'cie': [_kind(e.cie), e.cie.offset],
            'augb': list(e.augmentation_bytes), 'lsda': e.lsda_pointer, 'ins': _lib_ins(e)}


def _expect(ent):
    k = ent['k']
    if k == 'ZERO':
        return {'k': k, 'off': ent['off']}
    none = lambda v: None if v == -1 else v
    if k == 'CIE':
        return {'k': k, 'off': ent['off'],
                'header': [ent['len'], _den(ent['id']), ent['ver'], ent['aug'], none(ent['asz']), none(ent['seg']),
                           ent['caf'], ent['daf'], ent['rar']],
                'augb': ent['augb'],
                'augd': [len(ent['augb']) if ent['hasz'] else None, none(ent['fenc']), none(ent['lenc']),
                         none(ent['penc'])],
                # the admissible reports of the personality pointer (CFI!PersDen): the number the encoding denotes, or
                # the address it designates in the address space; nothing under pcrel (module header)
                'pers': (sorted(set(_den(x) for x in ent['persv']['v']))
                         if ent['penc'] != -1 and ent['persabs'] else None),
                'perscls': ent['persv']['cls'],
                'ins': _exp_ins(ent)}
    return {'k': k, 'off': ent['off'], 'header': [ent['len'], ent['ptr']],
            'loc': [_den(ent['loc']), _den(ent['range'])], 'cie': ['CIE', ent['cieoff']],
            'augb': ent['augb'], 'lsda': _den(ent['lsda']) if ent['haslsda'] else None, 'ins': _exp_ins(ent)}


# ----------------------------------------------------------------------------- one case
def _first(flags, order):
    for f in order:
        if f in flags:
            return f
    return 'ok'


def replay_case(case, n):
    """-> (mismatches, nontrivial).  A mismatch is (clause, tag, small case, expected, observed)."""
    out = []
    data = bytes(case['bytes'])
    flags = case['flags']
    small = {'m': case['m'], 'sk': case['sk'], 'le': case['le'], 'fmt': case['fmt'], 'asz': case['asz'],
             'addr': _den(case['addr']), 'bytes': core.b64(data), 'flags': sorted(flags)}
    stag = _first(flags, SCAN_TAGS)
    exp = [_expect(e) for e in case['ents']]
    nontrivial = any(e['k'] == 'FDE' for e in exp) or any(e.get('ins') for e in exp)

    def mm(clause, tag, i, e, o):
        out.append((clause, tag, dict(small, entry=i), e, o))

    try:
        ents = _entries_direct(case, data)
        obs = [_project(e) for e in ents]
    except core.MachineryError:
        raise
    except Exception as ex:          # noqa: a well-formed section must parse
        mm('scan.parse', stag, -1, [[e['k'], e['off']] for e in exp], {'exc': type(ex).__name__})
        return out, nontrivial
    if n % 5 == 0:                   # the DWARFInfo entry points must give the same answer
        try:
            obs2 = [_project(e) for e in _entries_dwarfinfo(case, data)]
        except Exception as ex:      # noqa
            obs2 = {'exc': type(ex).__name__}
        if obs2 != obs:
            mm('scan.dwarfinfo_api', stag, -1, obs, obs2)
    ko = [[e['k'], e['off']] for e in obs]
    ke = [[e['k'], e['off']] for e in exp]
    term = case.get('term', 0)
    if ko != ke:
        # records after a terminator: the spec's expectation is set-valued (CFI.tla header: LSB 10.6.1 "number of
        # records determined by the section size" / 10.6.1.1 "processing shall end"): all records, or exactly the
        # records up to and including the first terminator (`term` of them, computed by the spec)
        if term and ko == ke[:term]:
            exp = exp[:term]
        else:
            mm('scan.entries', stag, -1, [ke] + ([ke[:term]] if term else []), ko)
            return out, nontrivial
    for i, (e, o) in enumerate(zip(exp, obs)):
        k = e['k'].lower()
        for fld in e:
            if fld in ('k', 'off', 'perscls'):
                continue
            if fld == 'pers':
                if e[fld] is None:
                    continue         # personality value under pcrel: not fixed (module header)
                if o[fld] not in e[fld]:
                    # tag: the spec's class of the stored pointer (abs_unsigned / abs_signed_nonneg / abs_signed_negative)
                    mm('cie.pers', stag if stag != 'ok' else e['perscls'], i, e[fld], o[fld])
                continue
            if e[fld] != o[fld]:
                mm('%s.%s' % (k, fld), stag, i, e[fld], o[fld])
    # decoded tables; FDE-first and CIE-first decoding orders alternate between cases
    order = list(range(len(ents)))
    if n % 2:
        order.reverse()
    alt = case['alt']
    for i in order:
        if exp[i]['k'] == 'ZERO':
            continue
        tab = case['tabs'][i]
        er = _exp_rows(tab)
        try:
            rows, reg_order = _lib_table(ents[i])
            if _lib_table(ents[i]) != (rows, reg_order):
                raise core.MachineryError('get_decoded() is not stable')
        except core.MachineryError:
            raise
        except Exception as ex:      # noqa
            tag = _first(flags, SCAN_TAGS + ('restore_without_initial_rules', 'cfa_expression_only'))
            mm('table.decode', tag, i, er, {'exc': type(ex).__name__})
            continue
        kind = exp[i]['k']
        if not _table_agrees(kind, er, rows):
            if alt and _table_agrees(kind, _exp_rows(alt[i]), rows):
                tag = 'def_cfa_sf_code_alignment'
            else:
                tag = _first(flags, SCAN_TAGS + ('cfa_expression_only',))
            mm('table.rows', tag, i, er, rows)
        if reg_order != tab['ord'] and reg_order != tab['ords']:
            mm('table.reg_order', stag, i, [tab['ord'], tab['ords']], reg_order)
    return out, nontrivial


def _replay_lines(args):
    lines, base = args
    core.use_repo()
    import json
    res = []
    for j, line in enumerate(lines):
        v = json.loads(line)
        if isinstance(v, str):
            v = json.loads(v)
        mms, nt = replay_case(v, base + j)
        res.append((core.digest([v['sk'], v['le'], v['asz'], v['addr'], v['bytes']]), nt, mms))
    return res


def _replay_file(run, path, pool, counters):
    with open(path) as f:
        lines = [l for l in f if l.strip()]
    chunk = 400
    jobs = [(lines[i:i + chunk], i) for i in range(0, len(lines), chunk)]
    results = pool.imap(_replay_lines, jobs) if pool else map(_replay_lines, jobs)
    seen = 0
    for res in results:
        for key, nt, mms in res:
            run.count(key, nontrivial=nt)
            run.validated += 1
            seen += 1
            for clause, tag, small, e, o in mms:
                run.mismatch(clause, tag, small, e, o)
                counters[clause + ':' + tag] = counters.get(clause + ':' + tag, 0) + 1
    if len(run.samples) < 3 and lines:
        import json
        v = json.loads(lines[len(lines) // 2])
        v = json.loads(v) if isinstance(v, str) else v
        run.samples.append({'mode': v['m'], 'section': v['sk'], 'bytes': core.b64(bytes(v['bytes'])),
                            'entries': [[e['k'], e['off']] for e in v['ents']], 'tables': v['tabs']})
    return seen


# ----------------------------------------------------------------------------- T: corpus traces
CORPUS_DIRS = ('test/testfiles_for_unittests', 'test/testfiles_for_readelf', 'examples')
QUICK_FILES = [
    'examples/sample_exe64.elf',
    'test/testfiles_for_readelf/aarch64-pac-bti.elf',
    'test/testfiles_for_readelf/angr-eh_frame.elf',
    'test/testfiles_for_readelf/clang33-simple.o',
    'test/testfiles_for_readelf/dwarf_debug_types.elf',
    'test/testfiles_for_readelf/dwarf_v4cie.elf',
    'test/testfiles_for_readelf/empty-cie.o.elf',
    'test/testfiles_for_readelf/exe_simple32.elf',
    'test/testfiles_for_readelf/gcc48-simple.o',
    'test/testfiles_for_readelf/issue103.elf',
    'test/testfiles_for_readelf/libelf0_8_13_32bit.so.elf',
    'test/testfiles_for_readelf/loongarch64-relocs.o.elf',
    'test/testfiles_for_readelf/penalty_32_gcc.o.elf',
    'test/testfiles_for_readelf/powerpc64-relocs-le.o.elf',
    'test/testfiles_for_readelf/s390x-relocs.o.elf',
    'test/testfiles_for_readelf/simple_mips_gcc.o.elf',
    'test/testfiles_for_readelf/tls64.elf',
    'test/testfiles_for_readelf/update32.o.elf',
    'test/testfiles_for_unittests/aarch64_be_gnu_hash.so.elf',
    'test/testfiles_for_unittests/android_dyntags.elf',
    'test/testfiles_for_unittests/arm_with_form_indirect.elf',
    'test/testfiles_for_unittests/debug_info.elf',
    'test/testfiles_for_unittests/dwarf_llpair.elf',
    'test/testfiles_for_unittests/dwarf_phantombytes.elf',
    'test/testfiles_for_unittests/exe_solaris64_cc.elf',
    'test/testfiles_for_unittests/lambda.elf',
    'test/testfiles_for_unittests/note_tc3xxx_blinky.elf',
]
SMALL = 1 << 30
Z8 = [0] * 8


def _d8(v):
    return list((v & 0xffffffffffffffff).to_bytes(8, 'little'))


def _targ(a):
    if isinstance(a, int):
        return {'n': a} if -SMALL < a < SMALL else {'d': _d8(a)}
    return {'b': list(a)}


def _event(**kw):
    """every event carries every field with one type (TLC compares values of one type only)"""
    ev = {'ev': '', 'tid': 0, 'sk': '', 'size': 0, 'kind': '', 'off': 0, 'len': 0, 'is64': False, 'idf': Z8,
          'cieoff': 0, 'caf': 0, 'daf': 0, 'pc': Z8, 'opc': 0, 'args': [], 'rows': [], 'exc': False, 'big': False}
    ev.update(kw)
    return ev


def _trow(line):
    """a table line as the trace spec reads it; None when a number does not fit a TLC integer"""
    pc, cfa, rules = _lib_row(line)
    nums = [cfa[1], cfa[2]] + [x for r in rules for x in (r[0], r[2])]
    if any(not (isinstance(x, int) and -SMALL < x < SMALL) for x in nums) or not 0 <= pc < (1 << 64):
        return None
    return {'pc': _d8(pc), 'cfa': cfa, 'rules': rules}


def record_file(path, rel, tid0):
    """-> (events, index tid -> description, notes).  Only public attributes of the entries are read."""
    from elftools.elf.elffile import ELFFile
    events, index, notes = [], {}, []
    tid = tid0
    with open(path, 'rb') as fh:
        if fh.read(4) != b'\x7fELF':
            return events, index, notes
        fh.seek(0)
        try:
            elf = ELFFile(fh)
            di = elf.get_dwarf_info()
        except Exception as ex:      # noqa: corrupt fixtures are other properties' business
            notes.append('%s: not opened (%s)' % (rel, type(ex).__name__))
            return events, index, notes
        for sk, has, get, sec in (('eh', di.has_EH_CFI, di.EH_CFI_entries, di.eh_frame_sec),
                                  ('debug', di.has_CFI, di.CFI_entries, di.debug_frame_sec)):
            if not has():
                continue
            try:
                ents = get()
            except Exception as ex:  # noqa
                notes.append('%s %s: section not parsed (%s: %s)' % (rel, sk, type(ex).__name__, str(ex)[:60]))
                continue
            tid += 1
            index[tid] = '%s %s' % (rel, sk)
            events.append(_event(ev='sec', tid=tid, sk=sk, size=sec.size))
            traces = []
            for e in ents:
                tid += 1
                k = _kind(e)
                index[tid] = '%s %s %s@%#x' % (rel, sk, k, e.offset)
                if k == 'ZERO':
                    events.append(_event(ev='entry', tid=tid, kind=k, off=e.offset))
                    continue
                h = e.header
                is64 = e.structs.dwarf_format == 64
                if k == 'CIE':
                    events.append(_event(ev='entry', tid=tid, kind=k, off=e.offset, len=h['length'], is64=is64,
                                         idf=_d8(h['CIE_id'])))
                else:
                    events.append(_event(ev='entry', tid=tid, kind=k, off=e.offset, len=h['length'], is64=is64,
                                         idf=_d8(h['CIE_pointer']), cieoff=e.cie.offset))
                traces.append((0 if k == 'CIE' else 1, tid, e))
            tid += 1
            index[tid] = '%s %s end' % (rel, sk)
            events.append(_event(ev='endsec', tid=tid, size=sec.size))
            for _, t, e in sorted(traces, key=lambda x: (x[0], x[1])):
                h = e.header
                if _kind(e) == 'CIE':
                    events.append(_event(ev='begin', tid=t, kind='CIE', off=e.offset, caf=h['code_alignment_factor'],
                                         daf=h['data_alignment_factor']))
                else:
                    events.append(_event(ev='begin', tid=t, kind='FDE', off=e.offset, cieoff=e.cie.offset,
                                         pc=_d8(h['initial_location'])))
                for ins in e.instructions:
                    events.append(_event(ev='instr', tid=t, opc=ins.opcode, args=[_targ(a) for a in ins.args]))
                try:
                    rows = [_trow(l) for l in e.get_decoded().table]
                    exc = False
                except Exception:    # noqa
                    rows, exc = [], True
                big = any(r is None for r in rows)
                events.append(_event(ev='end', tid=t, rows=[] if big else rows, exc=exc, big=big))
    return events, index, notes


def corpus_files(quick):
    if quick:
        return [f for f in QUICK_FILES if os.path.isfile(os.path.join(core.REPO, f))]
    out = []
    for d in CORPUS_DIRS:
        for p in sorted(glob.glob(os.path.join(core.REPO, d, '*'))):
            if os.path.isfile(p):
                out.append(os.path.relpath(p, core.REPO))
    return out


def check_traces(run, quick):
    events, index, notes = [], {}, []
    nfiles = 0
    for rel in corpus_files(quick):
        ev, ix, nt = record_file(os.path.join(core.REPO, rel), rel, len(index) + len(events))
        if ev:
            nfiles += 1
        events += ev
        index.update(ix)
        notes += nt
    run.notes += notes
    if not events:
        raise core.MachineryError('no CFI traces recorded from the corpus')
    trace = run.trace_file('cfi', events)
    res = run.tlc('CFITrace', 'CFITrace', env=dict(JAVA_ENV, TRACE=trace), workers=1)
    verdicts = list(run.cases(res.out))
    if len(verdicts) != 1:
        raise core.MachineryError('CFITrace wrote %d verdicts\n%s' % (len(verdicts), res.stdout[-2000:]))
    v = verdicts[0]
    st = v['stats']
    ntr = sum(1 for e in events if e['ev'] == 'begin')
    if st['traces'] != ntr or st['entries'] != sum(1 for e in events if e['ev'] == 'entry'):
        raise core.MachineryError('trace not consumed: %r vs %d traces' % (st, ntr))
    dead = set()
    for tid, l, why in sorted(v['bad']):
        clause, _, tag = why.partition(':')
        dead.add(tid)
        # table.* reasons are the clauses of binding G (one signature per deviation); scan.* are corpus-only
        run.mismatch(clause if clause.startswith('table.') else 'corpus.' + clause, tag or 'ok',
                     {'corpus_entry': index.get(tid, tid), 'event': l, 'at': events[l - 1]['ev']},
                     'spec/trace/CFITrace.tla: ' + why, {'rows': events[l - 1]['rows'][:6]})
    skipped = {}
    for tid, l, why in v['skipped']:
        dead.add(tid)
        skipped[why] = skipped.get(why, 0) + 1
    for e in events:
        if e['ev'] == 'begin':
            run.count('T:%s' % index[e['tid']], nontrivial=True)
    traced = set(e['tid'] for e in events if e['ev'] == 'begin')
    run.validated += len(traced - dead)
    run.extra['corpus'] = {'files_with_cfi': nfiles, 'events': len(events), 'traces': ntr, 'entries': st['entries'],
                           'instructions_interpreted': st['instrs'], 'rows_compared': st['rows'],
                           'skipped_by_reason': skipped, 'failed_events': len(v['bad'])}
    if len(run.samples) < 4:
        b = next((i for i, e in enumerate(events) if e['ev'] == 'begin' and e['kind'] == 'FDE'), 0)
        run.samples.append({'trace': index.get(events[b]['tid']), 'events': events[b:b + 4]})


def replay(run, path):
    """./check C06 --replay replays/C06/<file>.json : show what the library does with the first recorded case"""
    import json
    import traceback
    rec = json.load(open(path))
    case = rec['first']['case']
    print('clause=%s tag=%s count=%s' % (rec['clause'], rec['tag'], rec['count']))
    print('expected:', json.dumps(rec['first']['expected'])[:2000])
    if 'bytes' not in case:
        print('corpus case:', case)
        print('observed:', json.dumps(rec['first']['observed'])[:2000])
        run.cleanup()
        return 0
    data = base64.b64decode(case['bytes'])
    print('section: %s, %s-endian, address size %d, address %#x, %d bytes: %s'
          % (case['sk'], 'little' if case['le'] else 'big', case['asz'], case['addr'], len(data), data.hex()))
    try:
        for e in _entries_direct(case, data):
            print(_project(e))
            if _kind(e) != 'ZERO':
                print('   table:', _lib_table(e))
    except Exception:                # noqa
        traceback.print_exc()
    run.cleanup()
    return 0


def check(run):
    quick = run.tier == 'quick'
    if quick:
        cfgs = [('CFI_scan_quick', None, None), ('CFI_scanz_quick', None, None), ('CFI_pers_quick', None, None),
                ('CFI_prog1_quick', None, None),
                ('CFI_prog3_quick', None, None), ('CFI_sim', 1500, 31)]
    else:
        cfgs = [('CFI_scan_thorough', None, None), ('CFI_scanz_thorough', None, None), ('CFI_pers_thorough', None, None),
                ('CFI_prog1_quick', None, None),
                ('CFI_prog2_thorough', None, None),
                ('CFI_prog4_thorough', None, None), ('CFI_sim_thorough', 5000, 61)]
    counters = {}
    per_cfg = {}
    pool = multiprocessing.Pool(core.NPROC) if core.NPROC > 1 else None
    try:
        for cfg, sim, depth in cfgs:
            res = run.tlc('CFI', cfg, env=JAVA_ENV, simulate=sim, depth=depth, workers=(1 if sim else None))
            per_cfg[cfg] = _replay_file(run, res.out, pool, counters)
            os.unlink(res.out)
    finally:
        if pool:
            pool.close()
            pool.join()
    check_traces(run, quick)
    run.extra['cases_by_cfg'] = per_cfg
    run.extra['mismatches_by_signature'] = counters
    run.rule = ('G: one case per section emitted by spec/CFI.tla (reachable complete, well-formed states; sim: one per '
                'random 30-instruction program), distinct by (kind, byte order, address size, section address, bytes); '
                'non-trivial = the section has an FDE or a non-empty instruction list.  T: one case per CIE/FDE of the '
                'corpus files (distinct by file, section, offset), all non-trivial')
    run.assumptions += [
        'G operands and alignment factors stay below 2^21 (TLC integers are 32-bit); LEB128 range is C16\'s business',
        'locations never wrap, encoded FDE pointers stay inside [0, 2^(8*address size)), no null raw value under pcrel',
        'personality pointer: compared only under an absolute encoding; a value outside [0, 2^(8*address size)) (negative '
        'signed value, 8-byte value on a 4-byte target) may be reported as the number the DW_EH_PE format denotes or as the '
        'address it designates (CFI!PersDen)',
        'CIE v4 address_size equals the address size handed to CallFrameInfo; segment_size = 0',
        'DW_CFA_set_loc in .eh_frame only under an absptr FDE encoding',
        'records after an .eh_frame terminator: a reader may report all records or stop after the first terminator '
        '(LSB 10.6.1 vs 10.6.1.1, see spec/CFI.tla); whatever is reported is compared field by field',
        'T: corpus sections the library cannot parse are listed in notes, not judged',
        'denote(): digit strings -> int is trusted']
    run.extra['exhaustive'] = False
