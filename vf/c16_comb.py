"""C16, second part - composition of decoders.  Spec: spec/Combinators.tla.

G: every state of the Combinators writer is one (expression, input) pair: the expression is a term of the
combinator language (Struct / Embed / Rename / Array / PrefixedArray / RepeatUntilExcluding / Switch / If /
IfThenElse / Enum / Value / Padding / StreamOffset / String / Field / StaticField / BitStruct over the
primitive leaves), the input a byte string.  The spec's reader machine says what parse_stream must return
from offset 0: value and bytes consumed, or which failure.  This driver builds the construct object of the
tree under test for the expression (nothing else is decided here), parses, and compares value,
stream.tell() and the exception class (a ConstructError - what struct_parse turns into the library's
parse error)."""
import io

from . import core

GROUPS_NOTE = 'leaf/wrap/wrapint/seq/ctx/nest/rue/emb/bits'


class _Missing(Exception):
    """A combinator the expression needs does not exist in the tree under test."""


def _leb_val(g, signed):
    n = 0
    for i, x in enumerate(g):
        n |= x << (7 * i)
    if signed and g and g[-1] & 0x40:
        n -= 1 << (7 * len(g))
    return n


def _want(v):
    """Spec value -> the Python value it denotes."""
    if 'n' in v:
        return v['n']
    if 'd' in v:
        return core.denote(v)
    if 'g' in v:
        return _leb_val(v['g'], v['s'])
    if 'b' in v:
        return bytes(v['b'])
    if 'z' in v:
        return None
    if 'e' in v:
        return v['e']
    if 'l' in v:
        return [_want(x) for x in v['l']]
    if 'f' in v:
        return {nm: _want(x) for nm, x in v['f']}
    raise core.MachineryError('unknown spec value %r' % (v,))


def _got(o, depth=0):
    """Parsed object -> plain data (Container -> dict, ListContainer -> list)."""
    from elftools.construct.lib.container import Container
    if depth > 20:
        return '<too deep>'
    if isinstance(o, Container):
        return {str(k): _got(v, depth + 1) for k, v in o.items()}
    if isinstance(o, dict):
        return {str(k): _got(v, depth + 1) for k, v in o.items()}
    if isinstance(o, (list, tuple)):
        return [_got(x, depth + 1) for x in o]
    if isinstance(o, (bytes, bytearray)):
        return bytes(o)
    if o is None or isinstance(o, (int, str)):
        return o
    return '<%s>' % type(o).__name__


def _show(o):
    """JSON-able rendering that keeps bytes apart from lists."""
    if isinstance(o, bytes):
        return {'bytes': list(o)}
    if isinstance(o, dict):
        return {k: _show(v) for k, v in o.items()}
    if isinstance(o, list):
        return [_show(x) for x in o]
    return o


class _Vocab:
    """The combinators of the tree under test, looked up once; a missing one only matters to expressions that use it."""

    def __init__(self):
        self.missing = set()
        self._c = {}
        try:
            import elftools.construct as C
        except Exception as ex:      # the package itself must be there
            raise core.MachineryError('elftools.construct cannot be imported: %r' % (ex,))
        try:
            import elftools.common.construct_utils as U
        except Exception as ex:
            raise core.MachineryError('elftools.common.construct_utils cannot be imported: %r' % (ex,))
        self.C, self.U = C, U

    def get(self, name):
        if name in self._c:
            return self._c[name]
        for mod in (self.C, self.U):
            try:
                v = getattr(mod, name)
            except AttributeError:
                continue
            self._c[name] = v
            return v
        self.missing.add(name)
        raise _Missing(name)


def _ref(r):
    up, nm = r['up'], r['nm']

    def f(ctx):
        for _ in range(up):
            ctx = ctx['_']
        return ctx[nm]
    return f


def _ctx_pred(p):
    get, op = _ref(p['r']), p['op']
    if op == 'truthy':
        return lambda ctx: bool(get(ctx))
    v = _want(p['v'])
    if op == 'eq':
        return lambda ctx: get(ctx) == v
    if op == 'ge':
        return lambda ctx: get(ctx) >= v
    raise core.MachineryError('unknown predicate %r' % (p,))


def _elem_pred(p):
    f, op = p['f'], p['op']
    sel = (lambda obj: obj) if f == '' else (lambda obj: obj[f])
    if op == 'falsy':
        return lambda obj, ctx: not sel(obj)
    v = _want(p['v'])
    if op == 'eq':
        return lambda obj, ctx: sel(obj) == v
    raise core.MachineryError('unknown element predicate %r' % (p,))


_INTS = {(1, True, False): 'ULInt8', (1, True, True): 'SLInt8', (1, False, False): 'UBInt8', (1, False, True): 'SBInt8',
         (2, True, False): 'ULInt16', (2, True, True): 'SLInt16', (2, False, False): 'UBInt16', (2, False, True): 'SBInt16',
         (4, True, False): 'ULInt32', (4, True, True): 'SLInt32', (4, False, False): 'UBInt32', (4, False, True): 'SBInt32',
         (8, True, False): 'ULInt64', (8, True, True): 'SLInt64', (8, False, False): 'UBInt64', (8, False, True): 'SBInt64'}


def _build(V, c):
    """The construct object for the abstract expression c (JSON of the spec's AST)."""
    k = c['k']
    nm = c.get('nm') or None          # "" in the spec = no name
    if k == 'int':
        return V.get(_INTS[(c['w'], c['le'], c['sg'])])(nm)
    if k == 'int24':
        return V.get('ULInt24' if c['le'] else 'UBInt24')(nm)
    if k == 'uleb':
        return V.get('ULEB128')(nm)
    if k == 'sleb':
        return V.get('SLEB128')(nm)
    if k == 'cstr':
        return V.get('CString')(nm)
    if k == 'bytes':
        return V.get('Field')(nm, c['n'])
    if k == 'sfield':
        return V.get('StaticField')(nm, c['n'])
    if k == 'str':
        return V.get('String')(nm, c['n'])
    if k == 'bytesref':
        return V.get('Field')(nm, _ref(c['r']))
    if k in ('pad', 'bitpad'):
        return V.get('Padding')(c['n'])
    if k == 'padref':
        return V.get('Padding')(_ref(c['r']))
    if k == 'offset':
        return V.get('StreamOffset')(nm)
    if k == 'value':
        a, b = _ref(c['r1']), _ref(c['r2'])
        fn = {'copy': lambda ctx: a(ctx), 'sum': lambda ctx: a(ctx) + b(ctx), 'diff': lambda ctx: a(ctx) - b(ctx)}[c['fn']]
        return V.get('Value')(nm, fn)
    if k == 'pass':
        return V.get('Pass')
    if k == 'struct':
        # pyelftools names its embedded structs '' - the name of an embedded struct is never used
        return V.get('Struct')(nm if nm is not None else '', *[_build(V, f) for f in c['fs']])
    if k == 'embed':
        return V.get('Embed')(_build(V, c['c']))
    if k == 'rename':
        return V.get('Rename')(nm, _build(V, c['c']))
    if k == 'array':
        return V.get('Array')(c['n'], _build(V, c['c']))
    if k == 'arrayref':
        return V.get('Array')(_ref(c['r']), _build(V, c['c']))
    if k == 'parray':
        return V.get('PrefixedArray')(_build(V, c['c']), _build(V, c['lc']))
    if k == 'rue':
        return V.get('RepeatUntilExcluding')(_elem_pred(c['p']), _build(V, c['c']))
    if k == 'switch':
        cases = {_want(key): _build(V, sub) for key, sub in c['cs']}
        if c['d']:
            return V.get('Switch')(nm if nm is not None else '', _ref(c['r']), cases, default=_build(V, c['d'][0]))
        return V.get('Switch')(nm if nm is not None else '', _ref(c['r']), cases)
    if k == 'if':
        return V.get('If')(_ctx_pred(c['p']), _build(V, c['c']))
    if k == 'ifelse':
        return V.get('IfThenElse')(nm if nm is not None else '', _ctx_pred(c['p']), _build(V, c['a']), _build(V, c['b']))
    if k == 'enum':
        kw = {name: num for num, name in c['m']}
        if c['d'] == 'pass':
            kw['_default_'] = V.get('Pass')
        return V.get('Enum')(_build(V, c['c']), **kw)
    if k == 'bitstruct':
        return V.get('BitStruct')(nm, *[_build(V, f) for f in c['fs']])
    if k == 'bits':
        return V.get('BitField')(nm, c['n'])
    raise core.MachineryError('unknown combinator kind %r' % (k,))


_FAIL_CLAUSE = {'trunc': 'comb.truncated', 'nomap': 'comb.unmapped', 'nocase': 'comb.nocase'}


def check(run):
    V = _Vocab()
    ConstructError = V.C.ConstructError
    cfg = 'Combinators_quick' if run.tier == 'quick' else 'Combinators_thorough'
    res = run.tlc('Combinators', cfg)

    # first pass: the catalogue (one "x" line per expression), then the cases
    exprs, skipped, broken = {}, {}, {}
    for rec in run.cases(res.out):
        if rec[0] != 'x':
            continue
        _, eid, group, cls, ast = rec
        tag = '%s/%s' % (group, cls)
        try:
            with core.guard(5):
                exprs[eid] = (tag, _build(V, ast), ast)
        except _Missing as ex:
            skipped[eid] = str(ex)
        except core.CallTimeout:
            broken[eid] = tag
            run.mismatch('comb.build', tag, {'expr': ast}, 'a construct object', 'no answer')
        except Exception as ex:          # building a well-formed expression from existing combinators must work
            broken[eid] = tag
            run.mismatch('comb.build', tag, {'expr': ast}, 'a construct object', 'exc:%s' % type(ex).__name__)
    if not exprs and not broken:
        raise core.MachineryError('Combinators emitted no catalogue')

    by_tag, nontriv, ncases, nskip = {}, 0, 0, 0
    for rec in run.cases(res.out):
        if rec[0] != 'c':
            continue
        _, eid, inp, why, used, val = rec
        if eid not in exprs:
            nskip += 1
            continue
        tag, con, ast = exprs[eid]
        data = bytes(inp)
        st = io.BytesIO(data)
        try:
            with core.guard(5):
                v = con.parse_stream(st)
                got = ('ok', _got(v), st.tell())
        except ConstructError:
            got = ('error', None, None)
        except core.CallTimeout:
            got = ('timeout', None, None)
        except Exception as ex:          # anything else is not the library's parse error
            got = ('exc:' + type(ex).__name__, None, None)
        ncases += 1
        run.evaluations += 1
        by_tag[tag] = by_tag.get(tag, 0) + 1
        case = {'expr': ast, 'input': inp}
        if why == '':
            want = ('ok', _want(val), used)
            nontriv += 1
            if got[0] != 'ok':
                run.mismatch('comb.parse', tag, case, _show(list(want)), _show(list(got)))
            elif got[2] != want[2]:
                run.mismatch('comb.consumed', tag, case, _show(list(want)), _show(list(got)))
            elif got[1] != want[1]:
                run.mismatch('comb.value', tag, case, _show(list(want)), _show(list(got)))
            elif len(data) >= 3 and ncases % 4999 == 0:
                smp = {'expr': ast, 'input': inp, 'expect': {'value': val, 'consumed': used}}
                if len(run.samples) < 4:
                    run.samples.append(smp)
                run.extra.setdefault('comb_samples', [])
                if len(run.extra['comb_samples']) < 3:
                    run.extra['comb_samples'].append(smp)
        else:
            if got[0] != 'error':
                run.mismatch(_FAIL_CLAUSE[why], tag, case, ['error', why], _show(list(got)))
    if ncases == 0 and not broken:
        raise core.MachineryError('Combinators emitted no case for the combinators of this tree')

    run.nontrivial |= set('comb%d' % i for i in range(nontriv))
    run.validated += ncases
    run.rule += ('; combinators: cases = reachable states of spec/Combinators.tla (one (expression, input) pair each; every '
                 'prefix and extension of an input is a state too); non-trivial = the spec expects a successful parse')
    run.assumptions += ['combinators: catalogue of %d expressions (%s), inputs over the letters of the cfg'
                        % (len(exprs) + len(skipped) + len(broken), GROUPS_NOTE),
                        '_want(): spec value -> Python value (ints, bytes, None, list, dict, enum name) is trusted (20 lines)']
    run.extra['comb_cases_by_class'] = by_tag
    run.extra['comb_expressions'] = len(exprs)
    if skipped:
        run.extra['comb_skipped_expressions'] = len(skipped)
        run.notes.append('combinators not present in this tree (expressions using them skipped, %d cases): %s'
                         % (nskip, ', '.join(sorted(V.missing))))
