"""C17 - symbolic names and numeric codes follow the registries.

Spec: spec/Registry.tla + vendored spec/RegistryData.tla (glibc elf.h, LLVM BinaryFormat).
T-shaped and degenerate (no state, TLC is an evaluator): the driver dumps every exported
(table, name, value) pair of the tree under test as a trace; spec/trace/RegistryTrace.tla
requires Reg[name] = value for every name the registry defines."""
import importlib
import json
import re

from . import core

LEVEL = 'other'


def _pairs():
    ev = []
    enums = importlib.import_module('elftools.elf.enums')
    for tab in sorted(dir(enums)):
        d = getattr(enums, tab)
        if tab.startswith('ENUM') and isinstance(d, dict):
            for k, v in d.items():
                if isinstance(k, str) and isinstance(v, int) and not isinstance(v, bool) and k != '_default_':
                    ev.append(('elf.enums.' + tab, k, v, 'fwd'))
    consts = importlib.import_module('elftools.elf.constants')
    for cname in sorted(dir(consts)):
        c = getattr(consts, cname)
        if isinstance(c, type):
            for k in sorted(vars(c)):
                v = getattr(c, k)
                if k.isupper() and isinstance(v, int) and not isinstance(v, bool):
                    ev.append(('elf.constants.' + cname, k, v, 'fwd'))
    denums = importlib.import_module('elftools.dwarf.enums')
    for tab in sorted(dir(denums)):
        d = getattr(denums, tab)
        if tab.startswith('ENUM_DW') and isinstance(d, dict):
            for k, v in d.items():
                if isinstance(k, str) and isinstance(v, int) and k != '_default_':
                    ev.append(('dwarf.enums.' + tab, k, v, 'fwd'))
    for v, k in getattr(denums, 'DW_FORM_raw2name', {}).items():
        ev.append(('dwarf.enums.DW_FORM_raw2name', k, v, 'rev'))
    dconsts = importlib.import_module('elftools.dwarf.constants')
    for k in sorted(dir(dconsts)):
        v = getattr(dconsts, k)
        if k.startswith('DW_') and isinstance(v, int) and not isinstance(v, bool):
            ev.append(('dwarf.constants', k, v, 'fwd'))
    dexpr = importlib.import_module('elftools.dwarf.dwarf_expr')
    for k, v in dexpr.DW_OP_name2opcode.items():
        ev.append(('dwarf.dwarf_expr.DW_OP_name2opcode', k, v, 'fwd'))
    for v, k in dexpr.DW_OP_opcode2name.items():
        ev.append(('dwarf.dwarf_expr.DW_OP_opcode2name', k, v, 'rev'))
    cf = importlib.import_module('elftools.dwarf.callframe')
    for v, k in cf._OPCODE_NAME_MAP.items():
        ev.append(('dwarf.callframe._OPCODE_NAME_MAP', k, v, 'rev'))
    return [e for e in ev if isinstance(e[2], int) and not isinstance(e[2], bool) and isinstance(e[1], str)
            and e[1] != '_default_']


def _decodes():
    """What the library REPORTS for a code found in a file: every code of every ENUM table pushed through the library's own
    Enum adapter (the construct the struct sets are built from).  (table, reported name, code, all names the table has for the code)"""
    import importlib
    from elftools.construct import Enum, ULInt64
    out = []
    for modname in ('elftools.elf.enums', 'elftools.dwarf.enums'):
        mod = importlib.import_module(modname)
        for tab in sorted(dir(mod)):
            d = getattr(mod, tab)
            if not (tab.startswith('ENUM_') and isinstance(d, dict)) or tab == 'ENUM_D_TAG':
                continue            # ENUM_D_TAG merges every machine / OS overlay (name -> value use only); files are decoded with per-file tables (C09)
            pairs = {k: v for k, v in d.items() if isinstance(k, str) and k != '_default_' and isinstance(v, int) and not isinstance(v, bool) and 0 <= v < 2 ** 64}
            if not pairs:
                continue
            try:
                dec = Enum(ULInt64('x'), **dict(d))
            except Exception:
                continue
            bycode = {}
            for k, v in pairs.items():
                bycode.setdefault(v, []).append(k)
            for code, names in sorted(bycode.items()):
                got = dec.parse(code.to_bytes(8, 'little'))
                out.append((modname.split('.', 1)[1] + '.' + tab, got if isinstance(got, str) else '#%r' % (got,), code, sorted(names)))
    return out


# Library names that are spelled differently from the registry's name for the same constant.
# (vocabulary mapping only: the value always comes from the registry.)
def _registry_name(table, name):
    return name


def _family(table):
    """The registry family (RegByCode key) of a reverse (code -> name) table."""
    return {'dwarf.callframe._OPCODE_NAME_MAP': 'DW_CFA_BASE', 'dwarf.dwarf_expr.DW_OP_opcode2name': 'DW_OP_BASE',
            'dwarf.enums.DW_FORM_raw2name': 'DW_FORM_BASE'}.get(table, '')


def _digs(v):
    v &= 0xffffffffffffffff
    return list(v.to_bytes(max(1, (v.bit_length() + 7) // 8), 'little'))


def _undigs(d):
    return int.from_bytes(bytes(d), 'little')


def check(run):
    pairs = _pairs()
    events = [{'table': t, 'name': _registry_name(t, n), 'value': _digs(v), 'kind': k, 'family': _family(t), 'aliases': []} for t, n, v, k in pairs]
    decs = _decodes()
    events += [{'table': t, 'name': n, 'value': _digs(v), 'kind': 'dec', 'family': '', 'aliases': al} for t, n, v, al in decs]
    run.extra['decode_events'] = len(decs)
    run.extra['decode_events_aliased'] = sum(1 for d in decs if len(d[3]) > 1)
    trace = run.trace_file('registry', events)
    res = run.tlc('RegistryTrace', 'RegistryTrace', env={'TRACE': trace}, workers=1)
    verdicts = list(run.cases(res.out))
    if len(verdicts) != 1:
        raise core.MachineryError('RegistryTrace wrote %d verdicts\n%s' % (len(verdicts), res.stdout[-2000:]))
    checked, unknown = verdicts[0]['checked'], verdicts[0]['unknown']
    bad = [(b[0], b[1], tuple(b[2]), tuple(b[3]), b[4]) for b in verdicts[0]['bad']]
    if checked + unknown != len(events):
        raise core.MachineryError('trace not consumed: %d + %d != %d' % (checked, unknown, len(events)))
    run.evaluations = len(events)
    reg = json.load(open(core.VERIF + '/tools/registry.json'))
    regn = reg['names']
    run.nontrivial = set((t, n) for t, n, v, k in pairs if n in regn)
    run.validated = checked
    for table, name, value, want, kind in sorted(set(bad)):
        run.mismatch('registry.' + kind, name, {'table': table, 'name': name}, _undigs(want), _undigs(value))
    run.samples = [{'table': t, 'name': n, 'value': v, 'registry': regn.get(n, [None])[0]} for t, n, v, k in pairs[::401]][:4]
    run.rule = ('one case per exported (table, name, value) pair of elf/enums.py, elf/constants.py, dwarf/enums.py, '
                'dwarf/constants.py, DW_OP tables and the CFA opcode map; non-trivial = the name is defined by the vendored '
                'registry (glibc elf.h / LLVM BinaryFormat) and unambiguous there; distinct by (table, name)')
    run.extra['explanation'] = ('Exhaustive table conformance: %d exported pairs, %d asserted against the vendored registry, '
                                '%d names unknown to the registry or ambiguous between its sources (not asserted). '
                                'TLC evaluates Reg[name] = value for each recorded pair (spec/trace/RegistryTrace.tla); '
                                'there is no state space here and none is claimed.' % (len(events), checked, unknown))
    run.extra['unchecked_vocabulary'] = unknown
    run.extra['exhaustive'] = True
    run.assumptions += ['glibc /usr/include/elf.h and LLVM 14 BinaryFormat headers are the registries (vendored in '
                        'spec/RegistryData.tla); names the two disagree on are excluded',
                        'names the registry does not define are not asserted']
