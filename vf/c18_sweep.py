"""The description sweep of C18: vocabulary (names only) from the clone's description tables ->
spec/Envelope.tla (codes from the registry, images from Elf!Image) -> files on disk."""
import json
import os

from . import core
from .elfutil import concretise


def vocabulary():
    from elftools.elf import descriptions as D
    from elftools.elf import enums as E

    def keys(d):
        return sorted(k for k in d if isinstance(k, str))
    from elftools.dwarf import descriptions as DD
    from elftools.dwarf import enums as DE
    # DWARF: <<attribute code (DWARF5 table 7.5), value>> for every value the clone describes, and every tag code it names
    dwvals = []
    for at, tab in ((0x13, DD._DESCR_DW_LANG), (0x3e, DD._DESCR_DW_ATE), (0x20, DD._DESCR_DW_INL), (0x32, DD._DESCR_DW_ACCESS),
                    (0x17, DD._DESCR_DW_VIS), (0x4c, DD._DESCR_DW_VIRTUALITY), (0x42, DD._DESCR_DW_ID_CASE), (0x36, DD._DESCR_DW_CC),
                    (0x09, DD._DESCR_DW_ORD)):
        dwvals += [[at, int(k)] for k in sorted(tab) if isinstance(k, int) and 0 <= k < 65536]
    dwtags = sorted(v for k, v in DE.ENUM_DW_TAG.items() if isinstance(v, int) and 0 < v < 65536 and k != 'DW_TAG_null')
    return {'DWVALS': dwvals, 'DWTAGS': dwtags, 'EM': keys(D._DESCR_E_MACHINE), 'OSABI': keys(D._DESCR_EI_OSABI), 'ET': keys(D._DESCR_E_TYPE),
            'SHT': keys(D._DESCR_SH_TYPE), 'PT': keys(D._DESCR_P_TYPE), 'STT': keys(D._DESCR_ST_INFO_TYPE),
            'STB': keys(D._DESCR_ST_INFO_BIND), 'STV': keys(D._DESCR_ST_VISIBILITY), 'SHN': keys(D._DESCR_ST_SHNDX),
            'RELOC_386': keys(E.ENUM_RELOC_TYPE_i386), 'RELOC_X64': keys(E.ENUM_RELOC_TYPE_x64), 'RELOC_ARM': keys(E.ENUM_RELOC_TYPE_ARM),
            'RELOC_AARCH64': keys(E.ENUM_RELOC_TYPE_AARCH64), 'RELOC_PPC64': keys(E.ENUM_RELOC_TYPE_PPC64), 'RELOC_PPC': keys(E.ENUM_RELOC_TYPE_PPC),
            'RELOC_S390': keys(E.ENUM_RELOC_TYPE_S390X), 'RELOC_MIPS': keys(E.ENUM_RELOC_TYPE_MIPS), 'RELOC_LARCH': keys(E.ENUM_RELOC_TYPE_LOONGARCH),
            'DT': sorted(k for k in __import__('elftools.elf.enums', fromlist=['x']).ENUM_D_TAG if isinstance(k, str) and k != '_default_')}


def generate(run, tmpd):
    voc = vocabulary()
    vp = os.path.join(tmpd, 'vocab.json')
    json.dump(voc, open(vp, 'w'))
    res = run.tlc('Envelope', 'Envelope_quick', env={'VOCAB': vp}, workers=1)
    jobs = []
    per = {}
    for i, case in enumerate(run.cases(res.out)):
        data = concretise(case['chunks'])
        name = '%s#%s#%d' % (case['tag'], case['name'], i)
        path = os.path.join(tmpd, 'sweep_%05d.elf' % i)
        with open(path, 'wb') as f:
            f.write(data)
        per[case['tag']] = per.get(case['tag'], 0) + 1
        jobs.append(('sweep', name, case['opt'], path))
    run.extra['sweep_by_table'] = per
    run.extra['sweep_vocabulary_sizes'] = {k: len(v) for k, v in voc.items()}
    return jobs


def geometry_jobs(run, tmpd):
    """Section-to-segment mapping (-l): the geometry grid images of spec/Geometry.tla (C02's generator) inside the envelope
    both tools implement: p_filesz = 0 segments (GNU readelf refuses p_filesz > p_memsz), no .tbss / zero-size-in-PT_DYNAMIC/
    PT_NOTE geometry (outside the clause groups), not PT_INTERP (prints the interpreter), no unnamed processor-specific type."""
    res = run.tlc('Geometry', 'Geometry_quick', workers=min(8, core.NPROC))
    jobs = []
    k = 0
    for i, case in enumerate(run.cases(res.out)):
        if case.get('mode') != 'inseg':
            continue
        if case['fs'] != 0 or any(2 in row for row in case['expect']) or case['t'] == {'n': 3} or 'd' in case['t']:
            continue
        k += 1
        if run.tier == 'quick' and k % 3:
            continue
        path = os.path.join(tmpd, 'geo_%05d.elf' % i)
        with open(path, 'wb') as f:
            f.write(concretise(case['chunks']))
        jobs.append(('sweep', 'mapping#p_type=%s#%d' % (case['t'].get('n'), i), '-l', path))
    run.extra['sweep_by_table']['mapping'] = len(jobs)
    return jobs
