"""C09 - dynamic linking information is exact, with or without section headers.

Spec: spec/Dynamic.tla (abstract dynamic objects, placement in PT_LOAD layouts, two encodings of the same
object - with section headers / stripped -, reader machine, declarative view) over spec/Elf.tla, spec/DynScan.tla
(entry decoding, scan machine, address translation, tag names by machine / OS ABI) and spec/HashWalk.tla.
G: every object the specification emits is concretised twice (WithSections, Stripped) from the chunks the
   specification computed; DynamicSection and DynamicSegment of the first image and DynamicSegment of the second
   are observed (iter_tags / get_tag / num_tags in several consumption patterns, DynamicTag.entry and
   .needed/.soname/.rpath/.runpath, iter_tags(type=), get_table_offset, get_relocation_tables - the tables the array
   names, each with its flavour and entries; DynamicSegment .num_symbols / iter_symbols / get_symbol /
   get_symbol_by_name) and compared with the view AND with each other.  Mode "shdr" varies the relation between the
   SHT_DYNAMIC section header and PT_DYNAMIC (coinciding / disjoint / section stale inside the segment or wider than it with
   sh_link naming another string table / no SHT_DYNAMIC section): the segment views must deliver the DT_STRTAB strings in
   all of them; the section view is observed where the specification says a section describes the array (view.secview).
T: for every corpus file with PT_DYNAMIC the tag scans of the section view, the segment view and of a copy whose
   section header table was removed are validated by spec/trace/DynamicTrace.tla against the scan machine run on
   the raw table bytes; the three views must agree on tags, strings and (where a hash table determines it) the
   symbol count (total verdict)."""
import io
import json
import os

from . import core
from .core import denote
from .elfutil import concretise, vocab, registry

LEVEL = 'model_checking'

CORPUS = ('test/testfiles_for_unittests', 'test/testfiles_for_readelf')
JVM = {'JAVA_TOOL_OPTIONS': '-Xss32m'}

# Corpus files that are deliberately not well-formed in the sense of the property (kept in the traces, their
# disagreement is expected and reported, not judged).
ODD_FIXTURES = {
    'lib_with_two_dynstr_sections_reversed.so.1.elf':
        'crafted for a regression test: two string tables called .dynstr; DT_STRTAB addresses one, the .dynamic '
        "section's sh_link names the other - the section view and the segment view must disagree on the strings",
}

STRING_ATTR = {1: 'needed', 14: 'soname', 15: 'rpath', 29: 'runpath'}     # gABI figure 5-10: DT_NEEDED, DT_SONAME, DT_RPATH, DT_RUNPATH


# ----------------------------------------------------------------------------- names
class _Ctx:
    def __init__(self, tables):
        self.tables = tables
        self.voc = vocab('ENUM_D_TAG*')
        self.known = set(registry()['names']) | set(tables['solaris'])
        self.names = [bytes(n) for n in tables['names']]
        reg = registry()['names']
        self.sym = {}
        for fam, prefix in (('bind', 'STB_'), ('type', 'STT_'), ('shn', 'SHN_')):
            d = {}
            for code, names in tables[fam]:
                d.setdefault(code, set()).update(names)
            for name, val in reg.items():
                if name.startswith(prefix):
                    d.setdefault(int(val[0]), set()).add(name)
            self.sym[fam] = d
        self.symvoc = {'bind': vocab('ENUM_ST_INFO_BIND'), 'type': vocab('ENUM_ST_INFO_TYPE'), 'shn': vocab('ENUM_ST_SHNDX')}

    def verdict(self, obs, code, names, voc=None):
        """The property's naming rule (elfutil.enum_verdict) with the Solaris names the specification adds."""
        voc = self.voc if voc is None else voc
        if isinstance(obs, str):
            if obs in names:
                return True
            return False if obs in self.known else None
        if any(n in voc for n in names):
            return False
        return obs == code

    def symverdict(self, fam, obs, code):
        return self.verdict(obs, code, self.sym[fam].get(code, set()), self.symvoc[fam])


def _utf8(bs):
    try:
        return bytes(bs).decode('utf-8')
    except UnicodeDecodeError:
        return None


# ----------------------------------------------------------------------------- observation of one Dynamic object
def _observe_tags(d, pattern):
    """Tag list of a DynamicSection / DynamicSegment in one consumption pattern."""
    if pattern == 'iter.list':
        return list(d.iter_tags())
    if pattern == 'num.then.get':
        return [d.get_tag(i) for i in range(d.num_tags())]
    if pattern == 'iter.interleaved':
        a, b = d.iter_tags(), d.iter_tags()
        la, lb = [], []
        for x in a:
            la.append(x)
            if len(la) > 1:
                lb.append(next(b))
        lb.extend(b)
        if [(t.entry.d_tag, t.entry.d_val) for t in la] != [(t.entry.d_tag, t.entry.d_val) for t in lb]:
            return la + lb                       # shows up as a length mismatch
        return la
    if pattern == 'iter.after_abandoned':
        for _ in d.iter_tags():
            break
        d.num_tags()
        return list(d.iter_tags())
    raise core.MachineryError(pattern)


def _tag_row(t):
    e = t.entry
    row = {'d_tag': e.d_tag, 'd_val': e.d_val, 'd_ptr': e.d_ptr}
    for a in STRING_ATTR.values():
        if hasattr(t, a):
            row[a] = getattr(t, a)
    return row


def _cmp_tags(ctx, bad, label, pattern, vtags, got):
    if len(got) != len(vtags):
        bad('tags.count', {'entries up to and including DT_NULL': len(vtags)}, {'pattern': pattern, 'entries': len(got)}, label)
        return False
    ok = True
    for i, (vt, t) in enumerate(zip(vtags, got)):
        code, names, val, kind, extra = denote(vt[0]), vt[1], denote(vt[2]), vt[3], vt[4]
        row = _tag_row(t)
        if ctx.verdict(row['d_tag'], code, names) is False:
            bad('tags.d_tag', {'index': i, 'code': code, 'names': sorted(names)}, row['d_tag'], label)
            ok = False
        if row['d_val'] != val or row['d_ptr'] != val:
            bad('tags.d_val', {'index': i, 'd_val': val}, {'d_val': row['d_val'], 'd_ptr': row['d_ptr']}, label)
            ok = False
        if t['d_tag'] != row['d_tag'] or t['d_val'] != row['d_val']:
            bad('tags.getitem', row, {'d_tag': t['d_tag'], 'd_val': t['d_val']}, label)
        if kind == 's':
            attr = STRING_ATTR[code]
            want = _utf8(extra)
            have = row.get(attr, {'missing attribute': attr})
            if want is not None and have != want:
                bad('strings', {'index': i, attr: want}, have, label)
                ok = False
            elif want is None and not isinstance(have, str):
                bad('strings', {'index': i, attr: 'a string for %r' % bytes(extra)}, have, label, tag='non-utf8')
    return ok


def _cmp_relocs(bad, label, d, rels, rtag):
    """get_relocation_tables() against the specification's tables: rows {name, rela, ents: [r_offset, r_info, symbol, type, r_addend]}."""
    names = sorted(r['name'] for r in rels)
    try:
        rt = d.get_relocation_tables()
    except Exception as ex:
        bad('get_relocation_tables', names, 'exc:%s:%s' % (type(ex).__name__, ex), label, tag=rtag)
        return
    if sorted(rt) != names:
        bad('get_relocation_tables', names, sorted(rt), label, tag=rtag)
        return
    for r in rels:
        t = rt[r['name']]
        clause = 'relocation_table.' + r['name']
        try:
            if r['name'] == 'RELR':
                want = [denote(e[0]) for e in r['ents']]
                have = [x['r_offset'] for x in t.iter_relocations()]
                if have != want or t.num_relocations() != len(want):
                    bad(clause, {'r_offset': want}, {'r_offset': have, 'num_relocations': t.num_relocations()}, label, tag=rtag)
                continue
            fields = ('r_offset', 'r_info', 'r_info_sym', 'r_info_type') + (('r_addend',) if r['rela'] else ())
            want = [dict(zip(fields, (denote(e[0]), denote(e[1]), e[2], e[3], denote(e[4])))) for e in r['ents']]
            got = list(t.iter_relocations())
            have = [{k: (x.entry[k] if k in x.entry else 'missing') for k in fields} for x in got]
            flav = {'is_RELA': r['rela'], 'num_relocations': len(want)}
            obs = {'is_RELA': t.is_RELA(), 'num_relocations': t.num_relocations()}
            if obs != flav or have != want or any(x.is_RELA() != r['rela'] for x in got):
                bad(clause, dict(flav, entries=want), dict(obs, entries=have, entry_is_RELA=[x.is_RELA() for x in got]), label, tag=rtag)
            elif [{k: t.get_relocation(i).entry[k] for k in fields} for i in reversed(range(len(want)))][::-1] != want:
                bad(clause, dict(flav, entries=want), 'get_relocation(n) differs from iter_relocations()', label, tag=rtag)
        except Exception as ex:
            bad(clause, {'entries': len(r['ents'])}, 'exc:%s:%s' % (type(ex).__name__, ex), label, tag=rtag)


def _observe_view(ctx, bad, label, fresh, vtags, full, relfree, rels=(), rtag=None):
    """All tag-level observations of one view.  `fresh()` returns a new Dynamic object of the image.  `full`: this view
    takes the object's turn for the costlier patterns (every view gets its turn on every third object)."""
    out = {}
    first = None
    for pattern in ('iter.list', 'num.then.get', 'iter.interleaved', 'iter.after_abandoned') if full else ('iter.list', 'num.then.get'):
        d = fresh()
        try:
            got = _observe_tags(d, pattern)
        except Exception as ex:
            if isinstance(ex, UnicodeDecodeError):
                bad('strings.decode', 'a string in every view (pattern %s)' % pattern, 'exc:UnicodeDecodeError', label, tag='non-utf8')
            else:
                bad('exception.tags', 'tags in pattern %s' % pattern, 'exc:%s:%s' % (type(ex).__name__, ex), label)
            continue
        _cmp_tags(ctx, bad, label, pattern, vtags, got)
        rows = [_tag_row(t) for t in got]
        if first is None:
            first = rows
            # the same object, asked again in other ways
            n = d.num_tags()
            if n != len(vtags):
                bad('num_tags', len(vtags), n, label)
            again = [_tag_row(d.get_tag(i)) for i in range(min(n, len(vtags)))]
            if again != rows[:len(again)]:
                bad('get_tag', rows, again, label)
            # type filter: the first tag, the terminator, every tag that occurs more than once (all tags on a full turn)
            seen = []
            tagsof = [x['d_tag'] for x in rows]
            for k, r in enumerate(rows):
                if r['d_tag'] in seen or not (full or k == 0 or k == len(rows) - 1 or tagsof.count(r['d_tag']) > 1):
                    continue
                seen.append(r['d_tag'])
                want = [x for x in rows if x['d_tag'] == r['d_tag']]
                have = [_tag_row(t) for t in d.iter_tags(type=r['d_tag'])]
                if have != want:
                    bad('iter_tags.type', {'type': r['d_tag'], 'entries': want}, have, label)
            # pointers through the PT_LOAD segments
            done = set()
            for i, vt in enumerate(vtags):
                code = denote(vt[0])
                if vt[3] != 'p' or code in done or i >= len(rows):
                    continue
                done.add(code)
                j = next(k for k, x in enumerate(vtags) if denote(x[0]) == code)
                fj = vtags[j]
                want = [denote(fj[2]), None if fj[4][0] < 0 else fj[4][0]]
                have = list(d.get_table_offset(rows[i]['d_tag']))
                if have != want:
                    bad('get_table_offset', {'tag': rows[i]['d_tag'], 'ptr,offset': want}, have, label)
            if rels or (full and relfree):
                _cmp_relocs(bad, label, d, rels, rtag)
        elif rows != first:
            bad('tags.pattern', {'pattern iter.list': first}, {'pattern ' + pattern: rows}, label)
    out['rows'] = first
    return out


def _sym_row(s):
    e = s.entry
    return {'name': s.name, 'st_name': e['st_name'], 'st_value': e['st_value'], 'st_size': e['st_size'],
            'bind': e['st_info']['bind'], 'type': e['st_info']['type'], 'st_other': {k: str(v) for k, v in e['st_other'].items()},
            'st_shndx': e['st_shndx']}


def _observe_symbols(ctx, bad, label, seg, view, cclass):
    vs = view['syms']
    cnt = view['count']
    n = cnt['n']
    rows = []
    for i, e in enumerate(vs):
        r = _sym_row(seg.get_symbol(i))
        rows.append(r)
        want = _utf8(e[0])
        if r['name'] != want:
            bad('symbol.name', {'index': i, 'name': want}, r['name'], label)
        if r['st_name'] != e[1] or r['st_value'] != denote(e[2]) or r['st_size'] != denote(e[3]):
            bad('symbol.entry', {'index': i, 'st_name': e[1], 'st_value': denote(e[2]), 'st_size': denote(e[3])},
                {k: r[k] for k in ('st_name', 'st_value', 'st_size')}, label)
        if ctx.symverdict('bind', r['bind'], e[4] >> 4) is False or ctx.symverdict('type', r['type'], e[4] & 15) is False:
            bad('symbol.st_info', {'index': i, 'bind': e[4] >> 4, 'type': e[4] & 15}, [r['bind'], r['type']], label)
        if ctx.symverdict('shn', r['st_shndx'], e[6]) is False:
            bad('symbol.st_shndx', {'index': i, 'st_shndx': e[6]}, r['st_shndx'], label)
    if not cnt['det']:
        # the format does not determine the count here: whatever the library answers is only recorded
        try:
            return rows, {'num_symbols (not determined by a hash table)': seg.num_symbols(), 'true': n}
        except Exception as ex:
            return rows, {'num_symbols (not determined by a hash table)': 'exc:' + type(ex).__name__, 'true': n}
    got = seg.num_symbols()
    if got != n:
        bad('num_symbols', {'true count': n, 'hash tables': cclass}, got, label, tag=cclass)
        return rows, None
    listed = [_sym_row(s) for s in seg.iter_symbols()]
    if listed != rows:
        bad('iter_symbols', rows, listed, label)
    a, b = seg.iter_symbols(), seg.iter_symbols()
    next(a, None)
    if [_sym_row(s) for s in b] != rows or [_sym_row(s) for s in a] != rows[1:]:
        bad('iter_symbols.interleaved', rows, 'two interleaved iterators differ', label)
    for k, idxs in enumerate(view['byname']):
        name = _utf8(ctx.names[k])
        if name is None:
            continue
        r = seg.get_symbol_by_name(name)
        want = [rows[i] for i in sorted(idxs)] or None
        have = None if r is None else [_sym_row(s) for s in r]
        if have != want:
            bad('get_symbol_by_name', {'name': name, 'indices': sorted(idxs)}, have, label)
    if seg.get_symbol_by_name('no such symbol') is not None:
        bad('get_symbol_by_name', {'name': 'no such symbol', 'indices': []}, 'a symbol', label)
    return rows, None


# ----------------------------------------------------------------------------- G: one object
class _Sink:
    """What one replay produces (the replays run in forked worker processes; the parent keeps the books)."""

    def __init__(self, index):
        self.index = index
        self.mism = []
        self.sigs = set()
        self.notes = []

    def mismatch(self, clause, tag, case, expected, observed):
        # the full case (both images, the view) travels once per signature and object
        sig = (clause, tag)
        if sig not in self.sigs and len(self.sigs) < 8:
            self.sigs.add(sig)
            self.mism.append((clause, tag, core.jnorm(case), core.jnorm(expected), core.jnorm(observed)))
        else:
            self.mism.append((clause, tag, None, core.jnorm(expected) if len(self.mism) < 40 else None, core.jnorm(observed) if len(self.mism) < 40 else None))


_G = {}


def _work(item):
    index, obj = item
    sink = _Sink(index)
    n = _replay(sink, _G['ctx'], obj, _G['ELFFile'])
    view = obj['B']['view']
    summary = {'object': obj['A']['key'], 'tags': [[denote(t[0]), sorted(t[1]), denote(t[2]), t[3]] for t in view['tags']][:8],
               'count': view['count'], 'symbols': len(view['syms'])}
    return index, n, sink.mism, sink.notes, summary


def _replay(run, ctx, obj, ELFFile):
    A, S, B = obj['A'], obj['S'], obj['B']
    view = B['view']
    key = A['key']
    o = key['b']
    img1 = concretise([A['eh1']] + A['common'] + S['sh'])
    img2 = concretise([A['eh2']] + A['common'])
    ix = A['ix']
    cclass = view['cclass']
    brief = {'key': key, 'with_sections_b64': core.b64(img1), 'stripped_b64': core.b64(img2), 'ix': ix, 'spec_view': view}
    base = '%s/%s' % (o['mode'], o['variant'])

    def bad(clause, expected, observed, label, tag=None):
        # tag: a class of the case computed by the specification (hash-table class, non-UTF-8 string) or view/mode/variant
        run.mismatch(clause, tag or '%s/%s' % (label, base), dict(brief, view=label), expected, observed)

    def opener(img, how):
        # one ELFFile per image; every call makes a new DynamicSection / DynamicSegment object (none of their lazily
        # determined state is shared), the file-level caches are shared on purpose
        box = []

        def fresh():
            if not box:
                box.append(ELFFile(io.BytesIO(img)))
            if how == 'section':
                return box[0].get_section(ix['dyn'])
            return box[0].get_segment(ix['pdyn'])
        return fresh

    turn = run.index % 3
    rs = o.get('rels')
    rtag = None
    if rs and view.get('rels'):
        # the class of the object in the DT_PLTREL x present-tables dimension (computed by the specification: key.b.rels)
        rtag = 'pltrel=%s/tables=%s' % (rs['plt'], '+'.join(k for k in ('rel', 'rela', 'relr') if rs[k]) or 'none')
    views = (('section', opener(img1, 'section'), 'DynamicSection'), ('segment', opener(img1, 'segment'), 'DynamicSegment'),
             ('stripped', opener(img2, 'segment'), 'DynamicSegment'))
    # view.secview (computed by the specification): a SHT_DYNAMIC section describes the array.  Where it is FALSE (the section
    # header is stale / wider than the segment / absent) the section view is not asserted; both segment views are.
    secview = view.get('secview', True)
    obs = {}
    for vi, (label, fresh, cls) in enumerate(views):
        if label == 'section' and not secview:
            continue
        try:
            with core.guard(20):
                d = fresh()
                if type(d).__name__ != cls:
                    bad('front-end', cls, type(d).__name__, label)
                    continue
                if label == 'stripped' and d.elffile.num_sections() != 0:
                    bad('front-end', 'no sections', d.elffile.num_sections(), label)
                obs[label] = _observe_view(ctx, bad, label, fresh, view['tags'], vi == turn or (vi == 1 and not secview and turn == 0),
                                           view['relfree'], view.get('rels', ()), rtag)
                if label != 'section':
                    obs[label]['syms'], note = _observe_symbols(ctx, bad, label, fresh(), view, cclass)
                    if note and cclass.startswith('gnu-empty'):
                        run.notes.append({'object': key['b'], 'view': label, 'observation': note})
        except core.CallTimeout as ex:
            bad('timeout', 'an answer', str(ex), label)
        except Exception as ex:
            import traceback
            if isinstance(ex, UnicodeDecodeError):
                bad('strings.decode', 'a string in every view', 'exc:UnicodeDecodeError', label, tag='non-utf8')
            else:
                bad('exception', 'no exception', 'exc:%s:%s @ %s' % (type(ex).__name__, ex, traceback.format_exc().splitlines()[-3].strip()), label)
    # the views against each other
    for a, b in (('section', 'segment'), ('segment', 'stripped'), ('section', 'stripped')):
        if a in obs and b in obs and obs[a].get('rows') is not None and obs[b].get('rows') is not None:
            if obs[a]['rows'] != obs[b]['rows']:
                diff = [i for i, (x, y) in enumerate(zip(obs[a]['rows'], obs[b]['rows'])) if x != y]
                nonutf = any(t[3] == 's' and _utf8(t[4]) is None for t in view['tags'])
                bad('views.tags', {a: obs[a]['rows']}, {b: obs[b]['rows'], 'differ at': diff}, '%s-%s' % (a, b), tag='non-utf8' if nonutf else None)
    if 'segment' in obs and 'stripped' in obs and obs['segment'].get('syms') != obs['stripped'].get('syms'):
        bad('views.symbols', obs['segment'].get('syms'), obs['stripped'].get('syms'), 'segment-stripped')
    if 'segment' in obs and obs['segment'].get('syms'):
        try:
            with core.guard(10):
                st = views[0][1]().elffile.get_section(ix['sym'])
                sec_rows = [_sym_row(st.get_symbol(i)) for i in range(st.num_symbols())]
            if sec_rows != obs['segment']['syms']:
                bad('views.symbols', {'.dynsym section': sec_rows}, {'segment': obs['segment']['syms']}, 'section-segment')
        except Exception as ex:
            bad('exception', 'no exception', 'exc:%s:%s' % (type(ex).__name__, ex), 'dynsym-section')
    return len(view['tags'])


def _objects(run, path, cfg, stats):
    """Objects of one TLC run, assembled from their three keyed lines as they complete (the file is not kept in memory)."""
    pending, done = {}, set()
    for c in run.cases(path):
        if 'tables' in c:
            continue
        k = core.digest(c['key'])
        if k in done:
            raise core.MachineryError('Dynamic/%s: an object was written twice: %s' % (cfg, json.dumps(c['key'])[:200]))
        slot = pending.setdefault(k, {})
        if c['part'] in slot:
            raise core.MachineryError('Dynamic/%s: a line was written twice: %s' % (cfg, json.dumps(c['key'])[:200]))
        slot[c['part']] = c
        if len(slot) == 3:
            done.add(k)
            del pending[k]
            stats['n'] += 1
            yield stats['n'], slot
    if pending:
        raise core.MachineryError('Dynamic/%s: %d incomplete objects, e.g. %s' % (cfg, len(pending), sorted(next(iter(pending.values())))))


def _g_check(run, ELFFile):
    cfgs = ['Dynamic_quick', 'Dynamic_adjrel'] if run.tier == 'quick' else ['Dynamic_thorough', 'Dynamic_thorough3', 'Dynamic_adjrel']
    ctx = None
    ntags = 0
    undet = []
    seen = set()
    for cfg in cfgs:
        res = run.tlc('Dynamic', cfg, env=JVM, timeout=1800)
        if ctx is None:
            with open(res.out) as fh:
                for line in fh:
                    if 'tables' in line[:40]:
                        v = json.loads(line)
                        ctx = _Ctx((json.loads(v) if isinstance(v, str) else v)['tables'])
                        break
        if ctx is None:
            raise core.MachineryError('Dynamic/%s emitted no tables record' % cfg)
        _G.update(ctx=ctx, ELFFile=ELFFile)
        nproc = max(1, min(core.NPROC, 8))
        pool = None
        stats = {'n': 0}
        try:
            if nproc > 1:
                import multiprocessing
                pool = multiprocessing.get_context('fork').Pool(nproc)
                results = pool.imap(_work, _objects(run, res.out, cfg, stats), chunksize=8)
            else:
                results = map(_work, _objects(run, res.out, cfg, stats))
            for index, n, mism, notes, summary in results:
                kd = core.digest(summary['object'])
                if kd in seen:
                    continue                                  # the same object from two configurations
                seen.add(kd)
                nontriv = n > 1
                run.count(kd, nontrivial=nontriv)
                if nontriv and len(run.samples) < 3 and run.evaluations % 397 == 11:
                    run.samples.append(summary)
                ntags += n
                for clause, tag, case, exp, got in mism:
                    run.mismatch(clause, tag, case if case is not None else {'object': summary['object']}, exp, got)
                for note in notes:
                    if len(undet) < 8:
                        undet.append(note)
        finally:
            if pool is not None:
                pool.terminate()
            _G.clear()
        if stats['n'] == 0:
            raise core.MachineryError('Dynamic/%s emitted no object' % cfg)
    run.validated += run.evaluations
    run.extra['tags_replayed'] = ntags
    run.extra['count_not_determined_samples'] = undet
    return ctx


# ----------------------------------------------------------------------------- T: corpus traces
ZERO = dict(k='', f=0, view='', cls=0, le=True, machine=0, osabi=0, raw=[], tags=[], strs=[], voc=[], cnt=0, gnu=[], sysv=[], secn=0)
HASH_CAP = 1 << 16


def _digits(n, w):
    return list((n & ((1 << (8 * w)) - 1)).to_bytes(w, 'little'))


def _strip_sht(raw, lay):
    """A copy of the file without section header table: e_shoff = e_shnum = e_shstrndx = 0 (field positions from the
    specification's layout tables)."""
    buf = bytearray(raw)
    for f in ('e_shoff', 'e_shnum', 'e_shstrndx'):
        off, w = lay[f]
        buf[off:off + w] = bytes(w)
    return bytes(buf)


def _scan_event(fid, view, d, raw, off, size, w):
    tags, strs = [], []
    for i, t in enumerate(d.iter_tags()):
        e = t.entry
        named = isinstance(e.d_tag, str)
        tags.append({'nm': e.d_tag if named else '', 'c': [] if named else _digits(e.d_tag, w), 'v': _digits(e.d_val, w)})
        for a in STRING_ATTR.values():
            if hasattr(t, a):
                strs.append({'i': i, 's': list(getattr(t, a).encode('utf-8', 'surrogatepass'))})
    return dict(ZERO, k='scan', f=fid, view=view, raw=list(raw[off:off + size]), tags=tags, strs=strs)


def _record(run, ctx):
    from elftools.elf.elffile import ELFFile
    from elftools.elf.dynamic import DynamicSection, DynamicSegment
    eh = ctx.tables['ehdr']
    events = [dict(ZERO, k='voc', voc=sorted(ctx.voc))]
    where, skipped, notes = {}, [], {}
    fid = 0
    for d in CORPUS:
        base = os.path.join(core.REPO, d)
        for fn in sorted(os.listdir(base)):
            path = os.path.join(base, fn)
            if not os.path.isfile(path):
                continue
            with open(path, 'rb') as fh:
                raw = fh.read()
            if raw[:4] != b'\x7fELF' or len(raw) < 64:
                continue
            cls = {1: 32, 2: 64}.get(raw[eh['EI_CLASS']])
            le = {1: True, 2: False}.get(raw[eh['EI_DATA']])
            if cls is None or le is None:
                continue
            lay = eh['c%d' % cls]
            w = cls // 8
            num = lambda f: int.from_bytes(raw[lay[f][0]:lay[f][0] + lay[f][1]], 'little' if le else 'big')
            try:
                with core.guard(60):
                    ef = ELFFile(io.BytesIO(raw))
                    segs = [s for s in ef.iter_segments() if isinstance(s, DynamicSegment)]
                    if not segs:
                        continue
                    evs = [dict(ZERO, k='file', f=fid + 1, cls=cls, le=le, machine=num('e_machine'), osabi=raw[eh['EI_OSABI']])]
                    seg = segs[0]
                    secs = [s for s in ef.iter_sections() if isinstance(s, DynamicSection)] if num('e_shoff') else []
                    if secs:
                        sec = secs[0]
                        evs.append(_scan_event(fid + 1, 'section', sec, raw, sec['sh_offset'], sec['sh_size'], w))
                    evs.append(_scan_event(fid + 1, 'segment', seg, raw, seg['p_offset'], seg['p_filesz'], w))
                    raw2 = _strip_sht(raw, lay)
                    ef2 = ELFFile(io.BytesIO(raw2))
                    if ef2.num_sections() != 0:
                        raise core.MachineryError('%s: the stripped copy still has sections' % fn)
                    seg2 = [s for s in ef2.iter_segments() if isinstance(s, DynamicSegment)][0]
                    evs.append(_scan_event(fid + 1, 'stripped', seg2, raw2, seg2['p_offset'], seg2['p_filesz'], w))
                    # symbol counts: the hash sections the dynamic tags address, .dynsym's own size
                    if seg['p_filesz']:
                        hb = {'SHT_GNU_HASH': [], 'SHT_HASH': []}
                        secn = -1
                        if secs:
                            for kind, tag in (('SHT_GNU_HASH', 'DT_GNU_HASH'), ('SHT_HASH', 'DT_HASH')):
                                ptr, _ = seg.get_table_offset(tag)
                                for s in ef.iter_sections(type=kind):
                                    if ptr is not None and s['sh_addr'] == ptr and s['sh_size'] <= HASH_CAP:
                                        hb[kind] = list(raw[s['sh_offset']:s['sh_offset'] + s['sh_size']])
                            ptr, _ = seg.get_table_offset('DT_SYMTAB')
                            for s in ef.iter_sections(type='SHT_DYNSYM'):
                                if ptr is not None and s['sh_addr'] == ptr:
                                    secn = s.num_symbols()
                        for view, g in (('segment', seg), ('stripped', seg2)):
                            try:
                                cnt = g.num_symbols()
                            except Exception as ex:
                                cnt = -2
                                notes[(fid + 1, view)] = 'exc:%s:%s' % (type(ex).__name__, ex)
                            evs.append(dict(ZERO, k='cnt', f=fid + 1, view=view, cnt=cnt, gnu=hb['SHT_GNU_HASH'], sysv=hb['SHT_HASH'], secn=secn))
                    evs.append(dict(ZERO, k='end', f=fid + 1))
            except core.MachineryError:
                raise
            except Exception as ex:
                skipped.append('%s/%s: %s: %s' % (d, fn, type(ex).__name__, str(ex)[:80]))
                continue
            fid += 1
            where[fid] = '%s/%s' % (d, fn)
            events.extend(evs)
    return events, where, skipped, notes


def _trace_check(run, ctx):
    events, where, skipped, notes = _record(run, ctx)
    if not where:
        raise core.MachineryError('no file with PT_DYNAMIC found in the corpus under %s' % core.REPO)
    trace = run.trace_file('dynamic', events)
    res = run.tlc('DynamicTrace', 'DynamicTrace', env=dict(JVM, TRACE=trace), workers=1)
    verdicts = list(run.cases(res.out))
    if len(verdicts) != 1:
        raise core.MachineryError('DynamicTrace wrote %d verdicts\n%s' % (len(verdicts), res.stdout[-2000:]))
    v = verdicts[0]
    nscan = sum(1 for e in events if e['k'] == 'scan')
    ncnt = sum(1 for e in events if e['k'] == 'cnt')
    npairs = 0
    per = {}
    for e in events:
        if e['k'] == 'scan':
            per[e['f']] = per.get(e['f'], 0) + 1
    npairs = sum(n * (n - 1) // 2 for n in per.values())
    badscan = {b[1] for b in v['bad'] if not b[2].startswith('agree') and b[2] != 'count'}
    badcnt = {b[1] for b in v['bad'] if b[2] == 'count'}
    badpair = {(b[1], b[3]) for b in v['bad'] if b[2].startswith('agree')}
    if v['oks'] + len(badscan) + len(v['ill']) != nscan or v['okc'] + len(badcnt) + len(v['undet']) != ncnt \
            or v['oka'] + len(badpair) != npairs:
        raise core.MachineryError('trace verdict not total: scans %d ok + %d bad + %d ill-formed != %d; counts %d ok + %d bad + %d undetermined '
                                  '!= %d; pairs %d ok + %d bad != %d' % (v['oks'], len(badscan), len(v['ill']), nscan, v['okc'], len(badcnt),
                                                                         len(v['undet']), ncnt, v['oka'], len(badpair), npairs))
    odd_seen = {}
    for f, line, why, ref in sorted(v['bad']):
        ev = events[line - 1]
        fn = where[f]
        case = {'where': fn, 'view': ev['view'], 'note': notes.get((f, ev['view']))}
        if why.startswith('agree'):
            other = events[ref - 1]
            if os.path.basename(fn) in ODD_FIXTURES:
                odd_seen.setdefault(os.path.basename(fn), []).append('%s: %s vs %s' % (why, other['view'], ev['view']))
                continue
            key = 'tags' if why == 'agree.tags' else 'strs'
            diff = [(a, b) for a, b in zip(other[key], ev[key]) if a != b][:3]
            run.mismatch('trace.' + why, '%s-%s' % (other['view'], ev['view']), case, {other['view']: diff and [x for x, _ in diff]},
                         {ev['view']: diff and [y for _, y in diff], 'lengths': [len(other[key]), len(ev[key])]})
        elif why == 'count':
            run.mismatch('trace.num_symbols', 'corpus', dict(case, dynsym_entries=ev['secn'], gnu_hash=bool(ev['gnu']), sysv_hash=bool(ev['sysv'])),
                         {'count the hash tables determine': ref}, ev['cnt'])
        elif why == 'tags.count':
            run.mismatch('trace.tags.count', ev['view'], case, {'entries up to and including DT_NULL': ref}, len(ev['tags']))
        else:
            ent = 2 * next(e['cls'] for e in events if e['k'] == 'file' and e['f'] == f) // 8
            run.mismatch('trace.' + why, ev['view'], case, {'entry': ref, 'raw entry bytes': ev['raw'][ref * ent:(ref + 1) * ent]},
                         ev['tags'][ref] if ref < len(ev['tags']) else None)
    run.validated += v['oks'] + v['oka'] + v['okc']
    run.extra['corpus_traces'] = {
        'files': len(where), 'scans': nscan, 'scans_accepted': v['oks'], 'view_pairs_agreeing': v['oka'], 'counts_accepted': v['okc'],
        'not_terminated_not_judged': sorted('%s %s' % (where[f], view) for f, view in v['ill']),
        'tag_names_outside_registry_not_judged': v['unk'],
        'count_not_determined_by_a_hash_table': sorted('%s %s: num_symbols()=%d, .dynsym has %d' % (where[f], view, c, n)
                                                       for f, view, c, n in v['undet']),
        'odd_fixtures': {k: {'reason': ODD_FIXTURES[k], 'observed': odd_seen.get(k, ['no disagreement observed'])} for k in ODD_FIXTURES},
        'skipped': skipped}
    for f in where:
        run.count('T:' + where[f], nontrivial=True)
    return len(where)


# ----------------------------------------------------------------------------- replay of a recorded mismatch
def _tables(run):
    res = run.tlc('Dynamic', 'Dynamic_tiny', env=JVM, workers=1)
    for c in run.cases(res.out):
        if 'tables' in c:
            return _Ctx(c['tables'])
    raise core.MachineryError('Dynamic/Dynamic_tiny emitted no tables record')


def replay(run, path):
    import base64
    from elftools.elf.elffile import ELFFile
    rec = json.load(open(path))
    ctx = _tables(run)
    corpus = False
    for n, mm in enumerate([rec['first']] + rec.get('more', [])):
        c = mm['case']
        if 'with_sections_b64' not in c:
            corpus = corpus or 'where' in c
            continue
        obj = {'A': {'key': c['key'], 'ix': c['ix'], 'common': [], 'eh1': [0, list(base64.b64decode(c['with_sections_b64'])), 1],
                     'eh2': [0, list(base64.b64decode(c['stripped_b64'])), 1]},
               'S': {'sh': []}, 'B': {'view': c['spec_view']}}
        sink = _Sink(n)
        run.count(core.digest(c['key']))
        _replay(sink, ctx, obj, ELFFile)
        for clause, tag, case, exp, got in sink.mism:
            run.mismatch(clause, tag, case if case is not None else {'object': c['key']}, exp, got)
    if corpus:
        _trace_check(run, ctx)
    run.validated = run.evaluations
    return run.finish()


# ----------------------------------------------------------------------------- driver
def check(run):
    from elftools.elf.elffile import ELFFile
    run.rule = ('G cases = dynamic objects emitted by Dynamic.tla (modes: tag sequences x machine/OS ABI configurations x variant; tails '
                'after DT_NULL x position of the mandatory block; PT_LOAD layouts; symbol tables x hash kinds x symoffset incl. GNU ld\'s '
                'empty table; one object per group of registry DT codes under several machines / OS ABIs; three PT_LOADs with the second '
                'directly behind the first in memory but not in the file x the table at that boundary; relocation tables: subsets of '
                'REL/RELA/RELR x DT_JMPREL absent / DT_PLTREL = REL / RELA; the SHT_DYNAMIC header / PT_DYNAMIC relation: coinciding, disjoint, '
                'stale inside the segment / wider than it with another sh_link, no SHT_DYNAMIC section), each as two images (with '
                'section headers, stripped); distinct by the object key; non-trivial = more than the terminator in the array.  '
                'T cases = corpus files with PT_DYNAMIC (three scans each); non-trivial = all of them')
    run.assumptions += ['DT_STRTAB and DT_SYMTAB are present, the array is terminated inside PT_DYNAMIC / .dynamic, PT_LOAD address ranges '
                        'do not overlap (gABI well-formedness)',
                        'the symbol count is asserted only where a hash table determines it: a GNU table with a populated bucket, or a '
                        'SysV table (nchain); the no-hash pointer heuristic is recorded, never asserted',
                        'where the SHT_DYNAMIC section header does not describe the array PT_DYNAMIC locates (stale / wider / absent: '
                        'view.secview false) only the segment views are asserted (strings through DT_STRTAB, gABI); a coinciding section '
                        'that links to another table than DT_STRTAB addresses is not built (the property allows either table there)',
                        'names the vendored registry / the Solaris table of DynScan.tla do not define are not asserted (vocabulary gating)',
                        'strings that are not UTF-8 have no representation fixed by the property: only "a string in every view, the same '
                        'in all views" is asserted for them',
                        'relocation entries are read under the generic r_info split (no MIPS64 objects in mode rel); RELR tables hold '
                        'address entries only (bitmaps, machine-specific r_info and application are C08\'s)']
    ctx = _g_check(run, ELFFile)
    _trace_check(run, ctx)
    if not run.samples:
        run.samples.append({'note': 'no sample'})
