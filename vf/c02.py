"""C02 - section and segment contents, string tables and address mapping are exact.

Spec: spec/Geometry.tla over spec/Elf.tla.  G: geometry grid images (section_in_segment against
the transcription of binutils' strict rule), PT_LOAD layouts x address ranges (address_offsets),
string tables around the 64-byte read chunk (get_string), data paths raw / NOBITS / compressed
with zlib streams written by the specification (plus harness-side recompression at other zlib
levels into the same slot), Segment.data and the interpreter string; client sessions on ONE long-lived
ELFFile (address_offsets / iter_segments generators started, advanced, drained, abandoned or kept open,
interleaved with get_segment, Segment.data, section_in_segment, Section.data of raw / NOBITS / compressed
sections, get_string and the interpreter path, on held or freshly fetched objects): every session of a
bounded length over three alphabets exhaustively, long ones over the whole alphabet along the specification's
pseudo-random schedules; the expected answer
of every call is emitted by the specification (the declarative view, whatever preceded the call)."""
import io
import zlib

from . import core
from .elfutil import concretise

LEVEL = 'model_checking'


def check(run):
    from elftools.elf.elffile import ELFFile
    from elftools.common.exceptions import ELFCompressionError
    run.rule = ('cases = images of the Geometry writers: 2304 grid images (30 sections x 4 segments each: every segment type x TLS/ALLOC/NOBITS flags x '
                'file/address displacement -1..+4 x sizes 0..3 x filesz 0..2 x memsz 0..3), 12 PT_LOAD layout images x 115 (start,size) ranges, '
                '16 string-table images x ~50 offsets, 4 images with a 65700-byte string (more than 1024 read chunks) x 15 offsets, ~300 data-path images; non-trivial = the expectation is not the empty/false answer; '
                'distinct by image bytes and query; client sessions on one long-lived ELFFile (one case per session, every call compared): all '
                'sessions of 4 calls (thorough 5) over generator start/adv/drain/drop + Segment.data + get_string, of 3 (4) calls over data() of '
                'raw/compressed/badly sized sections + Segment.data + get_string, of 3 (4) get_string calls, and 500 (3000) scheduled sessions of '
                '14 (24) calls over the whole alphabet')
    run.assumptions += ['.tbss special sizing and zero-size sections in PT_DYNAMIC/PT_NOTE are outside the clause groups the property names '
                        '(geometries where they matter are emitted as "not asserted")',
                        'zlib/Adler-32: stored-block streams are written by the specification; other compression levels come from '
                        "Python's zlib (trusted) and are substituted into the slot the specification designates"]
    res = run.tlc('Geometry', 'Geometry_quick' if run.tier == 'quick' else 'Geometry_thorough', workers=min(8, core.NPROC))
    pairs = asserted = 0
    for case in run.cases(res.out):
        mode = case['mode']
        data = concretise(case['chunks'])
        brief = {'mode': mode, 'bytes_b64': core.b64(data) if len(data) < 6000 else None}
        try:
            with core.guard(60):
                ef = ELFFile(io.BytesIO(data))
                if mode == 'inseg':
                    secs = [ef.get_section(i) for i in range(1, 1 + case['nsec'])]
                    segs = list(ef.iter_segments())
                    for j, row in enumerate(case['expect']):
                        for k, want in enumerate(row):
                            pairs += 1
                            if want == 2:
                                continue
                            asserted += 1
                            got = bool(segs[j].section_in_segment(secs[k]))
                            key = ('inseg', segs[j]['p_type'], dict(secs[k].header).__repr__(), dict(segs[j].header).__repr__())
                            run.count(core.digest(key), nontrivial=bool(want))
                            if got != bool(want):
                                s, g = secs[k], segs[j]
                                run.mismatch('section_in_segment', '%s/%s' % (g['p_type'], 'in' if want else 'out'),
                                             {'sec': dict(s.header), 'seg': dict(g.header)}, bool(want), got)
                elif mode == 'addr':
                    for start, size, want in case['queries']:
                        got = list(ef.address_offsets(start, size))
                        run.count(core.digest(['addr', data, start, size]), nontrivial=bool(want))
                        if got != want:
                            run.mismatch('address_offsets', 'size%d' % size, dict(brief, start=start, size=size), want, got)
                elif mode == 'strings':
                    sec = ef.get_section(case['secidx'])
                    for off, s in case['strings']:
                        if isinstance(s, dict):          # run-length form of a very long string: pre ++ pat x rep
                            s = list(s['pre']) + list(s['pat']) * s['rep']
                        want = bytes(s).decode('utf-8')
                        got = sec.get_string(off)
                        run.count(core.digest(['str', data[:64], len(data), off]), nontrivial=bool(s))
                        if got != want:
                            run.mismatch('get_string', 'len%d' % len(s) if len(s) < 1000 else 'long', dict(brief, offset=off),
                                         want if len(want) < 400 else {'len': len(want), 'head': want[:32]},
                                         got if len(got) < 400 else {'len': len(got), 'head': got[:32]})
                        # the same bytes through the linked-section route (a symbol table's stringtable is this class)
                elif mode == 'data':
                    _data_case(run, ef, case, data, brief, ELFCompressionError)
        except Exception as ex:
            run.mismatch('exception', mode, brief, 'no exception', 'exc:%s:%s' % (type(ex).__name__, str(ex)[:120]))
    _sessions(run, ELFFile, ELFCompressionError)
    run.extra['inseg_pairs'] = pairs
    run.extra['inseg_pairs_asserted'] = asserted
    run.validated = run.evaluations
    if not run.samples:
        run.samples.append({'note': 'see tlc_runs'})


def _data_case(run, ef, case, data, brief, ELFCompressionError):
    from elftools.elf.elffile import ELFFile
    kind = case['kind']
    sec = ef.get_section(case['secidx'])
    payload = bytes(case['payload'])
    run.count(core.digest(['data', data]), nontrivial=len(payload) > 0,
              sample={'kind': kind, 'size': len(payload), 'chunks': [c[:1] + [len(c[1])] for c in case['chunks']][:6]})

    def bad(clause, exp, obs):
        run.mismatch(clause, kind, dict(brief, kind=kind, n=len(payload)), exp, obs)

    def observe(sec, tag=''):
        if bool(sec.compressed) != case['compressed']:
            bad('compressed' + tag, case['compressed'], bool(sec.compressed))
        if sec.data_size != case['data_size']:
            bad('data_size' + tag, case['data_size'], sec.data_size)
        if sec.data_alignment != case['data_align']:
            bad('data_alignment' + tag, case['data_align'], sec.data_alignment)
        if case['error']:
            try:
                d = sec.data()
                bad('data.error' + tag, 'ELFCompressionError', 'returned %d bytes' % len(d))
            except ELFCompressionError:
                pass
            except Exception as ex:
                bad('data.error' + tag, 'ELFCompressionError', type(ex).__name__)
        else:
            d = sec.data()
            if d != payload:
                bad('data' + tag, {'len': len(payload), 'head': list(payload[:16])}, {'len': len(d), 'head': list(d[:16])})
            if sec.data() != d:
                bad('data.repeat' + tag, 'same bytes twice', 'differs')
    observe(sec)
    # a second section with the same name and a different payload must give its own bytes (in both orders of access)
    if case['twin']:
        twin = ef.get_section(case['secidx'] + 1)
        d2 = twin.data()
        if d2 != bytes(case['twin']):
            bad('data.same_name_twin', {'len': len(case['twin']), 'head': list(case['twin'][:8])}, {'len': len(d2), 'head': list(d2[:8])})
        ef3 = ELFFile(io.BytesIO(data))
        if ef3.get_section(case['secidx'] + 1).data() != bytes(case['twin']) or ef3.get_section(case['secidx']).data() != payload:
            bad('data.same_name_twin.reverse', 'own bytes', 'other bytes')
    # segments: the loadable one covers exactly the section's file bytes; the interpreter path
    segs = list(ef.iter_segments())
    for j, want in enumerate(case['inseg']):
        got = bool(segs[2 + j].section_in_segment(sec))
        if got != bool(want):
            bad('section_in_segment.data', bool(want), got)
    if segs[0].data() != bytes(case['segdata']):
        bad('segment.data', len(case['segdata']), len(segs[0].data()))
    name = segs[1].get_interp_name()
    if name != bytes(case['interp']).decode('utf-8'):
        bad('interp_name', bytes(case['interp']).decode('utf-8'), name)
    if segs[1].data() != bytes(case['interpdata']):
        bad('interp.data', list(case['interpdata']), list(segs[1].data()))
    # harness-side recompression: other deflate encodings of the same payload in the slot the spec designates
    if kind == 'zlib' and case['zslot']['len'] > 0:
        slot = case['zslot']
        for level, wbits in ((1, 15), (6, 15), (9, 15), (6, 9), (9, 12), (1, 14)):
            co = zlib.compressobj(level, zlib.DEFLATED, wbits)
            z = co.compress(payload) + co.flush()
            if len(z) > slot['len']:
                continue
            buf = bytearray(data)
            # the stream may be shorter than the slot: zlib stops at the end of its stream, trailing slot bytes are ignored
            buf[slot['off']:slot['off'] + len(z)] = z
            ef2 = ELFFile(io.BytesIO(bytes(buf)))
            observe(ef2.get_section(case['secidx']), '.level%d.w%d' % (level, wbits))


# ---------------------------------------------------------------------------------------------------------------
# client sessions: one ELFFile per session, the calls of the session in order, every answer compared with the one
# the specification logged for that call
_PT = {0: None, 1: 'PT_LOAD', 2: 'PT_DYNAMIC', 3: 'PT_INTERP', 4: 'PT_NOTE', 6: 'PT_PHDR', 7: 'PT_TLS'}       # gABI names (API vocabulary)


def _sessions(run, ELFFile, ELFCompressionError):
    quick = run.tier == 'quick'
    outs = [run.tlc('Geometry', 'Geometry_sess_quick' if quick else 'Geometry_sess_thorough', workers=min(8, core.NPROC)).out]
    worlds, sessions = {}, []
    for out in outs:
        for case in run.cases(out):
            if case['mode'] == 'world':
                worlds[tuple(case['w'])] = dict(case, data=concretise(case['chunks']))
            elif case['mode'] == 'sess':
                sessions.append(case)
    if not worlds or not sessions:
        raise core.MachineryError('Geometry sessions: no worlds / sessions emitted')
    per = {}
    for sess in sessions:
        w = worlds.get(tuple(sess['w']))
        if w is None:
            raise core.MachineryError('Geometry sessions: session on an unknown world %r' % (sess['w'],))
        per[sess['disc']] = per.get(sess['disc'], 0) + 1
        letters = [[c['op'], c['a'], c['b']] for c in sess['calls']]
        run.count(core.digest(['sess', sess['w'], sess['held'], letters]), nontrivial=any(c['ans'] for c in sess['calls']))
        if sess['disc'] == 'sessR' and per['sessR'] == 7:          # one real session among the evidence samples
            run.samples[3:] = [{'session': [l + [c['ans'] if len(c['ans']) < 8 else len(c['ans'])] for l, c in zip(letters, sess['calls'])],
                                'world': sess['w'], 'held': sess['held']}]
        try:
            with core.guard(60):
                _replay_session(run, ELFFile, ELFCompressionError, w, sess, letters)
        except Exception as ex:
            run.mismatch('session.exception', sess['disc'], {'w': sess['w'], 'held': sess['held'], 'calls': letters,
                                                               'bytes_b64': core.b64(w['data'])},
                         'no exception', 'exc:%s:%s' % (type(ex).__name__, str(ex)[:120]))
    run.extra['sessions'] = per


def _replay_session(run, ELFFile, ELFCompressionError, world, sess, letters):
    ef = ELFFile(io.BytesIO(world['data']))
    held = bool(sess['held'])
    segtab = [tuple(h[1:]) for h in world['segs']]
    secs, segs, gens = {}, {}, {}

    def sec(k):
        if not held:
            return ef.get_section(world['secidx'][k - 1])
        if k not in secs:
            secs[k] = ef.get_section(world['secidx'][k - 1])
        return secs[k]

    def seg(j):
        if not held:
            return ef.get_segment(j - 1)
        if j not in segs:
            segs[j] = ef.get_segment(j - 1)
        return segs[j]

    def value(kind, v):          # what a generator yielded, in the specification's terms
        if kind == 'addr':
            return v
        t = (v['p_offset'], v['p_vaddr'], v['p_filesz'], v['p_memsz'])
        return segtab.index(t) + 1 if t in segtab else -1

    for i, c in enumerate(sess['calls']):
        op, a, b, want = c['op'], c['a'], c['b'], c['ans']
        if op == 'addr':
            gens[len(gens) + 1] = ('addr', ef.address_offsets(a, b))
            got = []
        elif op == 'segs':
            gens[len(gens) + 1] = ('segs', ef.iter_segments(type=_PT[a]) if a else ef.iter_segments())
            got = []
        elif op == 'adv':
            kind, g = gens[a]
            try:
                got = [value(kind, next(g))]
            except StopIteration:
                got = []
        elif op == 'drain':
            kind, g = gens[a]
            got = [value(kind, v) for v in g]
        elif op == 'drop':
            gens[a][1].close()
            gens[a] = None
            got = []
        elif op == 'nseg':
            got = [ef.num_segments()]
        elif op == 'seg':
            h = seg(a)
            got = [h['p_type'], h['p_offset'], h['p_vaddr'], h['p_filesz'], h['p_memsz']]
            want = [_PT.get(want[0], want[0])] + want[1:]
        elif op == 'segdata':
            got = list(seg(a).data())
        elif op == 'inseg':
            got = [int(bool(seg(a).section_in_segment(sec(b))))]
            if want == [2]:           # outside the clause groups the property names: asked, not asserted
                got = want
        elif op == 'secdata':
            try:
                got = list(sec(a).data())
            except ELFCompressionError:
                got = [-1]
        elif op == 'str':
            got = list(sec(world['strsec']).get_string(a).encode('utf-8'))
        elif op == 'interp':
            got = list(seg(a).get_interp_name().encode('utf-8'))
        else:
            raise core.MachineryError('Geometry sessions: unknown call %r' % (op,))
        if got != want:
            run.mismatch('session.' + op, sess['disc'],
                         {'w': sess['w'], 'held': sess['held'], 'calls': letters[:i + 1], 'at': i, 'bytes_b64': core.b64(world['data'])},
                         want, got)
            return
