"""C04 - debugging-information entries are decoded into exactly the encoded tree.

Spec: spec/DieTree.tla over spec/DwarfForms.tla.  G: every finished object of the writer
(forms product, unit-header kinds, v4 type units, tree shapes) is handed to DWARFInfo as raw
section blobs; units, entries, attributes, nesting and references are compared with the
specification's view under three access orders."""
import io

from . import core
from .core import denote
from .elfutil import registry, enum_verdict

LEVEL = 'model_checking'


def _leb(g, s):
    n = 0
    for i, x in enumerate(g):
        n |= x << (7 * i)
    if s and g and g[-1] & 0x40:
        n -= 1 << (7 * len(g))
    return n


def _names_by_code(prefix):
    out = {}
    for n, (v, _src) in registry()['names'].items():
        if n.startswith(prefix):
            out.setdefault(int(v), []).append(n)
    return out


def _val_ok(exp, obs):
    """Compare an observed attribute value with the spec's tagged value."""
    k = exp['k']
    if k == 'none':
        return True
    if k == 'num':
        return isinstance(obs, int) and not isinstance(obs, bool) and obs == denote(exp['v'])
    if k == 'leb':
        return isinstance(obs, int) and not isinstance(obs, bool) and obs == _leb(exp['g'], exp['s'])
    if k == 'bytes':
        if isinstance(obs, (bytes, bytearray, list, tuple)):
            return list(obs) == list(exp['b'])
        return False
    if k == 'bool':
        return obs is exp['t']
    raise core.MachineryError('unknown value kind %r' % k)


def _mk(case):
    from elftools.dwarf.dwarfinfo import DWARFInfo, DwarfConfig, DebugSectionDescriptor

    def sec(b, name):
        b = bytes(b)
        return DebugSectionDescriptor(stream=io.BytesIO(b), name=name, global_offset=0, size=len(b), address=0)
    types = case['mode'] == 'types'
    info = sec(case['info'], '.debug_info')
    return DWARFInfo(
        config=DwarfConfig(little_endian=case['le'], machine_arch='x64', default_address_size=8),
        debug_info_sec=(sec(case['cuinfo'], '.debug_info') if case.get('cuinfo') else None) if types else info, debug_aranges_sec=None, debug_abbrev_sec=sec(case['abbrev'], '.debug_abbrev'),
        debug_frame_sec=None, eh_frame_sec=None, debug_str_sec=sec(case['str'], '.debug_str'), debug_loc_sec=None,
        debug_ranges_sec=None, debug_line_sec=None, debug_pubtypes_sec=None, debug_pubnames_sec=None,
        debug_addr_sec=sec(case['addr'], '.debug_addr'), debug_str_offsets_sec=sec(case['str_offsets'], '.debug_str_offsets'),
        debug_line_str_sec=sec(case['line_str'], '.debug_line_str'), debug_loclists_sec=sec(case['lists'], '.debug_loclists'),
        debug_rnglists_sec=sec(case['lists'], '.debug_rnglists'), debug_sup_sec=None, gnu_debugaltlink_sec=None,
        debug_types_sec=sec(case['info'], '.debug_types') if types else None)


UT_NAMES = {'DW_UT_compile', 'DW_UT_type', 'DW_UT_partial', 'DW_UT_skeleton', 'DW_UT_split_compile', 'DW_UT_split_type'}


def check(run):
    from elftools.dwarf import enums as denums
    tags = _names_by_code('DW_TAG_')
    ats = _names_by_code('DW_AT_')
    voc_tag = set(k for k in denums.ENUM_DW_TAG if isinstance(k, str))
    voc_at = set(k for k in denums.ENUM_DW_AT if isinstance(k, str))
    run.rule = ('cases = finished objects of the DieTree writer: (form x value class x DWARF version 2-5 x 32/64-bit format x address '
                'size x byte order), every unit-header kind, mixed-parameter unit sequences with shared/private abbreviation tables, '
                'v4 type units, and every tree shape in bounds with sibling attributes/references/non-minimal nulls; '
                'non-trivial = at least one entry with an attribute or a child; distinct by emitted section bytes')
    run.assumptions += ['DW_FORM_GNU_addr_index / GNU_str_index (pre-standard) are outside "supported forms"',
                        'representation of block/data16 values is normalised (list of ints or bytes)',
                        'tag/attribute names are asserted only for names the vendored registry defines']
    res = run.tlc('DieTree', 'DieTree_quick' if run.tier == 'quick' else 'DieTree_thorough')
    seen = set()
    for case in run.cases(res.out):
        key = core.digest([case['info'], case['abbrev'], case['le'], case['mode']])
        if key in seen:
            continue
        seen.add(key)
        nontriv = any(d['attrs'] or d['children'] for u in case['units'] for d in u['dies'])
        run.count(key, nontrivial=nontriv)
        if len(run.samples) < 3 and nontriv and run.evaluations % 3001 == 7:
            run.samples.append({'tag': case['tag'], 'mode': case['mode'], 'info': case['info'], 'abbrev': case['abbrev'],
                                'units': [{k: v for k, v in u.items() if k != 'dies'} for u in case['units']]})
        brief = {'tag': case['tag'], 'mode': case['mode'], 'le': case['le'], 'info': case['info'], 'abbrev': case['abbrev'],
                 'ctx': [(u['ver'], u['fmt'], u['asz']) for u in case['units']]}
        ctxtag = '%s/v%d/%d/%d' % (case['tag'], case['units'][0]['ver'], case['units'][0]['fmt'], case['units'][0]['asz']) \
            if case['mode'] == 'forms' else case['tag']

        def bad(clause, exp, obs, t=None):
            run.mismatch(clause, t or (case['tag'] if case['mode'] == 'forms' else ctxtag), brief, exp, obs)
        try:
            with core.guard(20):
                _one(case, bad, tags, ats, voc_tag, voc_at)
        except Exception as ex:
            import traceback
            tb = traceback.extract_tb(ex.__traceback__)
            where = '%s:%d' % (tb[-1].filename.split('/')[-1], tb[-1].lineno)
            bad('exception', 'no exception', 'exc:%s:%s @ %s' % (type(ex).__name__, str(ex)[:100], where))
    run.validated = run.evaluations
    _corpus_traces(run)
    if not run.samples:
        run.samples.append({'note': 'no sample'})


T_QUICK = ['sample_exe64.elf', 'dwarfv5_basic.elf', 'dwarf_debug_types.elf', 'trailing_null_dies.elf', 'lambda.elf', 'simple_gcc.elf.arm',
           'simple_mipsel.elf', 'dwarf_lineprog_data16.elf', 'pascalenum.o', 'aranges_partial.elf', 'arm_with_form_indirect.elf',
           'dwarf_llpair.elf', 'exe_solaris64_cc.elf', 'debug_info.elf']


def _corpus_traces(run):
    """T: entry streams of compiler-produced units must be behaviours of the reader machine (spec/trace/DieTrace.tla)."""
    import os
    from elftools.elf.elffile import ELFFile
    roots = [os.path.join(core.REPO, 'test', d) for d in ('testfiles_for_unittests', 'testfiles_for_readelf', 'testfiles_for_dwarfdump')]
    files = []
    for r in roots:
        for f in sorted(os.listdir(r)):
            p = os.path.join(r, f)
            if os.path.isfile(p) and os.path.getsize(p) > 0 and (run.tier == 'thorough' or f in T_QUICK):
                files.append(p)
    events = []
    tid = 0
    nfiles = 0
    seen = set()
    for p in files:
        data = open(p, 'rb').read()
        if data[:4] != b'\x7fELF' or core.digest(data) in seen:
            continue
        seen.add(core.digest(data))
        try:
            with core.guard(120):
                ef = ELFFile(io.BytesIO(data))
                if not ef.has_dwarf_info(strict=True):
                    continue
                di = ef.get_dwarf_info()
                nfiles += 1
                ncu = 0
                for cu in di.iter_CUs():
                    ncu += 1
                    if run.tier == 'quick' and ncu > 25:
                        break
                    tid += 1
                    events.append({'tid': tid, 'ev': 'unit', 'off': cu.cu_offset, 'die_off': cu.cu_die_offset, 'end': cu.cu_offset + cu.size,
                                   'size': 0, 'null': False, 'kids': False, 'parent': -1})
                    for d in cu.iter_DIEs():
                        par = d.get_parent()
                        events.append({'tid': tid, 'ev': 'die', 'off': d.offset, 'die_off': 0, 'end': 0, 'size': d.size, 'null': d.is_null(),
                                       'kids': bool(d.has_children), 'parent': -1 if par is None else par.offset})
                    events.append({'tid': tid, 'ev': 'end', 'off': 0, 'die_off': 0, 'end': 0, 'size': 0, 'null': False, 'kids': False, 'parent': -1})
        except Exception as ex:
            run.notes.append('T: %s not traced (%s)' % (os.path.basename(p), type(ex).__name__))
    if not events:
        raise core.MachineryError('C04 T: no corpus unit could be traced')
    trace = run.trace_file('dies', events)
    res = run.tlc('DieTrace', 'DieTrace', env={'TRACE': trace}, workers=1)
    verdicts = list(run.cases(res.out))
    if len(verdicts) != 1:
        raise core.MachineryError('DieTrace wrote %d verdicts' % len(verdicts))
    v = verdicts[0]
    for t, line, why in v['bad']:
        ev = events[line - 1]
        run.mismatch('trace.' + why.split(':')[0].replace(' ', '_')[:40], 'corpus', {'tid': t, 'line': line, 'event': ev}, 'a behaviour of the reader machine', why)
    run.validated += v['ok']
    run.evaluations += tid
    run.nontrivial |= {('trace', i) for i in range(v['ok'])}
    run.extra['T_units'] = tid
    run.extra['T_units_accepted'] = v['ok']
    run.extra['T_units_with_trailing_padding'] = v['padded']
    run.extra['T_files'] = nfiles
    run.extra['T_events'] = len(events)


def _units(di, case):
    return list(di.iter_TUs()) if case['mode'] == 'types' else list(di.iter_CUs())


def _uoff(u):
    return u.cu_offset


def _die_off(u):
    return u.tu_die_offset if hasattr(u, 'tu_die_offset') else u.cu_die_offset


def _one(case, bad, tags, ats, voc_tag, voc_at):
    di = _mk(case)
    units = _units(di, case)
    if len(units) != len(case['units']):
        bad('units.count', len(case['units']), len(units))
        return
    for cu, uv in zip(units, case['units']):
        # ---- unit header
        hdr = cu.header
        chk = [('cu_offset', uv['off'], _uoff(cu)), ('cu_die_offset', uv['die_off'], _die_off(cu)),
               ('unit_length', uv['unit_length'], hdr['unit_length']), ('version', uv['ver'], hdr['version']),
               ('debug_abbrev_offset', uv['abbrev_off'], hdr['debug_abbrev_offset']), ('address_size', uv['asz'], hdr['address_size']),
               ('dwarf_format', uv['fmt'], cu.structs.dwarf_format), ('structs.address_size', uv['asz'], cu.structs.address_size)]
        if hasattr(cu, 'size') and case['mode'] != 'types':
            chk.append(('size', uv['size'], cu.size))
        ut = uv['utype']
        if ut in UT_NAMES:
            chk.append(('unit_type', ut, hdr['unit_type']))
            if ut in ('DW_UT_skeleton', 'DW_UT_split_compile'):
                chk.append(('dwo_id', denote(uv['sig']), hdr['dwo_id']))
            if ut in ('DW_UT_type', 'DW_UT_split_type'):
                chk.append(('type_signature', denote(uv['sig']), hdr['type_signature']))
                chk.append(('type_offset', uv['typeoff'], hdr['type_offset']))
        if ut == 'tu4':
            chk.append(('signature', denote(uv['sig']), hdr['signature']))
            chk.append(('type_offset', uv['typeoff'], hdr['type_offset']))
        for f, e, o in chk:
            if e != o:
                bad('unit.' + f, e, o)
        # ---- order 1: sequential iteration
        dies = list(cu.iter_DIEs())
        if [d.offset for d in dies] != [d['off'] for d in uv['dies']]:
            bad('dies.offsets', [d['off'] for d in uv['dies']], [d.offset for d in dies])
            continue
        byoff = {d['off'] for d in uv['dies']}
        for die, dv in zip(dies, uv['dies']):
            _cmp_die(die, dv, uv, bad, tags, ats, voc_tag, voc_at)
        # nesting as seen after sequential iteration
        _cmp_nesting(dies, uv, bad, 'seq')
        # references
        for die, dv in zip(dies, uv['dies']):
            for av in dv['attrs']:
                if av['reft'] >= 0 and av['name'] in (73,) and _is_die(case, av['reft']):
                    nm = 'DW_AT_type'
                    tgt = die.get_DIE_from_attribute(nm)
                    if tgt.offset != av['reft']:
                        bad('ref.target', av['reft'], tgt.offset, t=av['form'])
    # ---- order 2: random access in reverse order + get_parent on a fresh object
    di2 = _mk(case)
    if case['mode'] != 'types':
        alld = [(uv, dv) for uv in case['units'] for dv in uv['dies']]
        got = {}
        for uv, dv in reversed(alld):
            d = di2.get_DIE_from_refaddr(dv['off'])
            got[dv['off']] = d
            if d.offset != dv['off'] or d.size != dv['size'] or d.abbrev_code != dv['code']:
                bad('refaddr.die', [dv['off'], dv['size'], dv['code']], [d.offset, d.size, d.abbrev_code])
        for uv in case['units']:
            offs = [d['off'] for d in uv['dies']]
            for i, dv in enumerate(uv['dies']):
                if dv['isnull']:
                    continue
                p = got[dv['off']].get_parent()
                want = None if dv['parent'] == -1 else offs[dv['parent'] - 1]
                if (p.offset if p is not None else None) != want:
                    bad('refaddr.parent', want, p.offset if p is not None else None)
    # ---- order 3: children-first navigation on a fresh object
    di3 = _mk(case)
    for cu, uv in zip(_units(di3, case), case['units']):
        offs = [d['off'] for d in uv['dies']]
        top = cu.get_top_DIE()
        if top.offset != offs[0]:
            bad('top.offset', offs[0], top.offset)
            continue
        seen = {}

        def walk(d, ix):
            seen[ix] = d
            want = sorted(offs[j - 1] for j in uv['dies'][ix]['children'])
            kids = list(d.iter_children())
            if [k.offset for k in kids] != want:
                bad('children', want, [k.offset for k in kids])
                return
            # a second, partially consumed iterator must not disturb anything
            it = d.iter_children()
            next(it, None)
            for k in kids:
                walk(k, offs.index(k.offset))
        walk(top, 0)
        for ix, d in seen.items():
            dv = uv['dies'][ix]
            want = None if dv['parent'] == -1 else offs[dv['parent'] - 1]
            p = d.get_parent()
            if (p.offset if p is not None else None) != want:
                bad('nav.parent', want, p.offset if p is not None else None)
        # after the children-first walk the sequential enumeration of the same object is still the encoded sequence
        if [d.offset for d in cu.iter_DIEs()] != offs:
            bad('dies.offsets.after_walk', offs, [d.offset for d in cu.iter_DIEs()])
    # ---- order 4: one level of children only (sibling shortcuts leave nested subtrees unvisited), then everything; and
    # ---- order 5: parent of the last entry reached by reference, then everything - each on a fresh object
    for order in ('one_level', 'parent_of_last'):
        di5 = _mk(case)
        for cu, uv in zip(_units(di5, case), case['units']):
            offs = [d['off'] for d in uv['dies']]
            if order == 'one_level':
                for k in cu.get_top_DIE().iter_children():
                    if k.has_children:
                        next(k.iter_children(), None)
            elif case['mode'] != 'types':
                last = [dv for dv in uv['dies'] if not dv['isnull']][-1]
                di5.get_DIE_from_refaddr(last['off']).get_parent()
            got = [d.offset for d in cu.iter_DIEs()]
            if got != offs:
                bad('dies.offsets.after_' + order, offs, got)
    # ---- order 6: a later unit opened directly by its offset, then entries of earlier units by section offset (what a
    # ---- DW_FORM_ref_addr reference into a not yet parsed unit does)
    if case['mode'] != 'types' and len(case['units']) > 1:
        di7 = _mk(case)
        lastu = case['units'][-1]
        cu = di7.get_CU_at(lastu['off'])
        if cu.cu_offset != lastu['off']:
            bad('cu_at.offset', lastu['off'], cu.cu_offset)
        for uv in case['units'][:-1]:
            for dv in uv['dies'][:3]:
                d = di7.get_DIE_from_refaddr(dv['off'])
                if [d.offset, d.size, d.cu.cu_offset] != [dv['off'], dv['size'], uv['off']]:
                    bad('refaddr.after_later_unit', [dv['off'], dv['size'], uv['off']], [d.offset, d.size, d.cu.cu_offset])
        if [c.cu_offset for c in di7.iter_CUs()] != [uv['off'] for uv in case['units']]:
            bad('iter_CUs.after_later_unit', [uv['off'] for uv in case['units']], [c.cu_offset for c in di7.iter_CUs()])
    # ---- type-signature references from a compile unit (get_DIE_from_attribute through DW_FORM_ref_sig8), before and after the
    # ---- type units were enumerated
    if case['mode'] == 'types' and case.get('sigrefs'):
        for pre in (False, True, 'partial'):
            di6 = _mk(case)
            if pre == 'partial':
                next(di6.iter_TUs())          # an abandoned enumeration of the type units
            elif pre:
                list(di6.iter_TUs())
            cu = next(di6.iter_CUs())
            if [d.offset for d in cu.iter_DIEs()] != [d['off'] for d in case['cu'][0]['dies']]:
                bad('sigref.cu.dies', [d['off'] for d in case['cu'][0]['dies']], [d.offset for d in cu.iter_DIEs()])
                continue
            for r in case['sigrefs']:
                d = cu.get_DIE_from_refaddr(r['from'])
                t = d.get_DIE_from_attribute('DW_AT_type')
                got = [t.offset, getattr(t.cu, 'tu_offset', None)]
                if got != [r['die'], r['unit']]:
                    bad('sigref.target', [r['die'], r['unit']], got, t={False: 'fresh', True: 'after_iter', 'partial': 'after_partial_iter'}[pre])
    # ---- type units by signature
    if case['mode'] == 'types':
        di4 = _mk(case)
        for uv in reversed(case['units']):
            sig = denote(uv['sig'])
            d = di4.get_DIE_by_sig8(sig)
            if d.offset != uv['off'] + uv['typeoff']:
                bad('sig8.die', uv['off'] + uv['typeoff'], d.offset)
            tu = di4.get_TU_by_sig8(sig)
            if tu.tu_offset != uv['off']:
                bad('sig8.tu', uv['off'], tu.tu_offset)


def _is_die(case, off):
    return any(d['off'] == off and not d['isnull'] for u in case['units'] for d in u['dies'])


def _cmp_nesting(dies, uv, bad, order):
    offs = [d['off'] for d in uv['dies']]
    for die, dv in zip(dies, uv['dies']):
        if dv['isnull']:
            continue
        want = None if dv['parent'] == -1 else offs[dv['parent'] - 1]
        p = die.get_parent()
        if (p.offset if p is not None else None) != want:
            bad('parent.' + order, want, p.offset if p is not None else None)
        kids = [k.offset for k in die.iter_children()]
        wantk = sorted(offs[j - 1] for j in dv['children'])
        if kids != wantk:
            bad('children.' + order, wantk, kids)


def _cmp_die(die, dv, uv, bad, tags, ats, voc_tag, voc_at):
    if die.size != dv['size']:
        bad('die.size', dv['size'], die.size)
    if die.abbrev_code != dv['code']:
        bad('die.abbrev_code', dv['code'], die.abbrev_code)
    if dv['isnull']:
        if not die.is_null() or die.tag is not None or die.attributes:
            bad('die.null', 'null entry', [die.tag, len(die.attributes)])
        return
    if die.is_null():
        bad('die.null', 'non-null entry', 'null')
        return
    if enum_verdict(die.tag, dv['tag'], tags.get(dv['tag'], []), voc_tag) is False:
        bad('die.tag', {'code': dv['tag'], 'names': tags.get(dv['tag'], [])}, die.tag)
    if bool(die.has_children) != dv['kids']:
        bad('die.has_children', dv['kids'], die.has_children)
    obs = list(die.attributes.items())
    if len(obs) != len(dv['attrs']):
        bad('die.attr_count', len(dv['attrs']), len(obs))
        return
    for (k, a), av in zip(obs, dv['attrs']):
        t = av['form']
        if enum_verdict(a.name, av['name'], ats.get(av['name'], []), voc_at) is False or k != a.name:
            bad('attr.name', {'code': av['name'], 'names': ats.get(av['name'], [])}, [k, a.name], t=t)
        if a.form != av['form']:
            bad('attr.form', av['form'], a.form, t=t)
        if a.offset != av['off']:
            bad('attr.offset', av['off'], a.offset, t=t)
        if a.indirection_length != av['indir']:
            bad('attr.indirection_length', av['indir'], a.indirection_length, t=t)
        if not _val_ok(av['raw'], a.raw_value):
            bad('attr.raw_value', av['raw'], repr(a.raw_value)[:200], t=t)
        if not _val_ok(av['val'], a.value):
            bad('attr.value', av['val'], repr(a.value)[:200], t=t)
