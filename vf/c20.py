"""C20 - ARM/RISC-V build attributes and ARM unwind tables are decoded exactly.

Spec: spec/Attrs.tla (attribute sections: abstract section -> Enc -> three-level walker machine) and
spec/Ehabi.tla (.ARM.exidx/.ARM.extab: abstract entries -> words -> reader machine; prel31; the
byte-code table of EHABI 10.3), both over spec/Elf.tla for the ELF container.

G: every finished object of both writers is concretised byte for byte from the chunks the
specification computed and opened with ELFFile.
  attributes: iter_subsections -> iter_subsubsections -> iter_attributes (tag, value, extra) through
  five consumption patterns with one expectation (AttrsView): nested full; flat list at each level;
  the num_*/list properties (+ the vendor/scope/tag filters); partial then abandoned; a suspended
  iterator resumed after another one ran (interleaved).  Levels are isolated: level-2/3 patterns run
  on objects obtained by a nested-full pass.
  Client sessions (Attrs.tla, StartSession / ClientCall): call sequences on ONE fresh section / subsection /
  sub-subsection object of a fresh file - iterations abandoned after k items, complete iterations, num_* and list
  properties, iterations filtered by vendor / scope / tag, one iteration kept open in between - replayed call by call,
  every answer compared with the answer the specification logged for that call.
  EHABI: get_ehabi_infos -> num_entry/get_entry(i): corrupt, unwindable, function_offset,
  personality, bytecode_array, eh_table_offset, mnmemonic_array() (normalised: see Ehabi.tla header).
Python only concretises, calls the API, parses the library's mnemonic text into the spec's normal
form and compares."""
import io
import itertools
import json
import re
import signal
import threading

from . import core
from .core import denote
from .elfutil import concretise

LEVEL = 'model_checking'
CASE_TIMEOUT = 5.0


class _Timeout(Exception):
    pass


def _alarm(signum, frame):
    raise _Timeout()


def check(run):
    q = run.tier == 'quick'
    run.rule = ('cases = finished objects of the Attrs writer (modes tags/numbers/lists/shape) and of the Ehabi writer '
                '(modes prel/kinds/ops/seqs), one ELF image each; non-trivial = attribute section with at least one attribute '
                'or more than one record at some level / exception table with at least one non-corrupt entry; distinct by image bytes')
    run.assumptions += [
        'attribute tags are drawn from the ABI-addenda / psABI tables only (unknown tags are outside the quantifier)',
        'every generated subsection carries public-format content (vendor names aeabi/riscv/gnu/x)',
        'Tag_also_compatible_with payloads are decoded by the nested tag\'s kind (nested integer 0 and zero-final-byte encodings included)',
        '.ARM.exidx/.ARM.extab have sh_addr = sh_offset (place as address = place as file offset); e_type = ET_DYN',
        'prel31 results accepted modulo 2^32 or modulo 2^64',
        'eh_table_offset of table-based model 0 and generic entries: absent or the table offset',
        'byte-code is complete instructions padded with finish (0xb0); 0xb4/0xb5 text not asserted',
        'inline entries with personality index 1/2 are not generated']
    for cfg in ('Attrs_' + run.tier, 'Ehabi_' + run.tier) + (() if q else ('Attrs_sess3',)):
        with open('%s/cfg/%s.cfg' % (core.SPEC, cfg)) as f:
            run.assumptions += [cfg + ': ' + ' '.join(l[2:].strip() for l in f if l.startswith('\\*'))]
    res = {}
    err = []

    def tlc(mod, cfg, w):
        try:
            res[mod] = run.tlc(mod, cfg, workers=w)
        except Exception as ex:  # re-raised in the main thread
            err.append(ex)
    w = max(1, core.NPROC // 2)
    ts = {'Attrs': threading.Thread(target=tlc, args=('Attrs', 'Attrs_' + run.tier, w)),
          'Ehabi': threading.Thread(target=tlc, args=('Ehabi', 'Ehabi_' + run.tier, max(1, core.NPROC - w)))}
    for t in ts.values():
        t.start()
    old = signal.signal(signal.SIGALRM, _alarm)
    try:
        # replay of one family overlaps with the other TLC run (a subprocess)
        for mod, family, fn in (('Attrs', 'attrs', _attrs_case), ('Ehabi', 'ehabi', _ehabi_case)):
            ts[mod].join()
            if err:
                for t in ts.values():
                    t.join()
                raise err[0]
            _run_family(run, res[mod].out, family, fn)
            if mod == 'Attrs' and not q:
                # longer free sessions on a narrow population (see the cfg's comment); overlaps with the Ehabi TLC run
                _run_family(run, run.tlc('Attrs', 'Attrs_sess3', workers=2).out, 'attrs', _attrs_case)
        if not q:
            _crosscheck_readelf(run, res['Ehabi'].out)
    finally:
        signal.setitimer(signal.ITIMER_REAL, 0)
        signal.signal(signal.SIGALRM, old)
    run.validated = run.evaluations
    run.extra['exhaustive'] = True
    if not run.samples:
        run.samples.append({'note': 'no sample'})


def _sessions_of(path):
    """The finished client sessions of the Attrs specification (lines t = "sess"), by the key of their object."""
    out = {}
    with open(path) as f:
        for line in f:
            if '\\"t\\":\\"sess\\"' not in line:
                continue
            s = json.loads(json.loads(line))
            out.setdefault(s['key'], []).append(s)
    return out


def _run_family(run, path, family, fn):
    from elftools.elf.elffile import ELFFile
    seen = set()
    k = 0
    sessions = _sessions_of(path) if family == 'attrs' else {}
    nsess = {}
    for case in run.cases(path):
        if case.get('t') == 'sess':
            continue
        if case.get('key'):
            case['sessions'] = sorted(sessions.pop(case['key'], ()), key=lambda x: (x['tgt'], x['disc'], json.dumps(x['log'])))
            for x in case['sessions']:
                nsess[x['disc']] = nsess.get(x['disc'], 0) + 1
        data = concretise(case['chunks'])
        key = core.digest([family, core.b64(data)])
        if key in seen:
            continue
        seen.add(key)
        k += 1
        brief = {'family': family, 'meta': {x: case[x] for x in case if x not in ('chunks', 'view', 'sessions', 't', 'key')},
                 'bytes_b64': core.b64(data), 'view': case['view']}
        _one(run, ELFFile, family, fn, case, data, brief, key, sample=(k % 1500 == 7))
    if k == 0:
        raise core.MachineryError('no %s cases were emitted' % family)
    if sessions:
        raise core.MachineryError('%d session groups belong to no emitted %s case' % (len(sessions), family))
    if family == 'attrs':
        if not nsess:
            raise core.MachineryError('Attrs emitted no client session')
        tot = run.extra.setdefault('client_sessions', {})
        for d, n in nsess.items():
            tot[d] = tot.get(d, 0) + n


def _one(run, ELFFile, family, fn, case, data, brief, key, sample=False):
    def bad(clause, tag, exp, obs, session=None):
        run.mismatch(clause, tag, brief if session is None else dict(brief, session=session), exp, obs)
    signal.setitimer(signal.ITIMER_REAL, CASE_TIMEOUT)
    try:
        ef = ELFFile(io.BytesIO(data))
        nontriv = fn(run, ef, case, bad)
    except _Timeout:
        nontriv = True
        bad(family + '.timeout', 'case', 'terminates', 'no result after %.0f s' % CASE_TIMEOUT)
    except Exception as ex:
        import traceback
        nontriv = True
        bad(family + '.exception', type(ex).__name__, 'no exception',
            'exc:%s:%s @ %s' % (type(ex).__name__, ex, traceback.format_exc().splitlines()[-3].strip()))
    finally:
        signal.setitimer(signal.ITIMER_REAL, 0)
    run.count(key, nontrivial=bool(nontriv))
    if sample and len(run.samples) < 4:
        m = dict(brief['meta'])
        m['family'] = family
        m['file_size'] = len(data)
        m['view'] = brief['view'] if len(json.dumps(brief['view'])) < 1500 else '(%d records)' % len(brief['view'])
        run.samples.append(m)


def replay(run, path):
    from elftools.elf.elffile import ELFFile
    import base64
    rec = json.load(open(path))
    old = signal.signal(signal.SIGALRM, _alarm)
    try:
        for mm in [rec['first']] + rec.get('more', []):
            c = mm['case']
            data = base64.b64decode(c['bytes_b64'])
            case = dict(c['meta'])
            case['view'] = c['view']
            if 'session' in c:
                case['sessions'] = [c['session']]
            fam = c['family']
            _one(run, ELFFile, fam, _attrs_case if fam == 'attrs' else _ehabi_case, case, data, c, core.digest(c['bytes_b64']))
    finally:
        signal.signal(signal.SIGALRM, old)
    # report without rewriting the evidence file or the replay files
    for mm in run.mismatches:
        print('VIOLATION property=%s replay=%s' % (run.pid, path))
        print('  clause=%s tag=%s' % (mm['clause'], mm['tag']))
        print('  expected=%s' % json.dumps(mm['expected'], default=str)[:600])
        print('  observed=%s' % json.dumps(mm['observed'], default=str)[:600])
    for fid, n in sorted(run.known_hits.items()):
        print('KNOWN-FINDING: property=%s %s (%d cases)' % (run.pid, fid, n))
    print('%s replay: cases=%d violations=%d' % (run.pid, run.evaluations, run.nviol))
    run.cleanup()
    return 1 if run.mismatches else 0


# ------------------------------------------------------------------ attributes
def _voc(table):
    from elftools.elf import enums
    return set(enums.ENUM_ATTR_TAG_ARM if table == 'arm' else enums.ENUM_ATTR_TAG_RISCV)


def _tag(obs, code, names, voc):
    """The code if the library reported the tag acceptably (a standard name of the code, or the raw
    code when it knows no standard name for it), else what it reported."""
    if isinstance(obs, str):
        return code if obs.upper() in names else obs
    if obs == code and not any(n in voc for n in names):
        return code
    return obs if obs != code else 'unnamed:%r' % (obs,)


def _exp_attr(x):
    k = x['kind']
    if k == 'uleb':
        return [x['tag'], denote(x['u']), None]
    if k == 'ntbs':
        return [x['tag'], bytes(x['s']).decode('utf-8'), None]
    if k == 'compat':
        return [x['tag'], denote(x['u']), bytes(x['s']).decode('utf-8')]
    return [x['tag'], {'nested': _exp_attr(x['sub'][0])}, None]


def _obs_attr(a, x, voc):
    """Library attribute -> [tag, value, extra]; `x` (the expected attribute) only supplies the names that
    are acceptable for its tag code."""
    v = a.value
    if hasattr(v, 'tag') and hasattr(v, 'extra'):
        sub = x['sub'][0] if x is not None and x['sub'] else None
        v = {'nested': _obs_attr(v, sub, voc)}
    tag = a.tag
    if x is not None:
        tag = _tag(tag, x['tag'], x['names'], voc)
    ex = a.extra
    return [tag, v, list(ex) if isinstance(ex, (list, tuple)) else ex]


def _exp_hdr(ss):
    return [ss['scope'], ss['size'], None if ss['scope'] == 1 else [denote(n) for n in ss['numbers']]]


def _obs_hdr(o, ss):
    return _hdr(o.header, ss)


def _hdr(h, ss):
    tag = h.tag
    if ss is not None:
        tag = _tag(tag, ss['scope'], ss['names'], {'TAG_FILE', 'TAG_SECTION', 'TAG_SYMBOL'})
    ex = h.extra
    if ss is not None and ss['scope'] == 1 and ex == []:
        ex = None                     # file scope has no numbers: "none" and "empty" are the same observation
    return [tag, h.value, list(ex) if isinstance(ex, (list, tuple)) else ex]


def _at(lst, i):
    return lst[i] if lst is not None and i < len(lst) else None


def _take(it, n):
    """At most n+3 items of an iterator; exceptions become a trailing marker."""
    out = []
    try:
        for x in itertools.islice(it, n + 3):
            out.append(x)
    except _Timeout:
        raise
    except Exception as ex:
        out.append({'exc': type(ex).__name__})
    return out


def _lazy(it, n):
    """Like _take, but lazily: the consumer's work happens between two next() calls (nested consumption)."""
    it = itertools.islice(it, n + 3)
    while True:
        try:
            x = next(it)
        except StopIteration:
            return
        except _Timeout:
            raise
        except Exception as ex:
            yield {'exc': type(ex).__name__}
            return
        yield x


def _cnt(n):
    return 'n>=2' if n >= 2 else 'n<=1'


def _attrs_case(run, ef, case, bad):
    table = case['table']
    view = case['view']
    voc = _voc(table)
    name = bytes(case['secname']).decode()
    sec = ef.get_section_by_name(name)
    want_cls = 'ARMAttributesSection' if table == 'arm' else 'RISCVAttributesSection'
    if sec is None or type(sec).__name__ != want_cls:
        bad('attrs.section', table, want_cls, None if sec is None else type(sec).__name__)
        return True
    nsub = len(view)
    exp_subs = [[bytes(s['vendor']).decode('utf-8'), s['length']] for s in view]
    exp_full = [[bytes(s['vendor']).decode('utf-8'), s['length'],
                 [_exp_hdr(ss) + [[_exp_attr(a) for a in ss['attrs']]] for ss in s['subsubs']]] for s in view]

    # ---- pattern 1: nested full (also collects the objects the level-2/3 patterns run on)
    def nested(keep=None):
        out = []
        for i, s in enumerate(_lazy(sec.iter_subsections(), nsub)):
            if isinstance(s, dict):
                out.append(s)
                break
            xs = _at(view, i)
            sss = []
            for j, ss in enumerate(_lazy(s.iter_subsubsections(), len(xs['subsubs']) if xs else 3)):
                if isinstance(ss, dict):
                    sss.append(ss)
                    break
                xss = _at(xs['subsubs'], j) if xs else None
                attrs = []
                for k, a in enumerate(_lazy(ss.iter_attributes(), len(xss['attrs']) if xss else 3)):
                    attrs.append(a if isinstance(a, dict) else _obs_attr(a, _at(xss['attrs'], k) if xss else None, voc))
                sss.append(_obs_hdr(ss, xss) + [attrs])
                if keep is not None:
                    keep.append((i, j, ss))
            out.append([s['vendor_name'], s['length'], sss])
            if keep is not None:
                keep.append((i, None, s))
        return out
    objs = []
    obs = nested(objs)
    if core.jnorm(obs) != core.jnorm(exp_full):
        _nested_mismatch(bad, table, view, exp_full, obs)
        return True                          # the objects are not trustworthy: nothing else to learn from this image

    # ---- level 1: the section's subsection iterator
    def subs_flat(it):
        return [x if isinstance(x, dict) else [x['vendor_name'], x['length']] for x in _take(it, nsub)]
    t1 = _cnt(nsub)
    flat = subs_flat(sec.iter_subsections())
    flat_ok = flat == exp_subs
    if not flat_ok:
        bad('subsections.flat', t1, exp_subs, flat)
    vend = _take((s['vendor_name'] for s in sec.iter_subsections()), nsub)
    if vend != [e[0] for e in exp_subs] and flat_ok:
        bad('subsections.flat', t1, [e[0] for e in exp_subs], vend)
    if flat_ok:
        n = core.norm_exc(lambda: sec.num_subsections)
        lst = core.norm_exc(lambda: [[x['vendor_name'], x['length']] for x in sec.subsections])
        if n != nsub or lst != exp_subs:
            bad('subsections.props', t1, [nsub, exp_subs], [n, lst])
        for v in sorted({e[0] for e in exp_subs}):
            got = subs_flat(sec.iter_subsections(vendor_name=v))
            if got != [e for e in exp_subs if e[0] == v]:
                bad('subsections.filter', t1, [e for e in exp_subs if e[0] == v], got)
    it = sec.iter_subsections()
    first = subs_flat(itertools.islice(it, 1))
    again = nested()
    if core.jnorm(again) != core.jnorm(exp_full):
        bad('subsections.abandoned', t1, 'nested-full result unchanged after an abandoned iterator', again)
    rest = subs_flat(it)
    if first + rest != exp_subs:
        bad('subsections.interleaved', t1, exp_subs, first + rest)

    # ---- level 2: each subsection's sub-subsection iterator
    for i, j, s in objs:
        if j is not None:
            continue
        xs = view[i]
        m = len(xs['subsubs'])
        exp_h = [_exp_hdr(ss) for ss in xs['subsubs']]
        t2 = _cnt(m)

        def hdrs(it):
            return [x if isinstance(x, dict) else _obs_hdr(x, _at(xs['subsubs'], k)) for k, x in enumerate(_take(it, m))]
        flat = hdrs(s.iter_subsubsections())
        flat_ok = flat == exp_h
        if not flat_ok:
            bad('subsubsections.flat', t2, exp_h, flat)
        if flat_ok:
            n = core.norm_exc(lambda: s.num_subsubsections)
            lst = core.norm_exc(lambda: hdrs(iter(s.subsubsections)))
            if n != m or lst != exp_h:
                bad('subsubsections.props', t2, [m, exp_h], [n, lst])
            for sc in sorted({ss['scope'] for ss in xs['subsubs']}):
                nm = ('TAG_FILE', 'TAG_SECTION', 'TAG_SYMBOL')[sc - 1]
                got = [x if isinstance(x, dict) else _obs_hdr(x, None) for x in _take(s.iter_subsubsections(scope=nm), m)]
                want = [[nm] + h[1:] for h in exp_h if h[0] == sc]
                if got != want:
                    bad('subsubsections.filter', t2, want, got)
        it = s.iter_subsubsections()
        first = hdrs(itertools.islice(it, 1))
        again = []
        for k, ss in enumerate(_lazy(s.iter_subsubsections(), m)):
            if isinstance(ss, dict):
                again.append(ss)
                break
            xss = _at(xs['subsubs'], k)
            again.append(_obs_hdr(ss, xss) + [[a if isinstance(a, dict) else _obs_attr(a, _at(xss['attrs'], q) if xss else None, voc)
                                               for q, a in enumerate(_take(ss.iter_attributes(), len(xss['attrs']) if xss else 3))]])
        if core.jnorm(again) != core.jnorm(exp_full[i][2]):
            bad('subsubsections.abandoned', t2, 'nested result unchanged after an abandoned iterator', again)
        rest = [x if isinstance(x, dict) else _obs_hdr(x, _at(xs['subsubs'], k + 1)) for k, x in enumerate(_take(it, m))]
        if first + rest != exp_h:
            bad('subsubsections.interleaved', t2, exp_h, first + rest)

    # ---- level 3: each sub-subsection's attribute iterator
    for i, j, ss in objs:
        if j is None:
            continue
        xss = view[i]['subsubs'][j]
        m = len(xss['attrs'])
        exp_a = [_exp_attr(a) for a in xss['attrs']]
        t3 = _cnt(m)

        def attrs(it, off=0, xa=True):
            return [a if isinstance(a, dict) else _obs_attr(a, _at(xss['attrs'], k + off) if xa else None, voc)
                    for k, a in enumerate(_take(it, m))]
        flat = attrs(ss.iter_attributes())
        flat_ok = core.jnorm(flat) == core.jnorm(exp_a)
        if not flat_ok:
            bad('attributes.flat', t3, exp_a, flat)
        if flat_ok:
            # the scope header may or may not be counted as an attribute (library's choice): n or n+1, consistently
            n = core.norm_exc(lambda: ss.num_attributes)
            lst = core.norm_exc(lambda: list(ss.attributes))
            ok = isinstance(lst, list) and n == len(lst) and n in (m, m + 1)
            if ok:
                body = lst[1:] if n == m + 1 else lst
                ok = core.jnorm(attrs(iter(body))) == core.jnorm(exp_a)
                if ok and n == m + 1:
                    ok = _hdr(lst[0], xss) == _exp_hdr(xss)
            if not ok:
                bad('attributes.props', t3, {'num_attributes': [m, m + 1], 'attributes': exp_a},
                    {'num_attributes': n, 'attributes': lst if isinstance(lst, dict) else attrs(iter(lst))})
            for nm in sorted({a.tag for a in ss.iter_attributes() if isinstance(a.tag, str)}):
                qs = [q for q in range(m) if nm.upper() in xss['attrs'][q]['names']]
                want = [exp_a[q] for q in qs]
                got = [a if isinstance(a, dict) else _obs_attr(a, xss['attrs'][qs[k]] if k < len(qs) else None, voc)
                       for k, a in enumerate(_take(ss.iter_attributes(tag=nm), m))]
                if core.jnorm(got) != core.jnorm(want):
                    bad('attributes.filter', t3, want, got)
        it = ss.iter_attributes()
        first = attrs(itertools.islice(it, 1))
        again = attrs(ss.iter_attributes())
        if core.jnorm(again) != core.jnorm(exp_a):
            bad('attributes.abandoned', t3, exp_a, again)
        rest = attrs(it, off=1)
        if core.jnorm(first + rest) != core.jnorm(exp_a):
            bad('attributes.interleaved', t3, exp_a, first + rest)
    _attrs_sessions(ef, case, name, voc, bad)
    return nsub > 1 or any(len(s['subsubs']) > 1 or any(ss['attrs'] for ss in s['subsubs']) for s in view)


def _nth(it, n):
    for x in itertools.islice(it, n, n + 1):
        return x
    raise LookupError('no item %d' % n)


def _attrs_sessions(ef0, case, name, voc, bad0):
    """Client sessions of the specification: each on ONE fresh object (section / subsection / sub-subsection) of a file object of
    its own; every call's answer against the logged one (positions of the children the call yields; num: the count)."""
    from elftools.elf.elffile import ELFFile
    sessions = case.get('sessions') or ()
    if not sessions:
        return
    view = case['view']
    data = ef0.stream.getvalue()
    libtags = {}
    for s in sessions:
        lvl, i, j = s['tgt']
        signal.setitimer(signal.ITIMER_REAL, CASE_TIMEOUT)          # every session has the time budget of a case

        def bad(clause, exp, obs, s=s, lvl=lvl):
            # the session travels with the mismatch (replay), the tag names level and discipline
            bad0(clause, 'level%d/%s' % (lvl, s['disc']), exp, obs, session=s)
        try:
            sec = ELFFile(io.BytesIO(data)).get_section_by_name(name)
            if lvl == 1:
                obj, kids = sec, view
            elif lvl == 2:
                obj, kids = _nth(sec.iter_subsections(), i - 1), view[i - 1]['subsubs']
            else:
                obj, kids = _nth(_nth(sec.iter_subsections(), i - 1).iter_subsubsections(), j - 1), view[i - 1]['subsubs'][j - 1]['attrs']
                if (i, j) not in libtags:         # the names the library gives the tags: read on another file object
                    ref = _nth(_nth(ELFFile(io.BytesIO(data)).get_section_by_name(name).iter_subsections(), i - 1).iter_subsubsections(), j - 1)
                    libtags[(i, j)] = [a.tag for a in ref.iter_attributes()]
        except _Timeout:
            raise
        except Exception as ex:
            bad('session.target', 'the object', 'exc:%s:%s' % (type(ex).__name__, ex))
            continue
        n = len(kids)
        if lvl == 1:
            exp = [[bytes(x['vendor']).decode('utf-8'), x['length']] for x in kids]
            it_fn, num_fn, list_fn, fkw = obj.iter_subsections, (lambda: obj.num_subsections), (lambda: obj.subsections), 'vendor_name'
            keys = [e[0] for e in exp]

            def norm(x, xk):
                return [x['vendor_name'], x['length']]
        elif lvl == 2:
            exp = [_exp_hdr(x) for x in kids]
            it_fn, num_fn, list_fn, fkw = obj.iter_subsubsections, (lambda: obj.num_subsubsections), (lambda: obj.subsubsections), 'scope'
            keys = [('TAG_FILE', 'TAG_SECTION', 'TAG_SYMBOL')[x['scope'] - 1] for x in kids]

            def norm(x, xk):
                return _obs_hdr(x, xk)
        else:
            exp = [_exp_attr(x) for x in kids]
            it_fn, num_fn, list_fn, fkw = obj.iter_attributes, (lambda: obj.num_attributes), (lambda: obj.attributes), 'tag'
            keys = libtags[(i, j)]
            if len(keys) != n:
                continue                  # the plain enumeration is already wrong (reported by the patterns above)

            def norm(x, xk):
                return _obs_attr(x, xk, voc)

        def items(lst, ans):
            return [x if isinstance(x, dict) else norm(x, kids[ans[m] - 1] if m < len(ans) else None) for m, x in enumerate(lst)]
        it = None
        for c, (op, q, ans) in enumerate(s['log']):
            want = None if op == 'num' else [exp[k - 1] for k in ans]
            if op == 'open':
                it = it_fn()
                continue
            if op == 'num':
                want, got = ans[0], core.norm_exc(num_fn)
                if lvl == 3 and got == ans[0] + 1:
                    got = ans[0]            # the scope header may be counted as an attribute (library's choice)
            elif op == 'list':
                lst = core.norm_exc(list_fn)
                if lvl == 3 and isinstance(lst, list) and len(lst) == n + 1:
                    lst = lst[1:]
                got = lst if isinstance(lst, dict) else items(lst, ans)
            elif op == 'step':
                got = items(_take(itertools.islice(it, 1), 1), ans)
            elif op == 'take':
                got = items(_take(itertools.islice(it_fn(), q), q), ans)          # the iterator is dropped after q items
            elif op == 'all':
                got = items(_take(it_fn(), n), ans)
            else:                           # filt / ftake: by the key of child q (0: a key no child has)
                key = keys[q - 1] if q else ('nosuch' if lvl == 1 else 'TAG_NOSUCH')
                if not isinstance(key, str):
                    break                 # the library has no name for this tag: cannot be asked for by name
                fit = it_fn(**{fkw: key})
                got = items(_take(itertools.islice(fit, 1), 1) if op == 'ftake' else _take(fit, n), ans)
            if core.jnorm(got) != core.jnorm(want):
                bad('session.%s' % op, {'call': c, 'op': op, 'arg': q, 'answer': want, 'after': s['log'][:c]}, {'call': c, 'answer': got})
                break                       # the first wrong answer of a session is the finding


def _nested_mismatch(bad, table, view, exp, obs):
    """Name the first record that differs under nested-full consumption."""
    for i, e in enumerate(exp):
        o = _at(obs, i)
        if not isinstance(o, list) or o[:2] != e[:2]:
            return bad('nested.subsection', table, e[:2], o[:2] if isinstance(o, list) else o)
        for j, es in enumerate(e[2]):
            os_ = _at(o[2], j)
            if not isinstance(os_, list) or os_[:3] != es[:3]:
                return bad('nested.subsubsection', '%s:scope=%d' % (table, es[0]), es[:3], os_[:3] if isinstance(os_, list) else os_)
            for k, ea in enumerate(es[3]):
                oa = _at(os_[3], k)
                if core.jnorm(oa) != core.jnorm(ea):
                    x = view[i]['subsubs'][j]['attrs'][k]
                    return bad('nested.attribute', '%s:%s' % (table, x['kind']), ea, oa)
            if len(os_[3]) != len(es[3]):
                return bad('nested.attribute', '%s:count' % table, len(es[3]), os_[3][len(es[3]):])
        if len(o[2]) != len(e[2]):
            return bad('nested.subsubsection', '%s:count' % table, len(e[2]), o[2][len(e[2]):])
    return bad('nested.subsection', '%s:count' % table, len(exp), obs[len(exp):])


# ------------------------------------------------------------------ EHABI
_ALIAS = {'fp': 'r11', 'ip': 'r12', 'sp': 'r13', 'lr': 'r14', 'pc': 'r15', 'sl': 'r10', 'sb': 'r9'}


def _norm_mnemonic(text):
    """The library's disassembly text -> the specification's normal form [class, number, registers]."""
    t = text.strip()
    m = re.match(r'^vsp = vsp ([+-]) (\d+)$', t)
    if m:
        return ['vsp' + m.group(1), int(m.group(2)), []]
    m = re.match(r'^vsp = r(\d+)$', t)
    if m:
        return ['vsp=r', int(m.group(1)), []]
    m = re.match(r'^pop \{(.*)\}$', t)
    if m:
        regs = [r.strip() for r in m.group(1).split(',') if r.strip()]
        return ['pop', None, [_ALIAS.get(r.lower(), r) for r in regs]]
    low = t.lower()
    for c in ('refuse', 'reserved', 'finish', 'spare'):
        if low.startswith(c):
            return [c, None, []]
    return ['?', None, [t]]


def _norm_binutils(text):
    """GNU readelf's wording of the same table (cross-check only)."""
    t = text.strip()
    if t.startswith('[') and t.endswith(']'):
        t = t[1:-1].lower()
        if t == 'unsupported opcode':          # readelf's word for the one-byte spare encodings
            t = 'spare'
    m = re.match(r'^pop \{(.*)\}$', t)
    if m:
        regs = []
        for tok in [x.strip() for x in m.group(1).split(',') if x.strip()]:
            r = re.match(r'^([A-Za-z]+)(\d+)-([A-Za-z]+)(\d+)$', tok)
            if r:
                regs += ['%s%d' % (r.group(1), k) for k in range(int(r.group(2)), int(r.group(4)) + 1)]
            else:
                regs.append(tok)
        regs = [re.sub(r'^D(\d+)$', r'd\1', _ALIAS.get(x.lower(), x)) for x in regs]
        return ['pop', None, regs]
    return _norm_mnemonic(t)


def _crosscheck_readelf(run, path):
    """Thorough tier: the specification's transcription of EHABI 10.3 and of prel31 against GNU readelf -u on the
    same images (an independent reader).  Validates the transcription; never the verdict."""
    import os
    import subprocess
    import tempfile
    exe = '/usr/bin/readelf'
    if not os.path.exists(exe):
        run.notes.append('crosscheck: %s not available' % exe)
        return
    n = agree = 0
    diffs = []
    fd, tmp = tempfile.mkstemp(suffix='.elf')
    os.close(fd)
    try:
        for case in run.cases(path):
            if case['mode'] not in ('ops', 'prel') or case['n'] != 1:
                continue
            x = case['view'][0]
            with open(tmp, 'wb') as f:
                f.write(concretise(case['chunks']))
            out = subprocess.run([exe, '-u', tmp], stdout=subprocess.PIPE, stderr=subprocess.STDOUT, text=True).stdout
            n += 1
            ok = True
            m = re.search(r'^(0x[0-9a-f]+)(?: <[^>]*>)?: ', out, re.M)
            if not m or int(m.group(1), 16) & 0xffffffff != denote(x['fn32']):
                ok = False
                diffs.append({'what': 'function', 'spec': denote(x['fn32']), 'readelf': m.group(1) if m else None})
            lines = [re.match(r'^\s+((?:0x[0-9a-f]{2} )+)\s*(.*)$', l) for l in out.splitlines()]
            got = [[[int(t, 16) for t in mm.group(1).split()], _norm_binutils(mm.group(2))] for mm in lines if mm]
            exp = [[mn['b'], _exp_mnemonic(mn['m'])] for mn in x['mn']]
            for w, g in zip(exp, got):
                if w[1][0] == 'unspecified' or len(w[0]) > 10:       # 0xb4/0xb5; readelf reads at most 9 ULEB128 bytes
                    break
                if w != g:
                    ok = False
                    diffs.append({'what': 'mnemonic', 'spec': w, 'readelf': g})
                    break
            agree += ok
    finally:
        os.unlink(tmp)
    run.extra['crosscheck_readelf_u'] = {'images': n, 'agree': agree, 'differences': diffs[:10]}
    if diffs:
        run.notes.append('crosscheck: GNU readelf -u differs from the specification on %d of %d images (see coverage.crosscheck_readelf_u)'
                         % (n - agree, n))


def _exp_mnemonic(m):
    n = int.from_bytes(bytes(m['n']), 'little') if m['n'] else None
    return [m['c'], n, list(m['regs'])]


def _ehabi_case(run, ef, case, bad):
    view = case['view']
    infos = ef.get_ehabi_infos()
    if not isinstance(infos, list) or len(infos) != 1:
        bad('ehabi.infos', 'one', 1, None if infos is None else len(infos))
        return True
    info = infos[0]
    if info.num_entry() != len(view):
        bad('ehabi.num_entry', 'n', len(view), info.num_entry())
        return True
    for i, x in enumerate(view):
        kind = x['kind']
        wk = x['wkind']
        try:
            e = info.get_entry(i)
        except _Timeout:
            raise
        except Exception as ex:
            bad('entry.exception', wk, 'an entry', 'exc:%s:%s' % (type(ex).__name__, ex))
            continue
        if bool(e.corrupt) != (kind == 'corrupt'):
            bad('entry.corrupt', wk, kind == 'corrupt', e.corrupt)
            continue
        if kind == 'corrupt':
            continue
        if bool(e.unwindable) != (kind != 'cantunwind'):
            bad('entry.unwindable', wk, kind != 'cantunwind', e.unwindable)
        fn = {denote(x['fn32']), denote(x['fn64'])}
        if e.function_offset not in fn:
            d = (denote(x['fn32']) - x['place']) & 0xffffffff
            bad('entry.function_offset', 'b30=%d,b26=%d' % ((d >> 30) & 1, (d >> 26) & 1), sorted(fn), e.function_offset)
        T = x['tab']
        if kind == 'cantunwind':
            if e.bytecode_array or e.mnmemonic_array():
                bad('entry.bytecode', wk, None, e.bytecode_array)
            continue
        if kind == 'generic':
            ps = {denote(x['pers32']), denote(x['pers64'])}
            if e.personality not in ps:
                d = (denote(x['pers32']) - T) & 0xffffffff
                bad('entry.personality', 'generic:b30=%d,b26=%d' % ((d >> 30) & 1, (d >> 26) & 1), sorted(ps), e.personality)
            if e.bytecode_array or e.mnmemonic_array():
                bad('entry.bytecode', wk, None, e.bytecode_array)
            if e.eh_table_offset not in (None, T):
                bad('entry.eh_table_offset', wk, [None, T], e.eh_table_offset)
            continue
        if e.personality != denote(x['pers32']):
            bad('entry.personality', wk, denote(x['pers32']), e.personality)
        want_t = {'inline': (None,), 'table0': (None, T)}.get(kind, (T,))
        if e.eh_table_offset not in want_t:
            bad('entry.eh_table_offset', wk, list(want_t), e.eh_table_offset)
        if e.bytecode_array is None or list(e.bytecode_array) != x['code']:
            bad('entry.bytecode', wk, x['code'], e.bytecode_array)
            continue
        has_uleb = any(m['b'][0] == 0xb2 for m in x['mn'])
        try:
            items = e.mnmemonic_array()
            got = [[list(it.bytecode), _norm_mnemonic(it.mnemonic)] for it in items]
        except _Timeout:
            raise
        except Exception as ex:
            bad('bytecode.mnemonic', 'uleb' if has_uleb else 'other', [[m['b'], _exp_mnemonic(m['m'])] for m in x['mn']],
                'exc:%s:%s' % (type(ex).__name__, ex))
            continue
        exp = [[m['b'], _exp_mnemonic(m['m'])] for m in x['mn']]
        for k in range(max(len(exp), len(got))):
            w, g = _at(exp, k), _at(got, k)
            if w is not None and g is not None and w[0] == g[0] and (w[1][0] == 'unspecified' or w[1] == g[1]):
                continue
            first = w if w is not None else exp[-1]
            bad('bytecode.mnemonic', 'uleb' if first[0][0] == 0xb2 else 'other', exp, got)
            break
    return any(x['kind'] != 'corrupt' for x in view)
