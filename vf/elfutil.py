"""Format-agnostic helpers shared by the ELF-level drivers: the sparse writer, the name/code
comparison rule, and vocabulary (the set of names the library claims to know; never values)."""
import io
import json
import os

from . import core

_REG = None


def registry():
    global _REG
    if _REG is None:
        _REG = json.load(open(os.path.join(core.VERIF, 'tools', 'registry.json')))
    return _REG


def concretise(chunks):
    """chunks: [[offset, [bytes], repeat], ...] exactly as the specification emitted them."""
    size = 0
    for off, bs, rep in chunks:
        size = max(size, off + len(bs) * rep)
    buf = bytearray(size)
    for off, bs, rep in chunks:
        if bs:
            buf[off:off + len(bs) * rep] = bytes(bs) * rep
    return bytes(buf)


def vocab(*tables):
    """Names the tree under test has in the given elf.enums tables (keys only)."""
    from elftools.elf import enums
    names = set()
    for t in tables:
        for k in dir(enums):
            if k == t or (t.endswith('*') and k.startswith(t[:-1])):
                d = getattr(enums, k)
                if isinstance(d, dict):
                    names.update(x for x in d if isinstance(x, str) and x != '_default_')
    return names


def enum_verdict(obs, code, names, voc):
    """The property's rule: a code with a standard name (that the library knows) is reported by
    that name, every other code as the raw integer.  `names`: the specification's names for the
    code in the applicable family/overlay.  Returns True / False / None (not asserted: the
    library used a name the registry does not define at all)."""
    acceptable = [n for n in names if n in voc]
    if isinstance(obs, str):
        if obs in names:
            return True
        if obs in registry()['names']:
            return False            # a registry name, but not one for this code under this overlay
        return None
    if acceptable:
        return False                # should have been reported by name
    return obs == code


class CountingStream(io.BytesIO):
    pass
