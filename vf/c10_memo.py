"""C10, third part: every order of queries over memoised objects (spec/Memo.tla), replayed on a synthetic
call-frame section written by the specification and on corpus files; truth = the same query on a fresh object."""
import io
import os

from . import core
from .c10_api import _c, _cfi_entry, _lp_entry


def _frame_world(blob):
    from elftools.dwarf.callframe import CallFrameInfo
    from elftools.dwarf.structs import DWARFStructs
    st = DWARFStructs(little_endian=True, dwarf_format=32, address_size=4)
    ents = CallFrameInfo(io.BytesIO(blob), len(blob), 0, st).get_entries()

    def q(k):
        e = ents[k % len(ents)]
        d = e.get_decoded()
        return (_cfi_entry(e), tuple(_c(r) for r in d.table), tuple(d.reg_order))
    return q


def _file_worlds(path):
    """Factories of memoised-object worlds on one corpus file."""
    from elftools.elf.elffile import ELFFile
    data = open(path, 'rb').read()

    def eh(kind):
        def make():
            ef = ELFFile(io.BytesIO(data))
            di = ef.get_dwarf_info()
            ents = [e for e in (di.EH_CFI_entries() if kind == 'eh' else di.CFI_entries()) if hasattr(e, 'get_decoded')]

            def q(k):
                # objects 1..4: the first CIE, two FDEs that share it, an FDE far away
                e = ents[[0, 1, 2, len(ents) - 1][k % 4] % len(ents)]
                d = e.get_decoded()
                return (e.offset, tuple(_c(r) for r in d.table), tuple(d.reg_order))
            return q
        return make

    def lines():
        ef = ELFFile(io.BytesIO(data))
        di = ef.get_dwarf_info()
        cus = list(di.iter_CUs())

        def q(k):
            lp = di.line_program_for_CU(cus[k % len(cus)])
            if lp is None:
                return None
            ents = lp.get_entries()
            return (len(ents), tuple(_lp_entry(e) for e in ents[:30]), _c(lp.header.get('file_entry', []))[:6])
        return q

    def names():
        ef = ELFFile(io.BytesIO(data))
        tabs = [s for s in ef.iter_sections() if type(s).__name__ == 'SymbolTableSection']
        pool = []
        for t in tabs[:2]:
            pool += [(t.name, t.get_symbol(i).name) for i in range(min(t.num_symbols(), 12))]

        def q(k):
            if not pool:
                return None
            tn, nm = pool[(k * 5) % len(pool)]
            r = ef.get_section_by_name(tn).get_symbol_by_name(nm)
            return None if r is None else tuple((s.name, _c(s.entry)) for s in r)
        return q
    return {'eh_decoded': eh('eh'), 'lines': lines, 'names': names}


MEMO_FILES = ['test/testfiles_for_unittests/sample_exe64.elf', 'test/testfiles_for_unittests/dwarfv5_basic.elf',
              'test/testfiles_for_readelf/dwarf_test_versions_mix.elf', 'test/testfiles_for_unittests/simple_gcc.elf.arm']


def memo_histories(run):
    res = run.tlc('Memo', 'Memo_quick', workers=2)
    cases = list(run.cases(res.out))
    if len(cases) < 16:
        raise core.MachineryError('Memo emitted %d histories' % len(cases))
    blob = bytes(cases[0]['frame'])
    worlds = [('frame.synthetic', lambda: _frame_world(blob))]
    for rel in (MEMO_FILES[:2] if run.tier == 'quick' else MEMO_FILES):
        p = os.path.join(core.REPO, rel)
        if os.path.exists(p) and os.path.getsize(p):
            for name, mk in _file_worlds(p).items():
                worlds.append(('%s.%s' % (os.path.basename(rel), name), mk))
    n = 0
    for wname, mk in worlds:
        truth = {}

        def fresh(k):
            if k not in truth:
                try:
                    with core.guard(30):
                        truth[k] = mk()(k)
                except Exception as ex:            # noqa
                    truth[k] = ('exc', type(ex).__name__)
            return truth[k]
        usable = True
        for ci, c in enumerate(cases):
            if not usable:
                break
            if run.tier == 'quick' and wname != 'frame.synthetic' and ci % 5:
                continue
            try:
                with core.guard(30):
                    q = mk()
            except Exception as ex:                # noqa
                run.notes.append('memo world %s not available (%s)' % (wname, type(ex).__name__))
                usable = False
                break
            for i, k in enumerate(c['hist']):
                try:
                    with core.guard(30):
                        got = q(k)
                except Exception as ex:            # noqa
                    got = ('exc', type(ex).__name__)
                want = fresh(k)
                n += 1
                if got != want:
                    run.mismatch('memo.' + wname.split('.')[-1], wname, {'world': wname, 'history': c['hist'][:i + 1]},
                                 repr(want)[:300], repr(got)[:300])
                    break
                run.validated += 1
            run.count(('memo', wname, tuple(c['hist'])), nontrivial=True)
    run.extra['memo_steps'] = n
    run.extra['memo_worlds'] = [w for w, _ in worlds]
