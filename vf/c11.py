"""C11 - the DWARF view is invariant under container encoding of the same debug data.

Spec: spec/Container.tla (over Elf.tla for the container, DieEnc.tla for the payload).
G (model_checking): every final state of the loading-pipeline machine comes with the ELF image(s)
the specification wrote for it (opened file, separate debug file behind .gnu_debuglink, supplementary
file) and with the outcome the machine computed (loaded / nodwarf / error kind, supplementary loaded?,
presence answers, link record).  The driver writes the real CRC-32 of the linked file (or a wrong
one) into the slot the specification designates, opens the image with ELFFile (with a dict-backed
stream loader when the state has one), and compares: has_dwarf_info(strict), has_dwarf_link,
get_dwarf_link, the exception class on rejected states, and a FULL dump of the DWARFInfo (units,
every DIE with attributes and resolved strings, line programs, .debug_frame / .eh_frame entries with
decoded tables) against the dump of the plain encoding of the same payload and against the
specification's view of the payload's units (C04's view).
Repeated questions: for every maximal sequence of questions the specification's client asks the loaded object
(Container!Ask: "name" = DWARFInfo.parse_debugsupinfo(), "sup" = ELFFile.get_supplementary_dwarfinfo(dwarfinfo), "view" =
the full dump of the object again) the driver opens the image afresh, loads once and asks in that order; every answer must
be the one TLC wrote next to the question (a function of the configuration, whatever was asked before).
Options: the cases of the families "rlink" (a relocatable carrier with one S + A relocation on .debug_info, opened directly or
behind a link) and "chain" carry relocate_dwarf_sections in {True, False}; the driver passes it to get_dwarf_info next to
follow_links.  With False the expected view is the stored (unrelocated) one - the specification's view of THAT unit and the
dump of the plain, link-free object opened with the same option.  An unstripped file with a link names a file with another
payload: its own data must be what is loaded.  Link targets that are present but not decodable (the debug file / the
supplementary file written under a bad plan, or not an ELF file): when the machine reaches the target the load must end
with the target's own error (outcome error:<kind>), when it does not reach it the target is never read.
Section types and the set of debug sections (round 5): the families "stype" (debug sections typed SHT_MIPS_DWARF / .eh_frame typed
SHT_X86_64_UNWIND / an application type, x encodings, bad sizes, links) and "full" (a payload that uses every debug section name of
DWARF 4 resp. 5, encodings chosen per section: uniform and one-against-the-rest).  The dump covers what those sections contribute:
type units, aranges, pubnames / pubtypes, all location / range lists and the ones the entries designate; the reference of every
payload is also compared with the abstract tables the specification wrote the sections from (view.lines, view.aranges, view.pubnames,
view.pubtypes, view.loc, view.ranges, view.loclists, view.rnglists, view.frame, view.types) and must have no unreadable part
(ref.exception).  The full payload is written in the 32-bit DWARF format only.
Metamorphic part: the same container transforms are applied harness-side to corpus files (section
contents rewritten generically through the record layouts the specification exports; zlib levels
0/1/6/9; SHF_COMPRESSED, .zdebug renaming, per-section mixtures of plain / SHF_COMPRESSED / .zdebug, stripping + .gnu_debuglink with right/wrong CRC,
decompression of already compressed files, supplementary pairs through a loader; an added .gnu_debuglink to an unrelated
file on the unstripped file in each encoding; relocatable objects re-encoded / split and read with relocate_dwarf_sections=False
against the plain object read the same way); thorough adds
objcopy 2.40 as an independent transformer.  Dumps must equal the dump of the untouched file.

Error classes (property text): CRC mismatch, bad declared size, unknown compression type ->
ELFError or a subclass; bad .zdebug framing (magic, size, truncated) -> AssertionError or ELFError.
A rejection may surface late (lazy decompression) but then as the data path's own error class, not as a parse error over
accepted garbage; a checksum cannot be checked late.

Deviations of the unchanged tree found by this check (fixes/C11-*.patch):
 * zdebug-per-section: get_dwarf_info renames ALL section names to .z* once .zdebug_info exists: .gnu_debugaltlink is
   looked up as .zgnu_debugaltlink (supplementary file silently not loaded: sup_loaded:{sup,chain}:altlink/plan=z,
   corpus.sup_loaded:zdebug*:exe/sup); sections the GNU tools left as .debug_X because they do not shrink are not found
   (dump:enc:nolink/plan=z_mixed, corpus.dump:zdebug-smaller:exe, objcopy.zlib-gnu); relocations of a relocatable file are
   applied to the still compressed .zdebug bytes (corpus.exception:{zdebug,zdebug-smaller,split.zdebug}:rel -> zlib.error).
 * compressed-size-too-small: Section.data() inflates at most ch_size bytes, so a declared size SMALLER than the inflated
   size is accepted and the data silently truncated (rejected:enc:nolink/plan=gabi_smallsize).

Not asserted: .eh_frame tables reached through a debug link in corpus/objcopy files (objcopy
--only-keep-debug turns .eh_frame into NOBITS); whether the loader is consulted when links are not
followed; an unstripped file with a wrong-CRC link (either answer, see Container.tla)."""
import binascii
import io
import json
import os
import shutil
import subprocess
import tempfile
import zlib

from . import core
from .core import denote
from .elfutil import concretise

LEVEL = 'model_checking'

UT = os.path.join('test', 'testfiles_for_unittests')
RE = os.path.join('test', 'testfiles_for_readelf')
# (file, supplementary file or None)
CORPUS_QUICK = [(UT + '/sample_exe64.elf', None), (RE + '/simple_mips_gcc.o.elf', None), (UT + '/dwarfv5_basic.elf', None),
                (RE + '/gcc48-simple.o', None), (UT + '/test_gnudebugaltlink1.debug', UT + '/test_gnudebugaltlink.common'),
                (UT + '/test_debugsup1.debug', UT + '/test_debugsup.common'), (UT + '/exe_solaris32_cc.sparc.elf', None),
                (RE + '/s390x-relocs.o.elf', None), (RE + '/reloc_arm_gcc.o.elf', None), (RE + '/dwarf_v4cie.elf', None)]
CORPUS_THOROUGH = CORPUS_QUICK + [
    (UT + '/exe_solaris64_cc.sparc.elf', None), (UT + '/aarch64_be_gnu_hash.so.elf', None),
    (RE + '/powerpc64-relocs-le.o.elf', None), (RE + '/aarch64-relocs-le.o.elf', None),
    (UT + '/lambda.elf', None), (UT + '/debug_info.elf', None), (UT + '/dwarf_llpair.elf', None),
    (RE + '/dwarf_test_versions_mix.elf', None), (RE + '/dwarf_lineprogramv5.elf', None), (RE + '/cuv5_x86-64_gcc.so.elf', None),
    (RE + '/penalty_64_clang.o.elf', None), (RE + '/update32.o.elf', None), (UT + '/debuglink.debug', None),
    (UT + '/dwarf_v5_forms.debug', None), (UT + '/pascalenum.o', None), (UT + '/dwarf_debug_types.elf', None),
    (UT + '/compressed_64.o', None), (UT + '/compressed_32.o', None), (RE + '/exe_compressed64.elf', None)]

ERR_CLASSES = {'crc': ('ELFError',), 'size': ('ELFError',), 'type': ('ELFError',), 'nofile': ('ELFError',), 'short': ('ELFError',),
               'notelf': ('ELFError',),
               'magic': ('ELFError', 'AssertionError'), 'zsize': ('ELFError', 'AssertionError'), 'zshort': ('ELFError', 'AssertionError')}
# A reader may decompress lazily: then the rejection surfaces while the content is read - but as the data path's own error,
# not as a parse error over accepted garbage.  A checksum cannot be checked late.
LATE_CLASSES = {'crc': (), 'nofile': (), 'notelf': (), 'size': ('ELFCompressionError',), 'type': ('ELFCompressionError',), 'short': ('ELFCompressionError',),
                'magic': ('ELFCompressionError', 'AssertionError'), 'zsize': ('ELFCompressionError', 'AssertionError'),
                'zshort': ('ELFCompressionError', 'AssertionError')}


# ------------------------------------------------------------------ dumps
def _norm(v, depth=0):
    if isinstance(v, (bool, int, str)) or v is None:
        return v
    if isinstance(v, (bytes, bytearray)):
        return 'b:' + bytes(v).hex()
    if isinstance(v, (list, tuple)):
        return [_norm(x, depth + 1) for x in v]
    if isinstance(v, dict):
        return {str(k): _norm(x, depth + 1) for k, x in sorted(v.items(), key=lambda kv: str(kv[0]))}
    if hasattr(v, '_asdict'):
        return _norm(v._asdict(), depth + 1)
    if hasattr(v, '__dict__') and depth < 6:
        return {'<%s>' % type(v).__name__: _norm({k: x for k, x in vars(v).items() if not k.startswith('_') and not callable(x)
                                                  and k not in ('stream', 'structs', 'dwarfinfo', 'cu', 'cie')}, depth + 1)}
    return repr(v)


def _part(fn):
    try:
        return fn()
    except core.CallTimeout:
        raise
    except Exception as ex:
        return 'EXC:%s:%s' % (type(ex).__name__, str(ex)[:80])


def _die_rec(die):
    return [die.offset, die.tag, die.abbrev_code, bool(die.has_children), die.size,
            [[a.name, a.form, _norm(a.value), _norm(a.raw_value), a.offset] for a in die.attributes.values()]]


def _units(di):
    out = []
    for cu in di.iter_CUs():
        out.append({'off': cu.cu_offset, 'hdr': _norm(dict(cu.header)), 'fmt': cu.structs.dwarf_format, 'size': cu.size,
                    'dies': _part(lambda: [_die_rec(d) for d in cu.iter_DIEs()])})
    return out


def _tunits(di):
    return [{'off': tu.tu_offset, 'hdr': _norm(dict(tu.header)), 'dies': _part(lambda: [_die_rec(d) for d in tu.iter_DIEs()])}
            for tu in di.iter_TUs()]


def _lines(di):
    out = []
    seen = set()
    for cu in di.iter_CUs():
        lp = di.line_program_for_CU(cu)
        if lp is None:
            out.append(None)
            continue
        if lp.program_start_offset in seen:
            out.append(['same', lp.program_start_offset])
            continue
        seen.add(lp.program_start_offset)
        h = lp.header
        hdr = {k: _norm(h[k]) for k in ('unit_length', 'version', 'header_length', 'line_base', 'line_range', 'opcode_base') if k in h}
        hdr['files'] = _norm([dict(f) if hasattr(f, 'keys') else f for f in h.get('file_entry', [])])
        hdr['dirs'] = _norm(list(h.get('include_directory', [])))
        ents = [[e.command, bool(e.is_extended), _norm(e.args), None if e.state is None else _norm(vars(e.state))] for e in lp.get_entries()]
        out.append([lp.program_start_offset, lp.program_end_offset, hdr, ents])
    return out


def _cfi(entries):
    out = []
    for e in entries:
        kind = type(e).__name__
        rec = [kind, e.offset]
        if kind != 'ZERO':
            rec.append(_norm(dict(e.header)))
            rec.append([[i.opcode, _norm(i.args)] for i in e.instructions])
            rec.append(_part(lambda: _norm(e.get_decoded().table)))
            if kind == 'FDE':
                rec.append(e.cie.offset)
        out.append(rec)
    return out


def _lut(lut):
    return None if lut is None else sorted([k, v.cu_ofs, v.die_ofs] for k, v in lut.items())


def _aranges(di):
    ar = di.get_aranges()
    return None if ar is None else sorted(_norm(list(e)) for e in ar.entries)


LIST_FORMS = ('DW_FORM_sec_offset', 'DW_FORM_loclistx', 'DW_FORM_rnglistx')
MAX_LISTS_BY_ATTR = 40


def _lists_by_attr(di):
    """The location / range lists the entries designate (DW_AT_location / DW_AT_ranges of class loclist / rnglist), resolved
    through the public lookups; the first MAX_LISTS_BY_ATTR of a file."""
    ll, rl, out = di.location_lists(), di.range_lists(), []
    for cu in di.iter_CUs():
        for die in cu.iter_DIEs():
            for a in die.attributes.values():
                if a.form not in LIST_FORMS or a.name not in ('DW_AT_location', 'DW_AT_ranges'):
                    continue
                if len(out) >= MAX_LISTS_BY_ATTR:
                    return out
                if a.name == 'DW_AT_location':
                    out.append([die.offset, a.name, None if ll is None else _part(lambda: _norm(ll.get_location_list_at_offset(a.value, die)))])
                else:
                    out.append([die.offset, a.name, None if rl is None else _part(lambda: _norm(rl.get_range_list_at_offset(a.value, cu)))])
    return out


def _all_lists(lists, it):
    return None if lists is None else _norm([list(x) for x in it(lists)])


def full_dump(di):
    """Everything the property calls 'the debugging information': units, entries, line tables, frame tables - and what the other
    debug sections contribute to it: type units, lookup tables (aranges, pubnames, pubtypes), location and range lists (all of
    them in section order, and those the entries designate)."""
    d = {'has_debug_info': bool(di.has_debug_info), 'sup': di.supplementary_dwarfinfo is not None}
    d['units'] = _part(lambda: _units(di)) if di.has_debug_info else []
    d['types'] = _part(lambda: _tunits(di)) if di.debug_types_sec is not None else []
    d['lines'] = _part(lambda: _lines(di)) if di.has_debug_info and di.debug_line_sec is not None else []
    d['cfi'] = _part(lambda: _cfi(di.CFI_entries())) if di.has_CFI() else None
    d['ehcfi'] = _part(lambda: _cfi(di.EH_CFI_entries())) if di.has_EH_CFI() else None
    d['aranges'] = _part(lambda: _aranges(di))
    d['pubnames'] = _part(lambda: _lut(di.get_pubnames()))
    d['pubtypes'] = _part(lambda: _lut(di.get_pubtypes()))
    d['loclists'] = _part(lambda: _all_lists(di.location_lists(), lambda x: x.iter_location_lists()))
    d['rnglists'] = _part(lambda: _all_lists(di.range_lists(), lambda x: x.iter_range_lists()))
    d['lists_by_attr'] = _part(lambda: _lists_by_attr(di)) if di.has_debug_info else []
    if di.supplementary_dwarfinfo is not None:
        d['supunits'] = _part(lambda: _units(di.supplementary_dwarfinfo))
    return d


def first_diff(a, b, path=''):
    if type(a) is not type(b):
        return path, a, b
    if isinstance(a, dict):
        for k in sorted(set(a) | set(b)):
            if k not in a or k not in b:
                return path + '/' + k, a.get(k, '<missing>'), b.get(k, '<missing>')
            r = first_diff(a[k], b[k], path + '/' + k)
            if r:
                return r
        return None
    if isinstance(a, list):
        for i, (x, y) in enumerate(zip(a, b)):
            r = first_diff(x, y, '%s[%d]' % (path, i))
            if r:
                return r
        if len(a) != len(b):
            return path + '.len', len(a), len(b)
        return None
    return None if a == b else (path, a, b)


def _short(v, n=300):
    s = repr(v)
    return s if len(s) <= n else s[:n] + '...'


# ------------------------------------------------------------------ observation of one container
class Loader:
    """dict-backed stream loader: file name (bytes) -> image bytes."""

    def __init__(self, table):
        self.table = table
        self.calls = []

    def __call__(self, name):
        self.calls.append(bytes(name))
        return io.BytesIO(self.table[bytes(name)])


def observe(main, table, use_loader, follow, want_dump=True, reloc=True, history=True):
    """Open `main` and load its debugging information (options follow_links = follow, relocate_dwarf_sections = reloc).
    Returns a dict of observations; exceptions become values."""
    from elftools.elf.elffile import ELFFile
    obs = {}
    loader = Loader(table) if use_loader else None
    with core.guard(120):
        try:
            ef = ELFFile(io.BytesIO(main), stream_loader=loader) if use_loader else ELFFile(io.BytesIO(main))
        except core.CallTimeout:
            raise
        except Exception as ex:
            obs['open_exc'] = _exc(ex)
            return obs
        obs['has_nonstrict'] = _part(lambda: bool(ef.has_dwarf_info(strict=False)))
        obs['has_strict'] = _part(lambda: bool(ef.has_dwarf_info(strict=True)))
        obs['has_default'] = _part(lambda: bool(ef.has_dwarf_info()))
        obs['has_link'] = _part(lambda: bool(ef.has_dwarf_link()))
        lk = _part(ef.get_dwarf_link)
        obs['link'] = None if lk is None else lk if isinstance(lk, str) else [bytes(lk.filename), lk.checksum]
        try:
            di = ef.get_dwarf_info(relocate_dwarf_sections=reloc, follow_links=follow)
            obs['dump'] = None
            if want_dump:
                d = full_dump(di)
                obs['dump'] = d
                # an error that surfaces while the content is read counts as a rejection of the container
                for k, v in d.items():
                    if isinstance(v, str) and v.startswith('EXC:'):
                        obs['late_exc'] = v
        except core.CallTimeout:
            raise
        except Exception as ex:
            obs['exc'] = _exc(ex)
        obs['loader_calls'] = loader.calls if loader else []
        # the answer does not depend on what was asked before on the same object: ask with the other follow_links value first
        obs['history_dependent'] = None
        if want_dump and history and 'exc' not in obs:
            try:
                ef2 = ELFFile(io.BytesIO(main), stream_loader=Loader(table)) if use_loader else ELFFile(io.BytesIO(main))
                try:
                    ef2.get_dwarf_info(relocate_dwarf_sections=reloc, follow_links=not follow)
                except core.CallTimeout:
                    raise
                except Exception:
                    pass
                d2 = full_dump(ef2.get_dwarf_info(relocate_dwarf_sections=reloc, follow_links=follow))
                if d2 != obs['dump']:
                    k = sorted(x for x in set(d2) | set(obs['dump']) if d2.get(x) != obs['dump'].get(x))
                    obs['history_dependent'] = k[:3]
            except core.CallTimeout:
                raise
            except Exception as ex:
                obs['history_dependent'] = ['exception:' + type(ex).__name__]
    return obs


def _exc(ex):
    import traceback
    tb = traceback.extract_tb(ex.__traceback__)
    return {'class': type(ex).__name__, 'mro': [c.__name__ for c in type(ex).__mro__], 'msg': str(ex)[:160],
            'where': '%s:%d' % (tb[-1].filename.split('/')[-1], tb[-1].lineno) if tb else ''}


def _rejected_ok(obs, kind):
    e = obs.get('exc')
    if e is None:
        return False
    return any(c in e['mro'] for c in ERR_CLASSES[kind])


# ------------------------------------------------------------------ spec view of the payload's units
def _leb(g, s):
    n = 0
    for i, x in enumerate(g):
        n |= x << (7 * i)
    if s and g and g[-1] & 0x40:
        n -= 1 << (7 * len(g))
    return n


def _val_ok(exp, obs):
    k = exp['k']
    if k == 'none':
        return True
    if k == 'num':
        return isinstance(obs, int) and not isinstance(obs, bool) and obs == denote(exp['v'])
    if k == 'leb':
        return isinstance(obs, int) and not isinstance(obs, bool) and obs == _leb(exp['g'], exp['s'])
    if k == 'bytes':
        return isinstance(obs, (bytes, bytearray, list, tuple)) and list(obs) == list(exp['b'])
    if k == 'bool':
        return obs is exp['t']
    raise core.MachineryError('unknown value kind %r' % k)


def check_view(di, view, bad):
    """The loaded units against the specification's view (offsets, sizes, codes, forms, raw and resolved values)."""
    cus = list(di.iter_CUs())
    if len(cus) != len(view['units']):
        bad('view.units', len(view['units']), len(cus))
        return
    for cu, uv in zip(cus, view['units']):
        h = cu.header
        for f, e, o in (('cu_offset', uv['off'], cu.cu_offset), ('unit_length', uv['unit_length'], h['unit_length']),
                        ('version', uv['ver'], h['version']), ('address_size', uv['asz'], h['address_size']),
                        ('dwarf_format', uv['fmt'], cu.structs.dwarf_format), ('debug_abbrev_offset', uv['abbrev_off'], h['debug_abbrev_offset'])):
            if e != o:
                bad('view.unit.' + f, e, o)
        dies = list(cu.iter_DIEs())
        if [d.offset for d in dies] != [d['off'] for d in uv['dies']]:
            bad('view.die_offsets', [d['off'] for d in uv['dies']], [d.offset for d in dies])
            continue
        for die, dv in zip(dies, uv['dies']):
            if die.size != dv['size'] or die.abbrev_code != dv['code']:
                bad('view.die', [dv['size'], dv['code']], [die.size, die.abbrev_code])
            if dv['isnull']:
                continue
            attrs = list(die.attributes.values())
            if len(attrs) != len(dv['attrs']):
                bad('view.attr_count', len(dv['attrs']), len(attrs))
                continue
            for a, av in zip(attrs, dv['attrs']):
                if a.form != av['form'] or a.offset != av['off']:
                    bad('view.attr', [av['form'], av['off']], [a.form, a.offset])
                if not _val_ok(av['raw'], a.raw_value):
                    bad('view.attr.raw', av['raw'], _short(a.raw_value))
                exp = view['altval'] if av['form'] == view['altform'] else av['val']
                if not _val_ok(exp, a.value):
                    bad('view.attr.value', exp, _short(a.value), form=av['form'])


def check_secview(di, sv, bad):
    """The other debug sections of the full payload against the tables the specification wrote them from (Container!SecViewOf)."""
    def cmp(clause, exp, obs):
        if exp != obs:
            bad('view.' + clause, _short(exp), _short(obs))
    # the line table of each unit: its rows
    rows = []
    for cu in di.iter_CUs():
        lp = di.line_program_for_CU(cu)
        if lp is not None:
            rows.append([[e.state.address, e.state.line, bool(e.state.end_sequence)] for e in lp.get_entries() if e.state is not None])
    cmp('lines', [[[r['addr'], r['line'], r['end']] for r in t] for t in sv['lines']], rows)
    if not sv['full']:
        return
    ar = di.get_aranges()
    cmp('aranges', sorted([e['begin'], e['len'], e['info']] for e in sv['aranges']),
        None if ar is None else sorted([e.begin_addr, e.length, e.info_offset] for e in ar.entries))
    for sec, get in (('pubnames', di.get_pubnames), ('pubtypes', di.get_pubtypes)):
        lut = get()
        cmp(sec, sorted([bytes(e['name']).decode('latin-1'), e['cu'], e['die']] for e in sv[sec]),
            [] if lut is None else sorted([k, v.cu_ofs, v.die_ofs] for k, v in lut.items()))
    ll, rl = di.location_lists(), di.range_lists()
    if sv['loc']:
        cmp('loc', [[[e['b'], e['e'], list(e['expr'])] for e in lst] for lst in sv['loc']],
            None if ll is None else [[[e.begin_offset, e.end_offset, list(e.loc_expr)] for e in lst] for lst in ll.iter_location_lists()])
    if sv['ranges']:
        cmp('ranges', [[list(e) for e in lst] for lst in sv['ranges']],
            None if rl is None else [[[e.begin_offset, e.end_offset] for e in lst] for lst in rl.iter_range_lists()])
    if sv['lists']:
        want = sv['lists'][0]
        gotl, gotr = [], []
        for cu in di.iter_CUs():
            for die in cu.iter_DIEs():
                for a in die.attributes.values():
                    if a.name == 'DW_AT_location' and a.form == 'DW_FORM_loclistx':
                        gotl.append(None if ll is None else [[e.begin_offset, e.end_offset, list(e.loc_expr)] for e in ll.get_location_list_at_offset(a.value, die)])
                    if a.name == 'DW_AT_ranges' and a.form == 'DW_FORM_rnglistx':
                        gotr.append(None if rl is None else [[e.begin_offset, e.end_offset] for e in rl.get_range_list_at_offset(a.value, cu)])
        cmp('loclists', [[[e['b'], e['e'], list(e['expr'])] for e in want['loc']]], gotl)
        cmp('rnglists', [[list(e) for e in want['rng']]], gotr)
    ents = list(di.CFI_entries()) if di.has_CFI() else []
    cmp('frame', [[e['kind'], e['off']] + ([e['loc'], e['range'], e['cie']] if e['kind'] == 'FDE' else []) for e in sv['frame']],
        [[type(e).__name__, e.offset] + ([e.header['initial_location'], e.header['address_range'], e.cie.offset] if type(e).__name__ == 'FDE' else [])
         for e in ents])
    tus = list(di.iter_TUs()) if di.debug_types_sec is not None else []
    cmp('types', [[t['off'], denote(t['sig']), t['typeoff'], [d['off'] for d in t['dies']]] for t in sv['types']],
        [[t.tu_offset, t.header['signature'], t.header['type_offset'], [d.offset for d in t.iter_DIEs()]] for t in tus])


# ------------------------------------------------------------------ G: the specification's images
def _key(x):
    return core.digest(x)


def run_spec_cases(run, res, only_tag=None):
    layout = None
    imgs, cases, views, queries = {}, {}, {}, {}
    for ln in run.cases(res.out):
        k = ln['k']
        if k == 'layout':
            layout = ln
        elif k == 'img':
            imgs[(_key(ln['key']), ln['role'])] = ln
        elif k == 'view':
            views[_key(ln['refkey'])] = ln
        elif k == 'case':
            cases[(_key(ln['img']), ln['loader'], ln['follow'], ln['reloc'])] = ln
        elif k == 'query':
            queries[(_key(ln['img']), ln['loader'], ln['follow'], ln['reloc'], tuple(ln['qs']))] = ln
    if layout is None or not cases:
        raise core.MachineryError('Container: no layout / cases emitted')

    def build(case):
        ik = _key(case['img'])
        out = {}
        for role in ('main', 'linked', 'sup'):
            im = imgs.get((ik, role))
            out[role] = None if im is None else bytearray(concretise(im['chunks']))
        if out['main'] is None:
            raise core.MachineryError('no image for %r' % (case['img'],))
        slot = imgs[(ik, 'main')]['crcslot']
        if slot:
            crc = binascii.crc32(bytes(out['linked'])) & 0xffffffff
            if not case['crc_ok']:
                crc ^= 0x00010000                 # any other value
            out['main'][slot[0]:slot[0] + slot[1]] = crc.to_bytes(slot[1], 'little' if case['le'] else 'big')
            out['crc'] = crc
        table = {}
        if out['linked'] is not None:
            table[bytes(case['files']['linked'])] = bytes(out['linked'])
        if out['sup'] is not None:
            table[bytes(case['files']['sup'])] = bytes(out['sup'])
        return bytes(out['main']), table, out.get('crc')

    # references first: the plain encoding of every payload
    refs = {}
    built = {}
    order = sorted(cases.values(), key=lambda c: (not c['isref'], c['fam'], str(c['img']), c['loader'], c['follow'], c['reloc']))
    for case in order:
        main, table, crc = build(case)
        tag = _tag(case)
        if only_tag is not None and tag != only_tag and not case['isref']:
            continue
        brief = {'cfg': {k: case[k] for k in ('fam', 'cls', 'le', 'ver', 'fmt', 'plan', 'plantag', 'dl', 'home', 'sup', 'supplan', 'loader', 'follow',
                                              'rel', 'reloc', 'tgt', 'stype', 'full')},
                 'expect': case['outcome'], 'main_b64': core.b64(main), 'files_b64': {k.decode(): core.b64(v) for k, v in table.items()}}
        nontrivial = case['plan'] not in ('plain', 'none') or case['dl'] != 'none' or case['sup'] != 'none' or case['rel'] != 'none' \
            or case['stype'] != 'progbits'
        suploaded = case['suploaded']
        run.count(_key([case['img'], case['loader'], case['follow'], case['reloc']]), nontrivial=nontrivial,
                  sample={'cfg': brief['cfg'], 'outcome': case['outcome'], 'suploaded': case['suploaded'], 'main_size': len(main),
                          'files': {k.decode(): len(v) for k, v in table.items()}} if nontrivial and run.evaluations % 211 == 5 else None)

        def bad(clause, exp, obs, **kw):
            run.mismatch(clause, tag, dict(brief, **kw), exp, obs)
        try:
            # (the families that vary section types / the set of sections do not vary the history of calls)
            o = observe(main, table, case['loader'], case['follow'], reloc=case['reloc'], history=case['fam'] not in ('stype', 'full'))
        except core.CallTimeout as ex:
            bad('timeout', 'an answer', str(ex))
            continue
        if 'open_exc' in o:
            bad('open', 'ELFFile', o['open_exc'])
            continue
        if o.get('history_dependent'):
            bad('follow_links_history', 'the same DWARF view whatever was asked before on the object', o['history_dependent'])
        for f in ('has_strict', 'has_nonstrict', 'has_link'):
            if o[f] != case[f]:
                bad(f, case[f], o[f])
        if o['has_default'] != case['has_nonstrict']:
            bad('has_default', case['has_nonstrict'], o['has_default'])
        wantlink = [bytes(case['link_filename']), crc] if case['has_link'] else None
        if o['link'] != wantlink:
            bad('get_dwarf_link', _short(wantlink), _short(o['link']))
        outcome = case['outcome']
        accept = [outcome] + list(case['alt'])
        if outcome.startswith('error:') and not ('exc' in o or 'late_exc' in o):
            soft = [a for a in case['alt'] if not a.startswith('error:')]
            if not soft:
                bad('rejected', outcome, 'loaded without error')
                continue
            # the property leaves this outcome open (a link target that is no object file): then the view must be
            # that of the opened file without the target's data
            outcome, suploaded = soft[0], False
        if 'exc' in o or 'late_exc' in o:
            kinds = [a.split(':', 1)[1] for a in accept if a.startswith('error:')]
            if not kinds:
                bad('exception', outcome, o.get('exc') or o.get('late_exc'))
            elif 'exc' in o and not any(_rejected_ok(o, k) for k in kinds):
                bad('error_class', {k: ERR_CLASSES[k] for k in kinds}, o['exc'])
            elif 'exc' not in o:
                lc = o['late_exc'].split(':')[1]
                if not any(lc in LATE_CLASSES[k] for k in kinds):
                    bad('rejected', outcome, 'accepted by get_dwarf_info; later: ' + o['late_exc'])
            continue
        d = o['dump']
        if outcome == 'nodwarf':
            if d['has_debug_info'] or d['units']:
                bad('nodwarf', 'no debug info', {'has_debug_info': d['has_debug_info'], 'units': len(d['units'])})
            # the exception frames of the opened file are still there
            if bool(d['ehcfi']) != case['eh']:
                bad('nodwarf.ehcfi', case['eh'], _short(d['ehcfi']))
            continue
        # loaded: against the plain encoding of the same payload ...
        rk = _key(case['refkey'])
        if case['isref']:
            refs[rk] = d
            v = views.get(rk)
            if v is not None:
                from elftools.elf.elffile import ELFFile
                with core.guard(60):
                    try:
                        di = ELFFile(io.BytesIO(main), stream_loader=Loader(table) if case['loader'] else None).get_dwarf_info(
                            relocate_dwarf_sections=case['reloc'], follow_links=case['follow'])
                        check_view(di, v, bad)
                        check_secview(di, v['secview'], bad)
                    except core.CallTimeout as ex:
                        bad('timeout', 'an answer', str(ex))
                    except Exception as ex:
                        bad('view.exception', 'no exception', _exc(ex))
            if bool(d['sup']) != suploaded:
                bad('sup_loaded', suploaded, d['sup'])
            # the payloads are well-formed: every part of the reference's dump is there
            broken = sorted(k for k, x in d.items() if '"EXC:' in json.dumps(x))
            if broken:
                bad('ref.exception', 'every part of the plain encoding readable', {k: _short(d[k]) for k in broken})
            if case['full']:
                run.extra['full_refs'] = run.extra.get('full_refs', 0) + 1
            if d['lines'] and isinstance(d['lines'], list) and d['lines'][0] and len(d['lines'][0][3]) < 4:
                bad('ref.lines', 'a line program', _short(d['lines']))
            if case['eh'] and not (isinstance(d['ehcfi'], list) and len(d['ehcfi']) == 3):
                bad('ref.ehcfi', 'CIE, FDE, terminator', _short(d['ehcfi']))
            continue
        ref = refs.get(rk)
        if ref is None:
            raise core.MachineryError('no plain reference for %r' % (case['refkey'],))
        if bool(d['sup']) != suploaded:
            bad('sup_loaded', suploaded, d['sup'])
            continue
        df = first_diff(ref, d)
        if df:
            bad('dump', {'at': df[0], 'plain': _short(df[1])}, {'at': df[0], 'encoded': _short(df[2])})
    # ---- repeated / reordered questions to the loaded object
    for qk in sorted(queries, key=str):
        q = queries[qk]
        tag = _tag(q)
        if only_tag is not None and tag != only_tag:
            continue
        ik = _key(q['img'])
        if ik not in built:
            built[ik] = build(q)
        main, table, _crc = built[ik]
        brief = {'cfg': {k: q[k] for k in ('fam', 'plantag', 'dl', 'sup', 'loader', 'follow', 'reloc')}, 'questions': q['qs'],
                 'main_b64': core.b64(main), 'files_b64': {k.decode(): core.b64(v) for k, v in table.items()}}
        run.count(_key([q['img'], q['loader'], q['follow'], q['reloc'], q['qs']]), nontrivial=True,
                  sample={'cfg': brief['cfg'], 'questions': q['qs'], 'answers': q['ans']} if run.evaluations % 499 == 7 else None)
        ref = refs.get(_key(q['refkey']))
        supref = refs.get(_key(q['suprefkey']))
        try:
            ask(run, tag, brief, main, table, q, ref, supref)
        except core.CallTimeout as ex:
            run.mismatch('requery.timeout', tag, brief, 'an answer', str(ex))
    return layout


def _tag(case):
    stype = case.get('stype', 'progbits')
    return '%s:%s/plan=%s%s%s%s' % (case['fam'], case['sup'] if case['sup'] != 'none' else case['dl'] if case['dl'] != 'none' else 'nolink',
                                    case['plantag'], case.get('tgttag', ''), '' if case['reloc'] else '/norelocate',
                                    '' if stype == 'progbits' else '/type=' + stype)


def ask(run, tag, brief, main, table, q, ref, supref):
    """One fresh object, loaded once, then asked q['qs'] in order; q['ans'] are the specification's answers."""
    from elftools.elf.elffile import ELFFile
    with core.guard(120):
        try:
            ef = ELFFile(io.BytesIO(main), stream_loader=Loader(table)) if q['loader'] else ELFFile(io.BytesIO(main))
            di = ef.get_dwarf_info(relocate_dwarf_sections=q['reloc'], follow_links=q['follow'])
        except core.CallTimeout:
            raise
        except Exception as ex:
            run.mismatch('requery.load', tag, brief, 'loads (the specification reached "loaded")', _exc(ex))
            return
        for i, (what, want) in enumerate(zip(q['qs'], q['ans'])):
            where = dict(brief, at=i, asked_before=q['qs'][:i])
            try:
                if what == 'name':
                    got = di.parse_debugsupinfo()
                    exp = bytes(want['b']) if want['p'] else None
                    if (None if got is None else bytes(got)) != exp:
                        run.mismatch('requery.name', tag, where, _short(exp), _short(got))
                elif what == 'sup':
                    sdi = ef.get_supplementary_dwarfinfo(di)
                    if (sdi is not None) != want['p']:
                        run.mismatch('requery.sup', tag, where, 'loaded' if want['p'] else None, 'loaded' if sdi is not None else None)
                    elif sdi is not None:
                        if supref is None or 'supunits' not in supref:
                            raise core.MachineryError('no reference with a loaded supplementary file for %r' % (q['suprefkey'],))
                        df = first_diff(supref['supunits'], _part(lambda: _units(sdi)))
                        if df:
                            run.mismatch('requery.sup.units', tag, where, {'at': df[0], 'plain': _short(df[1])}, {'at': df[0], 'asked': _short(df[2])})
                elif what == 'view':
                    if not want['p']:
                        raise core.MachineryError('the specification answered "view" with FALSE')
                    if ref is None:
                        raise core.MachineryError('no plain reference for %r' % (q['refkey'],))
                    df = first_diff(ref, full_dump(di))
                    if df:
                        run.mismatch('requery.view', tag, where, {'at': df[0], 'plain': _short(df[1])}, {'at': df[0], 'asked': _short(df[2])})
                else:
                    raise core.MachineryError('unknown question %r' % what)
            except (core.CallTimeout, core.MachineryError):
                raise
            except Exception as ex:
                run.mismatch('requery.exception.' + what, tag, where, _short(want), _exc(ex))
                return


# ------------------------------------------------------------------ harness-side rewriter (layout tables from the spec)
class ElfRw:
    """Generic append-only rewriter: changed section contents, a new name table and a new section header table are
    appended; nothing that exists is moved.  Field offsets and widths come from the specification's layout tables."""

    def __init__(self, data, layout):
        self.lay = layout
        self.data = bytes(data)
        if self.data[:4] != b'\x7fELF':
            raise core.MachineryError('not an ELF file')
        self.cls = {1: 32, 2: 64}[self.data[4]]
        self.le = self.data[5] == 1
        self.L = layout['c32' if self.cls == 32 else 'c64']
        self.eh = {n: self._get(self.data, o, w) for n, o, w in self.L['ehdr']}
        n = self.eh['e_shnum']
        if not self.eh['e_shoff'] or n == 0 or n >= 0xff00 or self.eh['e_shentsize'] != self.L['shentsize']:
            raise core.MachineryError('section table not rewritable')
        self.sh = []
        for i in range(n):
            base = self.eh['e_shoff'] + i * self.eh['e_shentsize']
            self.sh.append({f: self._get(self.data, base + o, w) for f, o, w in self.L['shdr']})
        st = self.sh[self.eh['e_shstrndx']]
        tab = self.data[st['sh_offset']:st['sh_offset'] + st['sh_size']]
        self.names = [tab[s['sh_name']:tab.index(b'\0', s['sh_name'])] for s in self.sh]
        self.new = {}

    def _get(self, buf, off, w):
        return int.from_bytes(buf[off:off + w], 'little' if self.le else 'big')

    def _put(self, v, w):
        return int(v).to_bytes(w, 'little' if self.le else 'big')

    def content(self, i):
        if i in self.new:
            return self.new[i]
        s = self.sh[i]
        return b'' if s['sh_type'] == self.lay['sht_nobits'] else self.data[s['sh_offset']:s['sh_offset'] + s['sh_size']]

    def index(self, name):
        return self.names.index(name) if name in self.names else None

    def add(self, name, data, align=1):
        self.sh.append({f: 0 for f, _o, _w in self.L['shdr']})
        self.sh[-1].update(sh_type=self.lay['sht_progbits'], sh_addralign=align)
        self.names.append(bytes(name))
        self.new[len(self.sh) - 1] = bytes(data)

    def chdr(self, ctype, size, align):
        vals = {'ch_type': ctype, 'ch_reserved': 0, 'ch_size': size, 'ch_addralign': align}
        return b''.join(self._put(vals[f], w) for f, _o, w in self.L['chdr'])

    def build(self):
        out = bytearray(self.data)
        for i, blob in sorted(self.new.items()):
            out += b'\0' * (-len(out) % 16)
            self.sh[i]['sh_offset'] = len(out)
            self.sh[i]['sh_size'] = len(blob)
            out += blob
        tab = bytearray(b'\0')
        for i, nm in enumerate(self.names):
            self.sh[i]['sh_name'] = len(tab) if nm else 0
            if nm:
                tab += nm + b'\0'
        out += b'\0' * (-len(out) % 16)
        st = self.sh[self.eh['e_shstrndx']]
        st['sh_offset'], st['sh_size'] = len(out), len(tab)
        out += tab
        out += b'\0' * (-len(out) % 16)
        shoff = len(out)
        for s in self.sh:
            out += b''.join(self._put(s[f], w) for f, _o, w in self.L['shdr'])
        eh = dict(self.eh, e_shoff=shoff, e_shnum=len(self.sh))
        for f, o, w in self.L['ehdr']:
            out[o:o + w] = self._put(eh[f], w)
        return bytes(out)


def _is_debug(rw, i):
    """A section the compression transforms apply to: named .debug_*, with file contents (whatever its type: SHT_PROGBITS,
    SHT_MIPS_DWARF, ... - any but SHT_NOBITS / SHT_NULL), not loaded."""
    s = rw.sh[i]
    return rw.names[i].startswith(bytes(rw.lay['debug_prefix'])) and s['sh_type'] not in (rw.lay['sht_nobits'], rw.lay['sht_null']) \
        and not (s['sh_flags'] & 2) and s['sh_size'] > 0


def t_gabi(data, layout, level):
    """SHF_COMPRESSED: Elf_Chdr (ELFCOMPRESS_ZLIB, size, alignment) + zlib stream."""
    rw = ElfRw(data, layout)
    for i in range(len(rw.sh)):
        if _is_debug(rw, i) and not rw.sh[i]['sh_flags'] & layout['shf_compressed']:
            d = rw.content(i)
            rw.new[i] = rw.chdr(layout['elfcompress_zlib'], len(d), rw.sh[i]['sh_addralign']) + zlib.compress(d, level)
            rw.sh[i]['sh_flags'] |= layout['shf_compressed']
    return rw.build()


def t_plain(data, layout):
    """The inverse: SHF_COMPRESSED sections stored plainly."""
    rw = ElfRw(data, layout)
    n = 0
    for i in range(len(rw.sh)):
        if rw.sh[i]['sh_flags'] & layout['shf_compressed'] and rw.sh[i]['sh_type'] != layout['sht_nobits']:
            d = rw.content(i)
            hs = rw.L['chsize']
            vals = {f: rw._get(d, o, w) for f, o, w in rw.L['chdr']}
            if vals['ch_type'] != layout['elfcompress_zlib']:
                continue
            rw.new[i] = zlib.decompress(d[hs:])
            rw.sh[i]['sh_flags'] &= ~layout['shf_compressed']
            rw.sh[i]['sh_addralign'] = vals['ch_addralign']
            n += 1
    return rw.build() if n else None


def t_zdebug(data, layout, level, only_smaller=False):
    """Legacy GNU: .debug_X -> .zdebug_X holding "ZLIB" + 8-byte big-endian size + zlib stream; relocation sections
    follow the name of their target.  only_smaller: rename a section only when that makes it smaller (what the GNU
    tools do), the others keep their .debug_ name."""
    rw = ElfRw(data, layout)
    dp, zp = bytes(layout['debug_prefix']), bytes(layout['zdebug_prefix'])
    renamed = {}
    for i in range(len(rw.sh)):
        if _is_debug(rw, i) and not rw.sh[i]['sh_flags'] & layout['shf_compressed']:
            d = rw.content(i)
            z = bytes(layout['zmagic']) + len(d).to_bytes(8, 'big') + zlib.compress(d, level)
            if only_smaller and len(z) >= len(d):
                continue
            rw.new[i] = z
            renamed[rw.names[i]] = zp + rw.names[i][len(dp):]
            rw.names[i] = renamed[rw.names[i]]
    for i in range(len(rw.sh)):
        for pre in (b'.rela', b'.rel'):
            if rw.names[i].startswith(pre + dp) and rw.names[i][len(pre):] in renamed:
                rw.names[i] = pre + renamed[rw.names[i][len(pre):]]
                break
    return rw.build()


def t_mixed(data, layout, level, choose):
    """An encoding per section: choose(k, name) in {'plain', 'gabi', 'z'} for the k-th debug section (file order).  The GNU
    tools produce such files (a section is compressed / renamed only when that makes it smaller)."""
    rw = ElfRw(data, layout)
    dp, zp = bytes(layout['debug_prefix']), bytes(layout['zdebug_prefix'])
    renamed = {}
    k = 0
    for i in range(len(rw.sh)):
        if _is_debug(rw, i) and not rw.sh[i]['sh_flags'] & layout['shf_compressed']:
            enc = choose(k, rw.names[i])
            k += 1
            d = rw.content(i)
            if enc == 'gabi':
                rw.new[i] = rw.chdr(layout['elfcompress_zlib'], len(d), rw.sh[i]['sh_addralign']) + zlib.compress(d, level)
                rw.sh[i]['sh_flags'] |= layout['shf_compressed']
            elif enc == 'z':
                rw.new[i] = bytes(layout['zmagic']) + len(d).to_bytes(8, 'big') + zlib.compress(d, level)
                renamed[rw.names[i]] = zp + rw.names[i][len(dp):]
                rw.names[i] = renamed[rw.names[i]]
    for i in range(len(rw.sh)):
        for pre in (b'.rela', b'.rel'):
            if rw.names[i].startswith(pre + dp) and rw.names[i][len(pre):] in renamed:
                rw.names[i] = pre + renamed[rw.names[i][len(pre):]]
                break
    return rw.build()


MIX3 = ('plain', 'gabi', 'z')


def debuglink_record(name, crc, le):
    """File name, NUL, zero padding to a multiple of four, CRC-32 in the file's byte order (Container!DebugLinkRec)."""
    b = bytes(name) + b'\0'
    return b + b'\0' * (-len(b) % 4) + crc.to_bytes(4, 'little' if le else 'big')


def t_strip(data, layout, dbgname, crc):
    """The stripped half of a split: every debug section (either naming) and its relocations become null entries,
    a .gnu_debuglink is added."""
    rw = ElfRw(data, layout)
    dp, zp = bytes(layout['debug_prefix']), bytes(layout['zdebug_prefix'])
    for i in range(len(rw.sh)):
        nm = rw.names[i]
        for pre in (b'', b'.rela', b'.rel'):
            if nm.startswith(pre + dp) or nm.startswith(pre + zp):
                rw.sh[i] = {f: 0 for f in rw.sh[i]}
                rw.names[i] = b''
    rw.add(bytes(layout['debuglink']), debuglink_record(dbgname, crc, rw.le), align=4)
    return rw.build()


def t_addlink(data, layout, dbgname, crc):
    """An UNSTRIPPED file that carries a .gnu_debuglink (objcopy --add-gnu-debuglink without stripping): every section stays,
    the link record is added."""
    rw = ElfRw(data, layout)
    rw.add(bytes(layout['debuglink']), debuglink_record(dbgname, crc, rw.le), align=4)
    return rw.build()


def _has_rel_debug(data, layout):
    rw = ElfRw(data, layout)
    return any(n.startswith(b'.rela.debug_') or n.startswith(b'.rel.debug_') for n in rw.names)


# ------------------------------------------------------------------ metamorphic part on corpus files
def _strip_for_link(d):
    """What must be equal when the debug data come from a separate file: DWARF proper (not the exception frames)."""
    return {k: v for k, v in d.items() if k != 'ehcfi'}


def run_corpus(run, layout, files, levels, objcopy, only=None):
    from elftools.elf.elffile import ELFFile  # noqa
    for rel, suprel in files:
        path = os.path.join(core.REPO, rel)
        if not os.path.exists(path):
            run.notes.append('corpus file missing: ' + rel)
            continue
        data = open(path, 'rb').read()
        sup = open(os.path.join(core.REPO, suprel), 'rb').read() if suprel else None
        supname = os.path.basename(suprel).encode() if suprel else None
        base = os.path.basename(rel)
        table = {supname: sup} if sup else {}
        try:
            plain = observe(data, table, bool(sup), True)
        except core.CallTimeout as ex:
            run.mismatch('corpus.timeout', base, {'file': rel}, 'an answer', str(ex))
            continue
        if 'dump' not in plain or plain.get('dump') is None:
            run.notes.append('corpus file not loadable plainly (skipped): %s %r' % (rel, plain.get('exc') or plain.get('open_exc')))
            continue
        ref = plain['dump']
        ref_nofollow = None
        rel_debug = _has_rel_debug(data, layout)
        kind = ('rel' if rel_debug else 'exe') + ('/sup' if sup else '')
        variants = []          # (transform tag, main bytes, loader table, use loader, follow, reference, what to compare)
        for lv in levels:
            variants.append(('gabi/level%d' % lv, t_gabi(data, layout, lv), table, bool(sup), True, ref, 'all'))
            variants.append(('zdebug/level%d' % lv, t_zdebug(data, layout, lv), table, bool(sup), True, ref, 'all'))
        variants.append(('zdebug-smaller/level6', t_zdebug(data, layout, 6, only_smaller=True), table, bool(sup), True, ref, 'all'))
        # an encoding per section (Container's plan "mix" on compiler output): the three rotations of plain / SHF_COMPRESSED /
        # .zdebug over the debug sections in file order, and .debug_info alone plain resp. alone renamed
        info = bytes(layout['debug_prefix']) + b'info'
        for r in range(3):
            variants.append(('mixed.rot%d/level6' % r, t_mixed(data, layout, 6, lambda k, nm, r=r: MIX3[(k + r) % 3]), table, bool(sup), True, ref, 'all'))
        variants.append(('mixed.info-plain/level6', t_mixed(data, layout, 6, lambda k, nm: 'plain' if nm == info else 'z'), table, bool(sup), True, ref, 'all'))
        variants.append(('mixed.info-z/level6', t_mixed(data, layout, 6, lambda k, nm: 'z' if nm == info else 'plain'), table, bool(sup), True, ref, 'all'))
        p = t_plain(data, layout)
        if p is not None:
            variants.append(('plain', p, table, bool(sup), True, ref, 'all'))
        if sup:
            # the supplementary file re-encoded as well
            variants.append(('plain+sup.gabi', data, {supname: t_gabi(sup, layout, 6)}, True, True, ref, 'all'))
            variants.append(('gabi+sup.zdebug', t_gabi(data, layout, 1), {supname: t_zdebug(sup, layout, 9)}, True, True, ref, 'all'))
            ref_nofollow = observe(data, table, True, False).get('dump')
            variants.append(('zdebug/nofollow', t_zdebug(data, layout, 6), table, True, False, ref_nofollow, 'all'))
            variants.append(('gabi/noloader', t_gabi(data, layout, 6), {}, False, True, ref_nofollow, 'all'))
        # split: stripped file + .gnu_debuglink -> debug file (plain and re-encoded), right and wrong CRC
        for dtag, dbg in (('plain', data), ('gabi', t_gabi(data, layout, 6)), ('zdebug', t_zdebug(data, layout, 6))):
            crc = binascii.crc32(dbg) & 0xffffffff
            name = (base + '.debug').encode()
            t2 = dict(table)
            t2[name] = dbg
            variants.append(('split.%s/crc-ok' % dtag, t_strip(data, layout, name, crc), t2, True, True, ref, 'link'))
            if dtag == 'plain':
                variants.append(('split.plain/crc-bad', t_strip(data, layout, name, crc ^ 1), t2, True, True, None, 'error:crc'))
                variants.append(('split.plain/nofollow', t_strip(data, layout, name, crc), t2, True, False, None, 'nodwarf'))
                variants.append(('split.plain/noloader', t_strip(data, layout, name, crc), {}, False, True, None, 'nodwarf'))
        # own debug info (in each encoding) x link present: the link of an unstripped file names ANOTHER file (right CRC, loadable);
        # the file's own data must be what is loaded
        drel = UT + ('/dwarfv5_basic.elf' if not rel.endswith('/dwarfv5_basic.elf') else '/sample_exe64.elf')
        dpath = os.path.join(core.REPO, drel)
        if os.path.exists(dpath):
            decoy = open(dpath, 'rb').read()
            dname = b'other.debug'
            t3 = dict(table)
            t3[dname] = decoy
            dcrc = binascii.crc32(decoy) & 0xffffffff
            for dtag, own in (('plain', data), ('gabi', t_gabi(data, layout, 6)), ('zdebug', t_zdebug(data, layout, 6)),
                              ('zdebug-smaller', t_zdebug(data, layout, 6, only_smaller=True))):
                variants.append(('own+link.%s/crc-ok' % dtag, t_addlink(own, layout, dname, dcrc), t3, True, True, ref, 'all'))
        # relocate_dwarf_sections = False on relocatable objects: the unrelocated view is the same under every encoding and
        # through a link (8th field: the option)
        if rel_debug:
            ref_norel = observe(data, table, bool(sup), True, reloc=False).get('dump')
            if ref_norel is not None:
                variants.append(('gabi.norelocate/level6', t_gabi(data, layout, 6), table, bool(sup), True, ref_norel, 'all', False))
                variants.append(('zdebug.norelocate/level6', t_zdebug(data, layout, 6), table, bool(sup), True, ref_norel, 'all', False))
                crc = binascii.crc32(data) & 0xffffffff
                name = (base + '.debug').encode()
                t2 = dict(table)
                t2[name] = data
                variants.append(('split.norelocate/crc-ok', t_strip(data, layout, name, crc), t2, True, True, ref_norel, 'link', False))
        if objcopy:
            variants += _objcopy_variants(run, data, base, table, bool(sup), ref)
        for var in variants:
            ttag, main, tab, use_loader, follow, want, mode = var[:7]
            reloc = var[7] if len(var) > 7 else True
            if only is not None and (rel, ttag) not in only:
                continue
            tag = '%s:%s' % (ttag.split('/')[0], kind)
            brief = {'file': rel, 'transform': ttag, 'sup': suprel}
            run.count(_key([rel, ttag]), nontrivial=True,
                      sample={'file': rel, 'transform': ttag, 'size': len(main)} if run.evaluations % 97 == 3 else None)
            try:
                o = observe(main, tab, use_loader, follow, reloc=reloc)
            except core.CallTimeout as ex:
                run.mismatch('corpus.timeout', tag, brief, 'an answer', str(ex))
                continue
            if o.get('history_dependent'):
                run.mismatch('corpus.follow_links_history', tag, brief, 'the same DWARF view whatever was asked before', o['history_dependent'])
            if 'open_exc' in o:
                run.mismatch('corpus.open', tag, brief, 'ELFFile', o['open_exc'])
                continue
            if mode == 'error:crc':
                if not _rejected_ok(o, 'crc'):
                    run.mismatch('corpus.rejected', tag, brief, 'ELFError (checksum mismatch)', o.get('exc') or 'loaded without error')
                continue
            if mode == 'nodwarf':
                if 'exc' in o or o['dump']['has_debug_info'] or o['has_strict'] is not False or o['has_link'] is not True:
                    run.mismatch('corpus.nodwarf', tag, brief, 'no debug info, a link',
                                 o.get('exc') or [o['dump']['has_debug_info'], o['has_strict'], o['has_link']])
                continue
            if 'exc' in o:
                run.mismatch('corpus.exception', tag, brief, 'loads like the plain file', o['exc'])
                continue
            if mode == 'all' and (o['has_strict'] is not True or o['has_nonstrict'] is not True):
                run.mismatch('corpus.has_dwarf_info', tag, brief, True, [o['has_strict'], o['has_nonstrict']])
            if bool(o['dump']['sup']) != bool(want['sup']):
                run.mismatch('corpus.sup_loaded', tag, brief, want['sup'], o['dump']['sup'])
                continue
            a, b = (want, o['dump']) if mode == 'all' else (_strip_for_link(want), _strip_for_link(o['dump']))
            df = first_diff(a, b)
            if df:
                run.mismatch('corpus.dump', tag, brief, {'at': df[0], 'plain': _short(df[1])}, {'at': df[0], 'encoded': _short(df[2])})


def _objcopy_variants(run, data, base, table, use_loader, ref):
    """binutils objcopy as an independent transformer (thorough tier)."""
    out = []
    tmp = tempfile.mkdtemp(prefix='c11-objcopy-', dir=run.tmp)
    try:
        src = os.path.join(tmp, 'in.elf')
        open(src, 'wb').write(data)

        def oc(*args):
            dst = os.path.join(tmp, 'out%d.elf' % len(os.listdir(tmp)))
            p = subprocess.run(['objcopy'] + list(args) + [src, dst], stdout=subprocess.PIPE, stderr=subprocess.STDOUT, timeout=120)
            if p.returncode != 0 or not os.path.exists(dst):
                return None
            return dst
        for mode in ('zlib', 'zlib-gnu'):
            dst = oc('--compress-debug-sections=' + mode)
            if dst:
                out.append(('objcopy.%s' % mode, open(dst, 'rb').read(), table, use_loader, True, ref, 'all'))
        dst = oc('--decompress-debug-sections')
        if dst:
            out.append(('objcopy.decompress', open(dst, 'rb').read(), table, use_loader, True, ref, 'all'))
        dbg = oc('--only-keep-debug')
        if dbg:
            name = os.path.basename(dbg).encode()
            stripped = os.path.join(tmp, 'stripped.elf')
            p = subprocess.run(['objcopy', '--strip-debug', '--add-gnu-debuglink=' + dbg, src, stripped], cwd=tmp,
                               stdout=subprocess.PIPE, stderr=subprocess.STDOUT, timeout=120)
            if p.returncode == 0 and os.path.exists(stripped):
                t2 = dict(table)
                t2[name] = open(dbg, 'rb').read()
                out.append(('objcopy.split', open(stripped, 'rb').read(), t2, True, True, ref, 'link'))
    except (OSError, subprocess.TimeoutExpired) as ex:
        run.notes.append('objcopy failed on %s: %s' % (base, ex))
    finally:
        shutil.rmtree(tmp, ignore_errors=True)
    return out


# ------------------------------------------------------------------ entry point
def replay(run, path):
    """Re-run exactly the cases of one replay file (the images are regenerated by TLC, corpus files re-transformed)."""
    rec = json.load(open(path))
    thorough = run.tier == 'thorough'
    res = run.tlc('Container', 'Container_thorough' if thorough else 'Container_quick', workers=min(8, core.NPROC))
    if rec['clause'].startswith('corpus.'):
        layout = [ln for ln in run.cases(res.out) if ln['k'] == 'layout'][0]
        only = {(m['case']['file'], m['case']['transform']) for m in [rec['first']] + rec.get('more', [])}
        files = [f for f in CORPUS_THOROUGH if f[0] in {o[0] for o in only}]
        run_corpus(run, layout, files, (0, 1, 6, 9), any(t.startswith('objcopy') for _f, t in only) and shutil.which('objcopy') is not None, only=only)
    else:
        run_spec_cases(run, res, only_tag=rec['tag'])
    return run.finish()


def check(run):
    run.rule = ('cases = (a) final states of the Container loading-pipeline machine: encoding plan (15: plain, SHF_COMPRESSED whole/partial/'
                'multi-block/declared size too big/too small/bad type, .zdebug whole/multi-block/mixed/bad magic/size too big/too small/truncated; "mix": every '
                'non-uniform assignment of plain/SHF_COMPRESSED/.zdebug to the four debug sections, .debug_sup against the rest) x class/byte order x DWARF '
                'version/format x .eh_frame, link families (stripped+.gnu_debuglink right/wrong CRC, unstripped with link, .gnu_debugaltlink, '
                '.debug_sup with is_supplementary 0/1, stripped->debug->supplementary chains, relocatable carrier direct / behind a link) x encodings '
                'of every file x loader x follow_links (x relocate_dwarf_sections in the chain and relocatable families), link targets '
                'written under the 7 bad plans or not an ELF file; section types of the debug sections (SHT_PROGBITS / SHT_MIPS_DWARF / SHT_X86_64_UNWIND / '
                'application range) x encodings x links; the full payload (every debug section name of DWARF 4 / 5) x uniform and one-against-the-rest '
                'per-section encodings; '
                '(a2) every maximal sequence of repeated questions (supplementary file name / load it / walk the view again) to the loaded object of the link '
                'configurations, answers computed by the machine; '
                '(b) corpus file x harness-side transform (gABI / .zdebug at zlib levels, per-section mixtures, decompression, split + link, supplementary pairs'
                '; thorough: objcopy). Non-trivial = not the plain, link-free encoding. Distinct by configuration / (file, transform).')
    run.assumptions += ['Crc32 and deflate levels other than stored blocks are computed by Python binascii/zlib (trusted)',
                        'error classes: CRC, declared size, unknown compression type -> ELFError family; .zdebug framing -> AssertionError or ELFError',
                        'an unstripped file with a wrong-CRC link may load its own data or reject the link',
                        'a link target that is not an ELF file: ELFError, or the view of the opened file without the target (the property does not say)',
                        '.eh_frame tables are not compared when the debug data come from a separate file of the corpus/objcopy '
                        '(--only-keep-debug empties it)',
                        'full dump = units, type units, DIEs (offset, tag, code, children flag, size, attributes with name/form/value/raw/offset), '
                        'line programs (header, every entry with its state), .debug_frame and .eh_frame entries (header, instructions, decoded table), '
                        'aranges entries, pubnames / pubtypes entries, every location / range list in section order and the first 40 the entries designate',
                        'corpus transforms apply to .debug_* sections of any type but SHT_NOBITS / SHT_NULL (SHT_MIPS_DWARF on MIPS objects)',
                        'the full payload (every debug section name) is written in the 32-bit DWARF format only']
    thorough = run.tier == 'thorough'
    res = run.tlc('Container', 'Container_thorough' if thorough else 'Container_quick', workers=min(8, core.NPROC))
    layout = run_spec_cases(run, res)
    nspec = run.evaluations
    have_objcopy = thorough and shutil.which('objcopy') is not None
    run_corpus(run, layout, CORPUS_THOROUGH if thorough else CORPUS_QUICK, (0, 1, 6, 9), have_objcopy)
    run.extra['spec_cases'] = nspec
    run.extra['corpus_cases'] = run.evaluations - nspec
    run.extra['objcopy'] = have_objcopy
    run.extra['exhaustive'] = True
    run.validated = run.evaluations
    if not run.samples:
        run.samples.append({'note': 'no sample'})
