"""Harness core: TLC runner, case reader, comparator bookkeeping, evidence, findings.

Format-agnostic on purpose: nothing in here knows ELF or DWARF.  Bytes, offsets and
expectations come from the TLA+ specification (spec/*.tla); this module only runs TLC,
reads what it emitted, hands it to a driver and keeps the books.
"""
import base64
import hashlib
import json
import os
import re
import shutil
import subprocess
import sys
import tempfile
import time

VERIF = os.path.dirname(os.path.dirname(os.path.abspath(__file__)))
REPO = os.environ.get('VERIF_REPO', '/repo')
SPEC = os.path.join(VERIF, 'spec')
NPROC = min(int(os.environ.get('VERIF_WORKERS', '16')), os.cpu_count() or 1)
TLA_JAR = '/opt/veriftools/tla/tla2tools.jar:/opt/veriftools/tla/CommunityModules-deps.jar'


class CallTimeout(Exception):
    """A call into the code under test did not return in time (an unbounded loop is an answer, and a wrong one)."""


class guard:
    """with core.guard(seconds): ...  raises CallTimeout inside the block (main thread only)."""

    def __init__(self, seconds=10.0):
        self.seconds = seconds

    def _fire(self, signum, frame):
        raise CallTimeout('no answer within %.0fs' % self.seconds)

    def __enter__(self):
        import signal
        self._old = signal.signal(signal.SIGALRM, self._fire)
        # re-armed every half second after the first expiry: code under test (construct's wrappers, `except Exception`
        # in a loop) may swallow the first CallTimeout; the next one lands somewhere that does not
        signal.setitimer(signal.ITIMER_REAL, self.seconds, 0.5)
        return self

    def __exit__(self, *a):
        import signal
        signal.setitimer(signal.ITIMER_REAL, 0)
        signal.signal(signal.SIGALRM, self._old)
        return False


class MachineryError(Exception):
    """Something in the verification machinery failed (exit 2, never a violation)."""


def use_repo():
    """Import elftools from the working tree under test, never from site-packages."""
    if sys.path[0] != REPO:
        sys.path.insert(0, REPO)
    for m in list(sys.modules):
        if m == 'elftools' or m.startswith('elftools.'):
            f = getattr(sys.modules[m], '__file__', '') or ''
            if not f.startswith(REPO + '/'):
                del sys.modules[m]
    import elftools
    if not elftools.__file__.startswith(REPO + '/'):
        raise MachineryError('elftools imported from %s, not %s' % (elftools.__file__, REPO))


def denote(v):
    """Number denotation of a spec value: Small ints are themselves, Wide values are
    little-endian base-256 digit strings {"d": [...]} (optionally signed "s")."""
    if isinstance(v, bool):
        return v
    if isinstance(v, int):
        return v
    if isinstance(v, dict):
        if 'd' in v:
            n = int.from_bytes(bytes(v['d']), 'little')
            if v.get('s') and v['d'] and v['d'][-1] >= 128:
                n -= 1 << (8 * len(v['d']))
            return n
        if 'n' in v and len(v) == 1:
            return v['n']
    raise MachineryError('not a number: %r' % (v,))


def jnorm(o):
    """Canonical JSON-able form for comparison / hashing."""
    if isinstance(o, (bytes, bytearray)):
        return list(o)
    if isinstance(o, dict):
        return {str(k): jnorm(v) for k, v in o.items()}
    if isinstance(o, (list, tuple)):
        return [jnorm(x) for x in o]
    return o


def digest(o):
    return hashlib.sha1(json.dumps(jnorm(o), sort_keys=True, default=str).encode()).hexdigest()[:16]


class TlcResult:
    def __init__(self):
        self.generated = 0
        self.distinct = 0
        self.depth = 0
        self.out = None
        self.stdout = ''
        self.wall = 0.0
        self.coverage = {}
        self.ok = True
        self.invariant_violated = None


class Run:
    """One execution of one check: temp dir, TLC calls, mismatch ledger, evidence."""

    def __init__(self, pid, tier, seed, level='model_checking'):
        self.pid = pid
        self.tier = tier
        self.seed = seed
        self.level = level
        self.t0 = time.time()
        self.tmp = tempfile.mkdtemp(prefix='verif_%s_' % pid)
        self.states = 0
        self.transitions = 0
        self.tlc_runs = []
        self.evaluations = 0
        self.nontrivial = set()
        self.samples = []
        self.validated = 0
        self.mismatches = []      # first few per (clause, tag)
        self.nviol = 0
        self.viol_keys = {}
        self.known_hits = {}      # finding id -> count
        self.drift = []
        self.notes = []
        self.assumptions = []
        self.extra = {}
        self.rule = ''
        self.known = load_known(pid)

    # ---------------------------------------------------------------- TLC
    def tlc(self, module, cfg, env=None, workers=None, simulate=None, depth=None,
            timeout=900, coverage=False, emit=True, extra_args=(), check_result=True):
        """Run TLC on spec/<module>.tla with spec/cfg/<cfg>.cfg.  Emitted cases (CSVWrite
        to IOEnv.OUT) land in a file whose path is returned in result.out."""
        res = TlcResult()
        tag = '%s_%d' % (cfg, len(self.tlc_runs))
        meta = os.path.join(self.tmp, 'meta_' + tag)
        out = os.path.join(self.tmp, 'out_' + tag + '.ndjson')
        e = dict(os.environ)
        e['OUT'] = out
        if env:
            e.update({k: str(v) for k, v in env.items()})
        cfgpath = cfg if os.path.isabs(cfg) else os.path.join(SPEC, 'cfg', cfg + '.cfg')
        modpath = module if os.path.isabs(module) else os.path.join(SPEC, module + '.tla')
        w = workers or NPROC
        cmd = ['java', '-XX:+UseParallelGC', '-Xmx8g', '-cp', TLA_JAR]
        cmd += ['-DTLA-Library=' + SPEC + os.pathsep + os.path.join(SPEC, 'trace')]
        cmd += ['tlc2.TLC', '-workers', str(w), '-metadir', meta, '-noGenerateSpecTE',
                '-config', cfgpath]
        if simulate:
            cmd += ['-simulate', 'num=%d' % simulate, '-seed', str(self.seed)]
            if depth:
                cmd += ['-depth', str(depth)]
        if coverage:
            cmd += ['-coverage', '1']
        cmd += list(extra_args)
        cmd += [modpath]
        t = time.time()
        try:
            p = subprocess.run(cmd, env=e, cwd=os.path.dirname(modpath), stdout=subprocess.PIPE,
                               stderr=subprocess.STDOUT, timeout=timeout, text=True)
        except subprocess.TimeoutExpired as ex:
            raise MachineryError('TLC timeout (%ds) on %s/%s' % (timeout, module, cfg))
        res.wall = time.time() - t
        res.stdout = p.stdout
        res.out = out if emit else None
        m = re.search(r'(\d+) states generated, (\d+) distinct states found', p.stdout)
        if m:
            res.generated, res.distinct = int(m.group(1)), int(m.group(2))
        m = re.search(r'The number of states generated: (\d+)', p.stdout)
        if m and not res.generated:
            res.generated = res.distinct = int(m.group(1))
        m = re.search(r'depth of the complete state graph search is (\d+)', p.stdout)
        if m:
            res.depth = int(m.group(1))
        m = re.search(r'Invariant (\S+) is violated', p.stdout)
        if m:
            res.invariant_violated = m.group(1)
        m2 = re.search(r'(Temporal properties were violated|Action property \S+ is violated|'
                       r'Deadlock reached|Assumption .* is false|The postcondition .* violated)', p.stdout)
        if m2 and not res.invariant_violated:
            res.invariant_violated = m2.group(1)
        # TLC can print an evaluation error (e.g. a StackOverflowError in the main thread) and still exit 0
        res.ok = (p.returncode == 0) and not re.search(r'^Error: ', p.stdout, re.M)
        if coverage:
            for mm in re.finditer(r'^<(\w+) line \d+, col \d+ to line \d+, col \d+ of module (\w+)>: (\d+):(\d+)',
                                  p.stdout, re.M):
                res.coverage[mm.group(1)] = res.coverage.get(mm.group(1), 0) + int(mm.group(4))
        self.states += res.distinct
        self.transitions += res.generated
        self.tlc_runs.append({'module': os.path.basename(modpath), 'cfg': os.path.basename(cfgpath),
                              'generated': res.generated, 'distinct': res.distinct, 'depth': res.depth,
                              'wall_s': round(res.wall, 2), 'mode': 'simulate' if simulate else 'exhaustive',
                              'coverage': res.coverage or None})
        shutil.rmtree(meta, ignore_errors=True)
        if check_result and not res.ok:
            if res.invariant_violated:
                # The specification itself refutes one of its own properties: that is a
                # defect of the model, not of the code -> machinery failure.
                raise MachineryError('TLC: %s on %s/%s\n%s' % (res.invariant_violated, module, cfg,
                                                               p.stdout[-3000:]))
            raise MachineryError('TLC failed (rc=%d) on %s/%s\n%s' % (p.returncode, module, cfg,
                                                                      p.stdout[-4000:]))
        return res

    @staticmethod
    def cases(path):
        """Cases emitted by CSVWrite("%1$s", <<ToJson(case)>>, IOEnv.OUT)."""
        if not path or not os.path.exists(path):
            return
        with open(path) as f:
            for line in f:
                line = line.strip()
                if not line:
                    continue
                v = json.loads(line)
                if isinstance(v, str):
                    v = json.loads(v)
                yield v

    def trace_file(self, name, events):
        p = os.path.join(self.tmp, name + '.ndjson')
        with open(p, 'w') as f:
            for ev in events:
                f.write(json.dumps(ev, separators=(',', ':')) + '\n')
        return p

    # ---------------------------------------------------------------- ledger
    def count(self, case_key=None, nontrivial=True, sample=None):
        self.evaluations += 1
        if nontrivial and case_key is not None:
            self.nontrivial.add(case_key if isinstance(case_key, (str, int)) else digest(case_key))
        if sample is not None and len(self.samples) < 4:
            self.samples.append(jnorm(sample))

    def mismatch(self, clause, tag, case, expected, observed, dev=None):
        """Record one disagreement between the specification's expectation and the code.
        `dev`: {deviation id: what the code is known to do there} as computed by the spec."""
        obs_n, exp_n = jnorm(observed), jnorm(expected)
        if dev:
            for fid, alt in dev.items():
                if fid in self.known and self.known[fid].get('status') == 'known' and jnorm(alt) == obs_n:
                    self.known_hits[fid] = self.known_hits.get(fid, 0) + 1
                    return
        sig = '%s:%s' % (clause, tag)
        for fid, k in self.known.items():
            if k.get('status') == 'known' and (k.get('signature') == sig or sig in k.get('signatures', ())):
                self.known_hits[fid] = self.known_hits.get(fid, 0) + 1
                return
        self.nviol += 1
        self.viol_keys[sig] = self.viol_keys.get(sig, 0) + 1
        if self.viol_keys[sig] <= 5:
            self.mismatches.append({'clause': clause, 'tag': tag, 'case': jnorm(case),
                                    'expected': exp_n, 'observed': obs_n})

    def compare(self, clause, tag, case, expected, observed, dev=None):
        if jnorm(expected) != jnorm(observed):
            self.mismatch(clause, tag, case, expected, observed, dev)
            return False
        return True

    # ---------------------------------------------------------------- finish
    def finish(self):
        wall = time.time() - self.t0
        rc = 0
        os.makedirs(os.path.join(VERIF, 'evidence'), exist_ok=True)
        rdir = os.path.join(VERIF, 'replays', self.pid)
        shutil.rmtree(rdir, ignore_errors=True)          # replays of earlier runs are stale
        replays = []
        if self.mismatches:
            rc = 1
            os.makedirs(rdir, exist_ok=True)
            seen = {}
            for mm in self.mismatches:
                key = mm['clause'] + ':' + str(mm['tag'])
                seen.setdefault(key, []).append(mm)
            for key, lst in sorted(seen.items()):
                fn = os.path.join(rdir, re.sub(r'[^A-Za-z0-9_.-]+', '_', key)[:100] + '.json')
                with open(fn, 'w') as f:
                    json.dump({'property': self.pid, 'clause': lst[0]['clause'], 'tag': lst[0]['tag'],
                               'count': self.viol_keys.get(key, len(lst)), 'first': lst[0], 'more': lst[1:5],
                               'tree': tree_rev()}, f, indent=1, default=str)
                replays.append(fn)
                print('VIOLATION property=%s replay=%s' % (self.pid, fn))
                print('  clause=%s tag=%s count=%d' % (lst[0]['clause'], lst[0]['tag'],
                                                      self.viol_keys.get(key, len(lst))))
                print('  expected=%s' % json.dumps(lst[0]['expected'], default=str)[:600])
                print('  observed=%s' % json.dumps(lst[0]['observed'], default=str)[:600])
        for fid, n in sorted(self.known_hits.items()):
            print('KNOWN-FINDING: property=%s %s %s (%d cases)' % (self.pid, fid,
                                                                  self.known[fid].get('description', ''), n))
        for d in self.drift[:20]:
            print('DRIFT property=%s %s' % (self.pid, d))
        cov = {
            'evaluations': max(self.evaluations, 0),
            'distinct_nontrivial': len(self.nontrivial),
            'rule': self.rule,
            'samples': self.samples[:4],
            'states': self.states,
            'transitions': self.transitions,
            'traces_validated_against_impl': self.validated,
            'tlc_runs': self.tlc_runs,
            'known_findings_matched': self.known_hits,
            'drift': self.drift[:50],
            'notes': self.notes,
            'exhaustive': bool(self.extra.get('exhaustive', False)),
        }
        cov.update({k: v for k, v in self.extra.items() if k != 'exhaustive'})
        ev = {'property_id': self.pid, 'tier': self.tier, 'seed': self.seed, 'level': self.level,
              'coverage': cov, 'assumptions': self.assumptions, 'wall_s': round(wall, 2),
              'violations': self.nviol, 'tree': tree_rev()}
        # runs against a scratch copy of the tree (VERIF_REPO) do not overwrite the evidence of /repo
        evdir = os.path.join(VERIF, 'evidence') if REPO == '/repo' else os.path.join(VERIF, 'replays', '_scratch_evidence')
        os.makedirs(evdir, exist_ok=True)
        with open(os.path.join(evdir, self.pid + '.json'), 'w') as f:
            json.dump(ev, f, indent=1, default=str)
        shutil.rmtree(self.tmp, ignore_errors=True)
        print('%s %s: evaluations=%d nontrivial=%d states=%d validated=%d violations=%d known=%d wall=%.1fs'
              % (self.pid, self.tier, self.evaluations, len(self.nontrivial), self.states, self.validated,
                 self.nviol, sum(self.known_hits.values()), wall))
        return rc

    def cleanup(self):
        shutil.rmtree(self.tmp, ignore_errors=True)


def tree_rev():
    try:
        rev = subprocess.run(['git', '-C', REPO, 'rev-parse', '--short', 'HEAD'], stdout=subprocess.PIPE,
                             stderr=subprocess.DEVNULL, text=True).stdout.strip()
        dirty = subprocess.run(['git', '-C', REPO, 'status', '--porcelain', '-uno'], stdout=subprocess.PIPE,
                               stderr=subprocess.DEVNULL, text=True).stdout.strip() != ''
        return rev + ('+dirty' if dirty else '')
    except Exception:
        return 'unknown'


def load_known(pid):
    p = os.path.join(VERIF, 'KNOWN_FINDINGS.json')
    if not os.path.exists(p):
        return {}
    with open(p) as f:
        data = json.load(f)
    return {k['id']: k for k in data.get('findings', []) if k.get('property') == pid}


def b64(b):
    return base64.b64encode(bytes(b)).decode()


def norm_exc(fn, *a, **kw):
    """Call fn; exceptions become {"exc": class name} so they compare like values."""
    try:
        return fn(*a, **kw)
    except Exception as ex:  # noqa
        return {'exc': type(ex).__name__}
