"""Vendored copy of compare_output from the project's test/run_readelf_tests.py (public domain, Eli Bendersky):
the tolerated differences the project documents (whitespace, letter case, hex zero padding, [...] truncation,
the View column, a few named special cases).  Vendored so that loosening the repository's runner cannot loosen C18."""
import platform
from difflib import SequenceMatcher


def compare_output(s1, s2):
    """ Compare stdout strings s1 and s2.
        s1 is from readelf, s2 from elftools readelf.py
        Return pair success, errmsg. If comparison succeeds, success is True
        and errmsg is empty. Otherwise success is False and errmsg holds a
        description of the mismatch.

        Note: this function contains some rather horrible hacks to ignore
        differences which are not important for the verification of pyelftools.
        This is due to some intricacies of binutils's readelf which pyelftools
        doesn't currently implement, features that binutils doesn't support,
        or silly inconsistencies in the output of readelf, which I was reluctant
        to replicate. Read the documentation for more details.
    """
    def prepare_lines(s):
        return [line for line in s.lower().splitlines() if line.strip()]

    lines1 = prepare_lines(s1)
    lines2 = prepare_lines(s2)

    flag_in_debug_line_section = False

    if len(lines1) != len(lines2):
        return False, 'Number of lines different: %s vs %s' % (
                len(lines1), len(lines2))

    # Position of the View column in the output file, if parsing readelf..decodedline
    # output, and the GNU readelf output contains the View column. Otherwise stays -1.
    view_col_position = -1
    for i in range(len(lines1)):
        if lines1[i].endswith('debug_line section:'):
            # .debug_line or .zdebug_line
            flag_in_debug_line_section = True

        # readelf spelling error for GNU property notes
        lines1[i] = lines1[i].replace('procesor-specific type', 'processor-specific type')

        # The view column position may change from CU to CU:
        if view_col_position >= 0 and lines1[i].startswith('cu:'):
            view_col_position = -1

        # Check if readelf..decodedline output line contains the view column
        if flag_in_debug_line_section and lines1[i].startswith('file name') and view_col_position < 0:
            view_col_position = lines1[i].find("view")
            stmt_col_position = lines1[i].find("stmt")

        # Excise the View column from the table, if any.
        # View_col_position is only set to a nonzero number if one of the previous
        # lines was a table header line with a "view" in it.
        # We assume careful formatting on GNU readelf's part - View column values
        # are not out of line with the View header.
        if view_col_position >= 0 and not lines1[i].endswith(':'):
            lines1[i] = lines1[i][:view_col_position] + lines1[i][stmt_col_position:]

        # Compare ignoring whitespace
        lines1_parts = lines1[i].split()
        lines2_parts = lines2[i].split()

        if ''.join(lines1_parts) != ''.join(lines2_parts):
            ok = False

            try:
                # Ignore difference in precision of hex representation in the
                # last part (i.e. 008f3b vs 8f3b)
                if (''.join(lines1_parts[:-1]) == ''.join(lines2_parts[:-1]) and
                    int(lines1_parts[-1], 16) == int(lines2_parts[-1], 16)):
                    ok = True
            except ValueError:
                pass

            sm = SequenceMatcher()
            sm.set_seqs(lines1[i], lines2[i])
            changes = sm.get_opcodes()
            if '[...]' in lines1[i]:
                # Special case truncations with ellipsis like these:
                #     .note.gnu.bu[...]        redelf
                #     .note.gnu.build-i        pyelftools
                # Or more complex for symbols with versions, like these:
                #     _unw[...]@gcc_3.0        readelf
                #     _unwind_resume@gcc_3.0   pyelftools
                for p1, p2 in zip(lines1_parts, lines2_parts):
                    dots_start = p1.find('[...]')
                    if dots_start != -1:
                        break
                ok = p1.endswith('[...]') and p1[:dots_start] == p2[:dots_start]
                if not ok:
                    dots_end = dots_start + 5
                    if len(p1) > dots_end and p1[dots_end] == '@':
                        ok = (    p1[:dots_start] == p2[:dots_start]
                              and p1[p1.rfind('@'):] == p2[p2.rfind('@'):])
            elif 'at_const_value' in lines1[i]:
                # On 32-bit machines, readelf doesn't correctly represent
                # some boundary LEB128 numbers
                val = lines2_parts[-1]
                num2 = int(val, 16 if val.startswith('0x') else 10)
                if num2 <= -2**31 and '32' in platform.architecture()[0]:
                    ok = True
            elif 'os/abi' in lines1[i]:
                if 'unix - gnu' in lines1[i] and 'unix - linux' in lines2[i]:
                    ok = True
            elif len(lines1_parts) == 3 and lines1_parts[2] == 'nt_gnu_property_type_0':
                # readelf does not seem to print a readable description for this
                ok = lines1_parts == lines2_parts[:3]
            else:
                for s in ('t (tls)', 'l (large)', 'd (mbind)'):
                    if s in lines1[i] or s in lines2[i]:
                        ok = True
                        break
            if not ok:
                errmsg = 'Mismatch on line #%s:\n>>%s<<\n>>%s<<\n (%r)' % (
                    i, lines1[i], lines2[i], changes)
                return False, errmsg
    return True, ''


