"""C13 - address-range and name lookup tables resolve to the right compilation unit.

Spec: spec/Lookup.tla (over DwarfForms.tla / Bytes.tla).  G only:
  ar   every table of the aranges writer -> DWARFInfo.get_aranges(): cu_offset_at_addr at every grid
       address (+ far below / far above) and .entries (as a bag) against CuAt / the entries view;
  nm   every table of the name-set writer, handed over as .debug_pubnames and as .debug_pubtypes ->
       mapping interface (iteration order, items, in, len, [], get), get_cu_headers under three
       first-access orders, get_DIE_from_lut_entry forwards and backwards on fresh objects; tables in which a name is
       published more than once (tag dup): key set, number of keys, the order facts that hold whichever occurrence a map
       keeps (prec), value = one of the encoded occurrences and the same through every access path, that occurrence's DIE;
       which occurrence the library keeps is counted (extra.dup_policy_observed), not asserted (C13_DUP_POLICY=first|last
       asserts it, for whoever judges one of them to be fixed);
  h    every finished history of the unit-cache machine replayed on a fresh DWARFInfo
       (get_CU_at / get_CU_containing / iter_CUs steps), each answer against the spec's answer.
Expected values are the ones TLC wrote; this file concretises bytes, calls the API, compares."""
import io
import json
import os

from . import core
from .core import denote

LEVEL = 'model_checking'

_SECS = ['debug_info_sec', 'debug_aranges_sec', 'debug_abbrev_sec', 'debug_frame_sec', 'eh_frame_sec', 'debug_str_sec',
         'debug_loc_sec', 'debug_ranges_sec', 'debug_line_sec', 'debug_pubtypes_sec', 'debug_pubnames_sec',
         'debug_addr_sec', 'debug_str_offsets_sec', 'debug_line_str_sec', 'debug_loclists_sec', 'debug_rnglists_sec',
         'debug_sup_sec', 'gnu_debugaltlink_sec', 'debug_types_sec']


def _mk(le, **secs):
    from elftools.dwarf.dwarfinfo import DWARFInfo, DwarfConfig, DebugSectionDescriptor
    kw = dict.fromkeys(_SECS)
    for n, b in secs.items():
        kw['debug_%s_sec' % n] = DebugSectionDescriptor(stream=io.BytesIO(b), name='.debug_' + n, global_offset=0,
                                                        size=len(b), address=0)
    return DWARFInfo(config=DwarfConfig(little_endian=le, machine_arch='x64', default_address_size=8), **kw)


def _exc(ex):
    return {'exc': type(ex).__name__}


# ------------------------------------------------------------------ (a) aranges
def _ar(run, case, ctx, qclasses):
    tag = case['tag']
    data = bytes(case['b'])
    brief = {'ctx': ctx['id'], 'le': ctx['le'], 'aranges': case['b']}
    try:
        ar = _mk(ctx['le'], aranges=data).get_aranges()
    except Exception as ex:
        run.mismatch('aranges.parse', tag, brief, 'table parsed', _exc(ex))
        return
    qa = ctx['qa_n']
    sets = case['sets']
    cus = [denote(s[4]) for s in sets]
    # every encoded tuple with its set header (order of .entries is not fixed by the property: bag)
    want = sorted((qa[a], l, cus[k - 1], sets[k - 1][0], sets[k - 1][1], sets[k - 1][2], sets[k - 1][3])
                  for a, l, k in case['ent'])
    try:
        got = sorted((e.begin_addr, e.length, e.info_offset, e.unit_length, e.version, e.address_size, e.segment_size)
                     for e in ar.entries)
    except Exception as ex:
        got = _exc(ex)
    if got != want:
        run.mismatch('aranges.entries', tag, brief, want, got)
    # the every-set-header view (what the readelf clone prints): sets that hold only their terminator appear as one null tuple.
    # It is reached through the documented keyword of ARanges._get_entries; a tree without that entry point is not judged.
    ge = getattr(ar, '_get_entries', None)
    if ge is not None and 'entE' in case:
        wantE = sorted((0 if z else qa[a], l, cus[k - 1], sets[k - 1][0], sets[k - 1][1], sets[k - 1][2], sets[k - 1][3])
                       for a, l, k, z in case['entE'])
        try:
            gotE = sorted((e.begin_addr, e.length, e.info_offset, e.unit_length, e.version, e.address_size, e.segment_size)
                          for e in ge(need_empty=True))
        except TypeError:
            gotE = None                      # signature changed: vocabulary, not behaviour
        except Exception as ex:
            gotE = _exc(ex)
        if gotE is not None and gotE != wantE:
            run.mismatch('aranges.entries_with_empty_sets', tag, brief, wantE, gotE)
    # lookups
    queries = [(qa[i], case['ans'][i], case['cls'][i]) for i in range(len(qa))]
    queries += [(x, 0, 'farbelow') for x in ctx['below_n']] + [(x, 0, 'farabove') for x in ctx['above_n']]
    bad = []
    for addr, k, cls in queries:
        exp = cus[k - 1] if k else None
        try:
            obs = ar.cu_offset_at_addr(addr)
        except Exception as ex:
            obs = _exc(ex)
        qclasses[cls] = qclasses.get(cls, 0) + 1
        if obs != exp or isinstance(obs, bool):
            bad.append([addr, cls, exp, obs])
    if bad:
        run.mismatch('aranges.cu_offset_at_addr', tag, brief, [[b[0], b[1], b[2]] for b in bad], [[b[0], b[1], b[3]] for b in bad])


# ------------------------------------------------------------------ (b) name tables
def _hdrs(lut):
    return [[h.unit_length, h.version, h.debug_info_offset, h.debug_info_length] for h in lut.get_cu_headers()]


def _nm(run, case, sec, policy):
    tag = case['tag']
    data = bytes(case['b'])
    names = [(bytes(n), cu, die, code) for n, cu, die, code in case['names']]
    brief = {'sec': sec['id'], 'le': sec['le'], 'table': case['b']}
    for which in ('pubnames', 'pubtypes'):
        def bad(clause, exp, obs):
            run.mismatch('%s.%s' % (which, clause), tag, brief, exp, obs)
        di = _mk(sec['le'], info=sec['info_b'], abbrev=sec['abbrev_b'], **{which: data})
        get = di.get_pubnames if which == 'pubnames' else di.get_pubtypes
        try:
            _nm_one(get, di, sec, names, case['hdrs'], tag, bad, which == 'pubnames',
                    {'nk': case['nk'], 'prec': case['prec'], 'f1': case['f1'], 'fl': case['fl'], 'policy': policy})
        except Exception as ex:
            import traceback
            tb = traceback.extract_tb(ex.__traceback__)
            bad('exception', 'no exception', 'exc:%s:%s @ %s:%d' % (type(ex).__name__, str(ex)[:80],
                                                                   tb[-1].filename.split('/')[-1], tb[-1].lineno))


def _nm_one(get, di, sec, names, hdrs, tag, bad, with_dies, extra):
    want_keys = [n for n, _, _, _ in names]
    want_items = [[n, cu, die] for n, cu, die, _ in names]
    # order 1: iteration first
    lut = get()
    keys = [k.encode('utf-8') for k in lut]
    if tag.startswith('dup'):
        _nm_dup(get, di, sec, names, hdrs, extra, bad, with_dies, lut, keys)
        return
    if keys != want_keys:
        bad('keys', want_keys, keys)
        return
    items = [[k.encode('utf-8'), v.cu_ofs, v.die_ofs] for k, v in lut.items()]
    if items != want_items:
        bad('items', want_items, items)
    if [k.encode('utf-8') for k in lut.keys()] != want_keys:
        bad('keys()', want_keys, [k.encode('utf-8') for k in lut.keys()])
    if len(lut) != len(names):
        bad('len', len(names), len(lut))
    if _hdrs(lut) != hdrs:
        bad('get_cu_headers', hdrs, _hdrs(lut))
    # order 2: headers first on a fresh table, then point lookups
    lut2 = get()
    if _hdrs(lut2) != hdrs:
        bad('get_cu_headers.first', hdrs, _hdrs(lut2))
    for n, cu, die, _ in reversed(names):
        s = n.decode('utf-8')
        if s not in lut2:
            bad('contains', True, False)
            continue
        e1, e2 = lut2[s], lut2.get(s)
        if [e1.cu_ofs, e1.die_ofs] != [cu, die] or [e2.cu_ofs, e2.die_ofs] != [cu, die] or tuple(e1) != (cu, die):
            bad('getitem', [cu, die], [list(e1), list(e2)])
    # order 3: membership / len first on a fresh table; absent names
    lut3 = get()
    absent = 'no such name'
    if absent in lut3 or lut3.get(absent) is not None or lut3.get(absent, 5) != 5:
        bad('absent', 'absent', 'present')
    if len(lut3) != len(names):
        bad('len.first', len(names), len(lut3))
    if [k.encode('utf-8') for k in lut3] != want_keys:
        bad('keys.after', want_keys, [k.encode('utf-8') for k in lut3])
    # entries -> DIEs, forwards on this DWARFInfo, backwards on a fresh one
    if with_dies:
        for order, d in (('fwd', di), ('rev', _mk(sec['le'], info=sec['info_b'], abbrev=sec['abbrev_b']))):
            seq = names if order == 'fwd' else list(reversed(names))
            for n, cu, die, code in seq:
                dd = d.get_DIE_from_lut_entry(lut[n.decode('utf-8')])
                obs = [dd.offset, dd.abbrev_code, dd.cu.cu_offset]
                if obs != [die, code, cu]:
                    bad('get_DIE_from_lut_entry.' + order, [die, code, cu], obs)


def _nm_dup(get, di, sec, names, hdrs, extra, bad, with_dies, lut, keys):
    """A name published more than once: a mapping has one slot per name.  Asserted: what holds whichever occurrence it keeps."""
    want = set(n for n, _, _, _ in names)
    cands = {}
    for n, cu, die, code in names:
        cands.setdefault(n, []).append([cu, die, code])
    prec = [(bytes(x), bytes(y)) for x, y in extra['prec']]

    def order_ok(ks):
        pos = {k: i for i, k in enumerate(ks)}
        return all(pos[x] < pos[y] for x, y in prec if x in pos and y in pos)

    def pick(k, v):
        """the encoded occurrence a value stands for (None: not an occurrence of that name)"""
        for c in cands.get(k, []):
            if [v.cu_ofs, v.die_ofs] == c[:2]:
                return c
        return None
    # order 1: iteration first
    if set(keys) != want or len(keys) != len(set(keys)):
        bad('keys', sorted(want), keys)
        return
    if not order_ok(keys):
        bad('order', sorted(prec), keys)
    held = {}
    for k, v in lut.items():
        kb = k.encode('utf-8')
        if pick(kb, v) is None:
            bad('value', [c[:2] for c in cands.get(kb, [])], [v.cu_ofs, v.die_ofs])
            return
        held[kb] = (v.cu_ofs, v.die_ofs)
    if [k.encode('utf-8') for k, _ in lut.items()] != keys or [k.encode('utf-8') for k in lut.keys()] != keys:
        bad('keys()', keys, [k.encode('utf-8') for k in lut.keys()])
    if len(lut) != extra['nk']:
        bad('len', extra['nk'], len(lut))
    if _hdrs(lut) != hdrs:
        bad('get_cu_headers', hdrs, _hdrs(lut))
    # one object, one answer: [], get, items agree
    for kb in keys:
        s = kb.decode('utf-8')
        e1, e2 = lut[s], lut.get(s)
        if not (tuple(e1) == tuple(e2) == held[kb]):
            bad('getitem', list(held[kb]), [list(e1), list(e2)])
    # order 2: headers first on a fresh table, then point lookups (every encoded occurrence's name, last to first)
    lut2 = get()
    if _hdrs(lut2) != hdrs:
        bad('get_cu_headers.first', hdrs, _hdrs(lut2))
    for n, _, _, _ in reversed(names):
        s = n.decode('utf-8')
        if s not in lut2:
            bad('contains', True, False)
            continue
        e1, e2 = lut2[s], lut2.get(s)
        if pick(n, e1) is None or tuple(e1) != tuple(e2):
            bad('getitem', [c[:2] for c in cands[n]], [list(e1), list(e2)])
    # order 3: membership / len first on a fresh table; absent names
    lut3 = get()
    absent = 'no such name'
    if absent in lut3 or lut3.get(absent) is not None or lut3.get(absent, 5) != 5:
        bad('absent', 'absent', 'present')
    if len(lut3) != extra['nk']:
        bad('len.first', extra['nk'], len(lut3))
    k3 = [k.encode('utf-8') for k in lut3]
    if set(k3) != want or len(k3) != len(want) or not order_ok(k3):
        bad('keys.after', sorted(want), k3)
    # the kept occurrence resolves to that occurrence's DIE
    if with_dies:
        for order, d in (('fwd', di), ('rev', _mk(sec['le'], info=sec['info_b'], abbrev=sec['abbrev_b']))):
            for kb in (keys if order == 'fwd' else list(reversed(keys))):
                v = lut[kb.decode('utf-8')]
                cu, die, code = pick(kb, v)
                dd = d.get_DIE_from_lut_entry(v)
                obs = [dd.offset, dd.abbrev_code, dd.cu.cu_offset]
                if obs != [die, code, cu]:
                    bad('get_DIE_from_lut_entry.' + order, [die, code, cu], obs)
    # which occurrence is kept: spec-marked first / last occurrence of every name; counted, asserted only on request
    first = {n: (cu, die) for (n, cu, die, _), f in zip(names, extra['f1']) if f}
    last = {n: (cu, die) for (n, cu, die, _), f in zip(names, extra['fl']) if f}
    pol = extra['policy']
    for kb in keys:
        if first[kb] == last[kb]:
            continue                        # published once, or twice for the same entry
        obs = 'first' if held[kb] == first[kb] else 'last' if held[kb] == last[kb] else 'other'
        pol['seen'][obs] = pol['seen'].get(obs, 0) + 1
        if pol['assert'] and obs != pol['assert']:
            bad('dup-policy', {'policy': pol['assert'], 'value': list((first if pol['assert'] == 'first' else last)[kb])},
                {'policy': obs, 'value': list(held[kb])})


# ------------------------------------------------------------------ (c) unit lookup histories
_CLAUSE = {'at': 'units.get_CU_at', 'containing': 'units.get_CU_containing', 'next': 'units.iter_CUs'}


def _hist(run, case, sec, only_step=None):
    di = _mk(sec['le'], info=sec['info_b'], abbrev=sec['abbrev_b'])
    size_of = sec['size_of']
    gen = None
    for i, (op, arg, ans) in enumerate(case['h']):
        if op == 'drop':
            gen = None                      # abandon a partially consumed iterator
            continue
        try:
            if op == 'at':
                cu = di.get_CU_at(arg)
            elif op == 'containing':
                cu = di.get_CU_containing(arg)
            else:
                if gen is None:
                    gen = di.iter_CUs()
                cu = next(gen)
            obs = None if cu is None else [cu.cu_offset, cu.size]
        except StopIteration:
            obs = 'stop'
        except Exception as ex:
            obs = _exc(ex)
        if only_step is not None and i != only_step:
            continue
        if ans >= 0:
            exp = [ans, size_of[ans]]
            ok = obs == exp
        elif ans == -2:
            exp, ok = 'stop', obs == 'stop'
        else:
            # outside the section: the property only implies "no unit"
            exp, ok = 'no unit', obs is None or isinstance(obs, dict)
        if not ok:
            run.mismatch(_CLAUSE[op], sec['id'], {'sec': sec['id'], 'le': sec['le'], 'info': sec['info'], 'abbrev': sec['abbrev'],
                                                 'history': case['h'], 'step': i}, exp, obs)
            return


# ------------------------------------------------------------------ driver
def check(run):
    run.rule = ('cases = (ar) every state of the aranges writer: tables of <= mt non-overlapping tuples over the abstract grid in '
                'every order and split into sets, per context (address size 4/8/mixed, byte order, placement of the grid); '
                '(nm) every state of the name-set writer over multi-unit sections; (h) every finished history = <= MaxPrefix '
                'first touches + one probe at every offset -1..size+1; non-trivial = at least one tuple / one name / one lookup; '
                'distinct by emitted bytes (ar, nm) or by the history itself (h)')
    run.assumptions += ['every generated aranges set starts at a multiple of its tuple size (Unaligned = FALSE): padding from the '
                        'section start and from the set start coincide (DWARF 2-5 6.1.2/7.21 do not name the origin; producers and most readers '
                        'measure from the set start, GDB and the library from the section start; C13_UNALIGNED=section|set runs either reading)',
                        'ARanges.entries compared as a bag (the property does not fix its order)',
                        'tables in which a name is published more than once (tag dup): key set, key count, order facts that hold '
                        'whichever occurrence is kept, value = one encoded occurrence, the same through every access path; WHICH '
                        'occurrence (first / last) is not fixed by the property, DWARF 6.1.1 or namelut.py\'s docstrings: not asserted',
                        'lookups outside .debug_info: any exception or None is accepted as "no unit"',
                        'names are UTF-8 (observed str keys are compared after .encode("utf-8") with the encoded bytes)',
                        'name sets may carry padding between their terminator and the end of unit_length (tag +pad): the next set '
                        'starts where unit_length says (DWARF5 7.2.2/7.19)']
    runs = [('Lookup_quick' if run.tier == 'quick' else 'Lookup_thorough', None, None)]
    if run.tier != 'quick':
        runs.append(('Lookup_sim', 3000, 12))
    if os.environ.get('C13_UNALIGNED'):
        # not part of any tier: sets starting at offsets that are not multiples of their tuple size (see Lookup.tla header);
        # C13_UNALIGNED=section: written with the section-relative reading of the tuple alignment, anything else: set-relative
        runs.append(('Lookup_unaligned_section' if os.environ['C13_UNALIGNED'] == 'section' else 'Lookup_unaligned', None, None))
    policy = {'seen': {}, 'assert': os.environ.get('C13_DUP_POLICY') or None}
    if policy['assert'] not in (None, 'first', 'last'):
        raise core.MachineryError('C13_DUP_POLICY must be first or last')
    kinds = {}
    qclasses = {}
    seen = set()
    for cfg, sim, depth in runs:
        res = run.tlc('Lookup', cfg, simulate=sim, depth=depth, workers=(1 if sim else None), timeout=1800)
        # pass 1: the per-context / per-section lines (addresses of the grid points, section blobs), wherever TLC wrote them
        ctxs, secs = {}, {}
        with open(res.out) as f:
            for line in f:
                if 'arctx' not in line and 'abbrev' not in line:
                    continue
                c = json.loads(line)
                if isinstance(c, str):
                    c = json.loads(c)
                if c['k'] == 'arctx':
                    c['qa_n'] = [denote(x) for x in c['qa']]
                    c['below_n'] = [denote(x) for x in c['below']]
                    c['above_n'] = [denote(x) for x in c['above']]
                    ctxs[c['id']] = c
                elif c['k'] == 'sec':
                    c['info_b'], c['abbrev_b'] = bytes(c['info']), bytes(c['abbrev'])
                    c['size_of'] = dict(zip(c['offs'], c['sizes']))
                    secs[c['id']] = c
        # pass 2: the cases
        cases = (c for c in run.cases(res.out) if c['k'] in ('ar', 'nm', 'h'))
        for c in cases:
            k = c['k']
            if k == 'ar':
                key = ('ar', c['ctx'], ctxs[c['ctx']].get('org', 'set'), bytes(c['b']))
                nontriv = bool(c['ent'])
            elif k == 'nm':
                key = ('nm', c['sec'], bytes(c['b']))
                nontriv = bool(c['names'])
            else:
                key = ('h', c['sec'], repr(c['h']))
                nontriv = True
            key = hash(key)
            if key in seen:
                continue
            seen.add(key)
            kinds[k] = kinds.get(k, 0) + 1
            run.count(key, nontrivial=nontriv)
            if k == 'ar':
                _ar(run, c, ctxs[c['ctx']], qclasses)
                if kinds[k] == 5000:
                    run.samples.append({'kind': 'aranges', 'ctx': c['ctx'], 'bytes': c['b'], 'entries(grid begin,len,set)': c['ent'],
                                        'sets(unit_length,version,asz,seg,cu)': c['sets'], 'answers(set index per grid address)': c['ans']})
            elif k == 'nm':
                _nm(run, c, secs[c['sec']], policy)
                if kinds[k] == 700:
                    run.samples.append({'kind': 'names', 'sec': c['sec'], 'bytes': c['b'], 'names(name,cu_ofs,die_ofs,code)': c['names'],
                                        'headers': c['hdrs']})
            else:
                _hist(run, c, secs[c['sec']])
                if kinds[k] == 9000:
                    run.samples.append({'kind': 'history', 'sec': c['sec'], 'info': secs[c['sec']]['info'],
                                        'unit offsets': secs[c['sec']]['offs'], 'history(op,arg,answer)': c['h']})
    run.validated = run.evaluations
    run.extra['cases_by_kind'] = kinds
    run.extra['aranges_queries_by_position_class'] = qclasses
    run.extra['dup_policy_observed'] = policy['seen']
    run.extra['exhaustive'] = True
    if not run.samples:
        run.samples.append({'note': 'no sample'})


def replay(run, path):
    """Re-run the calls recorded in a replay file (aranges.* and units.* clauses) against the tree under test."""
    rec = json.load(open(path))
    for mm in [rec['first']] + rec.get('more', []):
        c, clause, exp = mm['case'], mm['clause'], mm['expected']
        run.count(core.digest(c))
        if clause == 'aranges.cu_offset_at_addr':
            try:
                ar = _mk(c['le'], aranges=bytes(c['aranges'])).get_aranges()
            except Exception as ex:
                run.mismatch('aranges.parse', mm['tag'], c, 'table parsed', _exc(ex))
                continue
            obs = []
            for addr, cls, _want in exp:
                try:
                    obs.append([addr, cls, ar.cu_offset_at_addr(addr)])
                except Exception as ex:
                    obs.append([addr, cls, _exc(ex)])
            run.compare(clause, mm['tag'], c, exp, obs)
        elif clause in ('aranges.entries', 'aranges.parse'):
            try:
                ar = _mk(c['le'], aranges=bytes(c['aranges'])).get_aranges()
                obs = sorted([e.begin_addr, e.length, e.info_offset, e.unit_length, e.version, e.address_size, e.segment_size]
                             for e in ar.entries)
            except Exception as ex:
                obs = _exc(ex)
            if clause == 'aranges.entries':
                run.compare(clause, mm['tag'], c, exp, obs)
            elif isinstance(obs, dict):
                run.mismatch(clause, mm['tag'], c, exp, obs)
        elif clause.startswith('units.'):
            sec = {'id': c['sec'], 'le': c['le'], 'info': c['info'], 'abbrev': c['abbrev'], 'info_b': bytes(c['info']),
                   'abbrev_b': bytes(c['abbrev'])}
            h = c['history']
            # sizes of the expected units are only needed at the failing step: take them from the recorded expectation
            sec['size_of'] = _SizeFromExpectation(h, c['step'], exp)
            _hist(run, {'h': h[:c['step'] + 1]}, sec, only_step=c['step'])
        else:
            print('clause %s: no single-case replay, run ./check C13' % clause)
    return run.finish()


class _SizeFromExpectation(dict):
    def __init__(self, h, step, exp):
        dict.__init__(self)
        if isinstance(exp, list):
            self[exp[0]] = exp[1]

    def __missing__(self, k):
        return None
