"""C08 - relocation tables decode exactly; debug-section relocation follows the psABI.

Spec: spec/Reloc.tla over spec/Elf.tla (container) and spec/Bytes.tla (Wide arithmetic); trace spec:
spec/trace/RelocTrace.tla.

G: every finished state of the Reloc machine is one case.  Table cases (modes decode / apply / errors)
carry an ET_REL image (.debug_info, .rel[a].debug_info, .symtab, .strtab) as chunks, the reader's view of
the table (TableView) and the outcome of the apply machine (bytes of the section after the fold, or the
kind of refusal).  The driver writes the chunks, opens the file with ELFFile and compares
  * RelocationSection.num_relocations / get_relocation / iter_relocations / is_RELA (several consumption
    patterns, one expectation) with TableView;
  * the bytes of dwarfinfo.debug_info_sec.stream after get_dwarf_info(relocate_dwarf_sections=True) with
    the machine's buffer (attributed per relocated field; bytes outside every field separately), or the
    raised exception class with ELFRelocationError;
  * the same stream with relocate_dwarf_sections=False with the section's original bytes;
  * mode loads: ONE ELFFile asked 2-3 times, every sequence of relocate_dwarf_sections flags: each call's stream with the answer
    the spec's load machine gives for that call's flag (relocated buffer / ELFRelocationError / original bytes).
  * mode secaddr: the same comparison on ET_REL images whose symbols are DEFINED IN SECTIONS (.text / .data) that carry addresses
    (0 / small / high bit): the expectation is the apply machine's buffer, S = st_value whatever sh_addr says (clauses secaddr.*).
  * mode stack: 2-3 relocations on ONE field (same r_offset) in table order - REL S+A / S+A-P and the LoongArch ADDn / SUBn - the
    field must hold what sequential application leaves (= in-place value + the sum of the terms; clauses stack.*).
  * mode sess (cfg Reloc_sess[_thorough]): ONE table object (SHT_RELR section, .rel/.rela section, a REL / RELA / JMPREL / RELR table
    from get_relocation_tables() of the .dynamic section or the PT_DYNAMIC segment) is sent a sequence of calls (iterator abandoned
    after k items, num_relocations, get_relocation(i), full iteration, one more item of a held iterator); per call the answer the
    spec's session machine emitted (clauses sess.<call>, tag = table kind : the calls before this one).
RELR cases (modes relr / relrset) carry an image with one SHT_RELR section and the address sequence the
RELR machine yields; compared with RelrRelocationSection.iter_relocations / num_relocations /
get_relocation.  Dynamic cases (mode dyn) carry an ET_DYN image whose REL / RELA / JMPREL / RELR tables are named by the
dynamic tags; compared with get_relocation_tables() of the DynamicSection and of the DynamicSegment.

T: for every relocatable corpus object the unrelocated and the relocated stream of every loaded debug
section are diffed; per cluster of relocations (overlapping 8-byte windows at r_offset) one event
(machine, class, order, flavour, bytes before / after, chain of (type, S, A, r_offset)); the relocation
section is the one the gABI designates (sh_info).  RelocTrace.tla folds Reloc!ApplyStep over `before`
and compares with `after` (total verdict).  The RELR fixture: words + yielded offsets vs Reloc!RelrRun.

Python knows: digit strings -> int, the spelling of the library's entry fields, and how to cut windows."""
import glob
import io
import os

from . import core
from .elfutil import concretise, registry

LEVEL = 'model_checking'

MACH = {3: 'EM_386', 8: 'EM_MIPS', 21: 'EM_PPC64', 22: 'EM_S390', 40: 'EM_ARM', 62: 'EM_X86_64', 183: 'EM_AARCH64',
        243: 'EM_RISCV', 247: 'EM_BPF', 258: 'EM_LOONGARCH'}
DEBUG_ATTRS = ('debug_info_sec', 'debug_aranges_sec', 'debug_abbrev_sec', 'debug_frame_sec', 'eh_frame_sec', 'debug_str_sec',
               'debug_loc_sec', 'debug_ranges_sec', 'debug_line_sec', 'debug_pubtypes_sec', 'debug_pubnames_sec',
               'debug_addr_sec', 'debug_str_offsets_sec', 'debug_line_str_sec', 'debug_loclists_sec', 'debug_rnglists_sec',
               'debug_types_sec')


def _u(d):
    return int.from_bytes(bytes(d), 'little')


def _s(d):
    n = _u(d)
    return n - (1 << (8 * len(d))) if d and d[-1] >= 128 else n


def _digs(n, w):
    return list((n & ((1 << (8 * w)) - 1)).to_bytes(w, 'little'))


# ------------------------------------------------------------------------------------------ decode
def _want_entry(e, mips64, rela):
    off, info, sym, typ, add, ssym, t3, t2 = e
    w = {'r_offset': _u(off), 'r_info_sym': _u(sym), 'r_info_type': _u(typ)}
    w['r_info'] = _u(info)
    if mips64:
        w.update({'r_sym': _u(sym), 'r_ssym': ssym, 'r_type3': t3, 'r_type2': t2, 'r_type': _u(typ)})
    if rela:
        w['r_addend'] = _s(add)
    return w


def _got_entry(r, want, mips64, rela):
    g = {}
    for k in want:
        try:
            g[k] = r[k]
        except Exception as ex:
            g[k] = 'exc:' + type(ex).__name__
    g['is_RELA'] = r.is_RELA()
    if mips64:
        # the library's synonyms of the sub-fields, where it offers them
        for syn, f in (('r_info_ssym', 'r_ssym'), ('r_info_type2', 'r_type2'), ('r_info_type3', 'r_type3')):
            if syn in r.entry and r.entry[syn] != want[f]:
                g[syn] = r.entry[syn]
    if not rela and 'r_addend' in r.entry:
        g['r_addend'] = r.entry['r_addend']
    return g


def _decode(run, case, ef, bad):
    from elftools.elf.relocation import RelocationSection
    mips64 = case['cls'] == 64 and case['machine'] == 8
    rela = case['rela']
    name = ('.rela' if rela else '.rel') + '.debug_info'
    sec = ef.get_section_by_name(name)
    if not isinstance(sec, RelocationSection):
        bad('decode.class', 'RelocationSection', type(sec).__name__)
        return None
    want = [dict(_want_entry(e, mips64, rela), is_RELA=rela) for e in case['entries']]
    n = len(want)
    if sec.is_RELA() != rela:
        bad('decode.is_RELA', rela, sec.is_RELA())
    if sec.num_relocations() != n:
        bad('decode.num_relocations', n, sec.num_relocations())
        return sec

    def rend(rs):
        return [_got_entry(r, w, mips64, rela) for r, w in zip(rs, want)] + ['extra'] * max(0, len(rs) - n)
    pats = {'get': lambda: [sec.get_relocation(i) for i in range(n)],
            'iter': lambda: list(sec.iter_relocations())}
    if n <= 6 or run.evaluations % 16 == 0:
        def inter():
            a, b, out = sec.iter_relocations(), sec.iter_relocations(), []
            for x in a:
                out.append(x)
                next(b, None)
            return out

        def partial():
            it = sec.iter_relocations()
            next(it, None)
            del it
            return list(ef.get_section(2).iter_relocations())
        pats.update({'get_reversed': lambda: [sec.get_relocation(i) for i in reversed(range(n))][::-1],
                     'interleaved': inter, 'partial_then_full': partial})
    for pname, fn in pats.items():
        try:
            got = rend(fn())
        except Exception as ex:
            bad('decode.' + pname, 'entries', 'exc:%s:%s' % (type(ex).__name__, ex))
            continue
        if len(got) != n:
            bad('decode.%s.len' % pname, n, len(got))
        for i, (w, g) in enumerate(zip(want, got)):
            if w != g:
                diff = sorted(k for k in set(w) | set(g) if w.get(k) != g.get(k))
                bad('decode.entry', {'entry': i, 'fields': {k: w.get(k) for k in diff}}, {k: g.get(k) for k in diff},
                    field=','.join(diff))
                break
    return sec


# ------------------------------------------------------------------------------------------ apply
def _load(ELFFile, data, relocate):
    """-> bytes of the loaded .debug_info stream, or {'exc': class name}"""
    try:
        ef = ELFFile(io.BytesIO(data))
        di = ef.get_dwarf_info(relocate_dwarf_sections=relocate)
        return di.debug_info_sec.stream.getvalue()
    except Exception as ex:
        return {'exc': type(ex).__name__, 'msg': str(ex)[:120]}


_RECIPE_TOKENS = {3: ('X86',), 62: ('X64', 'X86_64'), 8: ('MIPS',), 40: ('ARM',), 183: ('AARCH64',), 21: ('PPC64',), 22: ('S390',),
                  247: ('EBPF', 'BPF'), 258: ('LOONGARCH',), 243: ('RISCV',)}


def _claims_support(machine, types):
    """Vocabulary only (keys, never formulas): does the tree under test list any of these type codes in a recipe table it keeps for
    this machine?  A type the library has since learnt to apply is inside "the supported set" - the specification, which has no
    formula for it, does not judge it (neither as an error nor as a value)."""
    from elftools.elf.relocation import RelocationHandler
    toks = _RECIPE_TOKENS.get(machine) or tuple(n[3:] for n, v in registry()['names'].items() if n.startswith('EM_') and v and v[0] == machine)
    for attr in dir(RelocationHandler):
        if attr.startswith('_RELOCATION_RECIPES_') and any(attr[len('_RELOCATION_RECIPES_'):].startswith(t) for t in toks):
            tab = getattr(RelocationHandler, attr)
            if isinstance(tab, dict) and any(t in tab for t in types):
                return True
    return False


def _apply(run, case, data, ELFFile, bad, stats, pre='apply'):
    """pre = 'secaddr': per field the tag also says where the relocation's symbol is defined (case['defs'][j] = <<st_shndx, class of
    that section's sh_addr>>, from the spec)."""
    defs = case.get('defs')
    mname = '%s/%d' % (MACH.get(case['machine'], str(case['machine'])), case['cls'])
    fl = 'RELA' if case['rela'] else 'REL'
    orig = bytes(case['orig'])
    got0 = _load(ELFFile, data, False)
    if got0 != orig:
        bad(pre + '.unrelocated', 'original section bytes', got0 if isinstance(got0, dict) else list(got0[:64]))
    got1 = _load(ELFFile, data, True)
    if case['err']:
        stats['refused'] += 1
        if case['err'] == 'unsupported' and not isinstance(got1, dict) and \
                _claims_support(case['machine'], [_u(e[3]) for e in case['entries']]):
            stats['unjudged_new_support'] = stats.get('unjudged_new_support', 0) + 1
            return
        if not (isinstance(got1, dict) and got1['exc'] == 'ELFRelocationError'):
            obs = got1 if isinstance(got1, dict) else ('no exception; section %s' % ('unchanged' if got1 == orig else 'modified'))
            bad(pre + '.error', 'ELFRelocationError', obs, tag='%s:%s:%s' % (case['err'], mname, fl))
        return
    want = bytes(case['bytes'])
    if isinstance(got1, dict):
        bad(pre + '.raises', 'relocated bytes', got1, tag='%s:%s:%s' % (mname, case['sub'], fl))
        return
    stats['applied'] += len(case['fields'])
    if got1 == want:
        return
    if len(got1) != len(want):
        bad(pre + '.length', len(want), len(got1))
        return
    inside = set()
    seen = set()
    for j, (off, w, cl) in enumerate(case['fields']):
        inside.update(range(off, off + w))
        if got1[off:off + w] != want[off:off + w]:
            tag = '%s:%s:%s:%s' % (mname, case['sub'], fl, cl)
            if defs:
                sh, ac = defs[j]
                tag = '%s:%s:%s:%s' % (mname, case['sub'], fl, 'absolute' if sh == 0xfff1 else 'defined-in-section-at-' + ac)
            if tag in seen:
                continue                      # one report per input class and image
            seen.add(tag)
            e = case['entries'][j]
            more = {'r_offset': off, 'width': w, 'S_index': _u(e[2]), 'A': _s(e[4]) if case['rela'] else None,
                    'in_place': list(orig[off:off + w])}
            if defs:
                more.update({'st_shndx': defs[j][0], 'sh_addr_of_.text_.data': case['addrs']})
            bad(pre + '.field', {'field': list(want[off:off + w])}, {'field': list(got1[off:off + w])}, tag=tag, more=more)
    outside = [i for i in range(len(want)) if i not in inside and got1[i] != want[i]]
    if outside:
        bad(pre + '.untouched', 'bytes outside every field unchanged', {'changed_at': outside[:8]},
            tag='%s:%s:%s' % (mname, case['sub'], fl))


def _twotabs(case, data, ELFFile, bad):
    """Two relocated sections whose tables designate different symbol tables, relocated with ONE RelocationHandler (both
    orders), and through get_dwarf_info: each result is the specification's for the table's own symbol table."""
    from elftools.elf.relocation import RelocationHandler
    from elftools.common.exceptions import ELFRelocationError
    mname = '%s/%d' % (MACH.get(case['machine'], str(case['machine'])), case['cls'])
    parts = (('.debug_info', case['a']), ('.debug_line', case['b']))
    for order in (parts, parts[::-1]):
        ef = ELFFile(io.BytesIO(data))
        h = RelocationHandler(ef)
        for name, want in order:
            sec = ef.get_section_by_name(name)
            rs = h.find_relocations_for_section(sec)
            if rs is None:
                bad('twotabs.find', 'relocation section of ' + name, None, tag=mname)
                continue
            stream = io.BytesIO(sec.data())
            try:
                h.apply_section_relocations(stream, rs)
                got = stream.getvalue()
            except ELFRelocationError:
                got = 'ELFRelocationError'
            exp = 'ELFRelocationError' if want['err'] else bytes(want['bytes'])
            if got != exp:
                bad('twotabs.apply', exp if isinstance(exp, str) else list(exp), got if isinstance(got, str) else list(got),
                    tag='%s:%s:%s' % (mname, name, 'first' if order[0][0] == name else 'second'))


def _loads(case, data, ELFFile, bad):
    """Mode loads: ONE ELFFile asked for its DWARF several times, each time with its own relocate_dwarf_sections flag.  Per call
    the spec says which answer is due (<<flag, refusal, "orig" | "bytes" | "none">>); an answer handed out earlier keeps its bytes."""
    mname = '%s/%d' % (MACH.get(case['machine'], str(case['machine'])), case['cls'])
    fl = 'RELA' if case['rela'] else 'REL'
    seq = ''.join('T' if c[0] else 'F' for c in case['calls'])
    ef = ELFFile(io.BytesIO(data))
    views = []
    for i, (flag, err, ref) in enumerate(case['calls']):
        tag = '%s:%s' % (seq[:i + 1], 'refusal' if case['err'] else 'ok')       # the calls so far, this one last
        try:
            di = ef.get_dwarf_info(relocate_dwarf_sections=flag)
            got = di.debug_info_sec.stream.getvalue()
        except Exception as ex:
            di, got = None, {'exc': type(ex).__name__, 'msg': str(ex)[:120]}
        if err:
            if not (isinstance(got, dict) and got['exc'] == 'ELFRelocationError'):
                bad('loads.error', 'ELFRelocationError', got if isinstance(got, dict) else 'no exception', tag=tag,
                    more={'call': i, 'calls': seq, 'table': '%s:%s' % (mname, fl)})
            continue
        want = bytes(case[ref])
        if got != want:
            bad('loads.bytes', {'call': i, 'flag': flag, 'section': list(want)}, got if isinstance(got, dict) else
                {'section': list(got), 'equals': 'relocated' if got == bytes(case['bytes']) else 'original' if got == bytes(case['orig']) else 'neither'},
                tag=tag, more={'calls': seq, 'table': '%s:%s:%s' % (mname, case['sub'], fl)})
            return
        views.append((i, di, want))
    for i, di, want in views:
        if di.debug_info_sec.stream.getvalue() != want:
            bad('loads.view_disturbed', {'call': i, 'section': list(want)}, {'section': list(di.debug_info_sec.stream.getvalue())},
                tag=seq, more={'calls': seq, 'table': '%s:%s:%s' % (mname, case['sub'], fl)})
            return


# ------------------------------------------------------------------------------------------ RELR
def _relr(run, case, ef, bad):
    from elftools.elf.relocation import RelrRelocationSection
    sec = ef.get_section_by_name('.relr.dyn')
    if not isinstance(sec, RelrRelocationSection):
        bad('relr.class', 'RelrRelocationSection', type(sec).__name__)
        return
    want = [_u(a) for a in case['addrs']]

    def offs(rs):
        return [r['r_offset'] for r in rs]

    def inter():
        a, b, out = sec.iter_relocations(), sec.iter_relocations(), []
        for x in a:
            out.append(x)
            next(b, None)
        return out

    def partial():
        it = sec.iter_relocations()
        next(it, None)
        del it
        return list(sec.iter_relocations())
    pats = [('iter', lambda: offs(sec.iter_relocations())), ('interleaved', lambda: offs(inter())),
            ('partial_then_full', lambda: offs(partial())), ('num', lambda: sec.num_relocations()),
            ('get', lambda: [sec.get_relocation(i)['r_offset'] for i in range(len(want))]),
            ('iter_after_cache', lambda: offs(sec.iter_relocations())), ('num_again', lambda: sec.num_relocations())]
    for pname, fn in pats:
        exp = len(want) if pname.startswith('num') else want
        try:
            got = fn()
        except Exception as ex:
            got = 'exc:%s:%s' % (type(ex).__name__, ex)
        if got != exp:
            bad('relr.' + pname, exp if isinstance(exp, int) else [hex(x) for x in exp[:12]],
                got if not isinstance(got, list) else [hex(x) for x in got[:12]])
            break


# ------------------------------------------------------------------------------------------ dynamic tables
def _dyn(run, case, ef, bad):
    from elftools.elf.dynamic import DynamicSection, DynamicSegment
    from elftools.elf.relocation import RelocationTable, RelrRelocationTable
    v = case['view']
    mips64 = case['cls'] == 64 and case['machine'] == 8
    holders = [('section', ef.get_section_by_name('.dynamic'), DynamicSection), ('segment', ef.get_segment(1), DynamicSegment)]
    for hname, h, cls in holders:
        if not isinstance(h, cls):
            bad('dyn.class', cls.__name__, type(h).__name__, field=hname)
            continue
        try:
            tabs = h.get_relocation_tables()
        except Exception as ex:
            bad('dyn.get_relocation_tables', 'tables', 'exc:%s:%s' % (type(ex).__name__, ex), field=hname)
            continue
        if sorted(tabs) != sorted(v['present']):
            bad('dyn.present', sorted(v['present']), sorted(tabs), field=hname)
            continue
        for name in sorted(tabs):
            t = tabs[name]
            if name == 'RELR':
                want = [_u(a) for a in v['RELR']]
                ok = isinstance(t, RelrRelocationTable)
                got = ok and {'iter': [r['r_offset'] for r in t.iter_relocations()], 'num': t.num_relocations(),
                              'get': [t.get_relocation(i)['r_offset'] for i in range(len(want))]}
                exp = {'iter': want, 'num': len(want), 'get': want}
            else:
                rela = {'REL': False, 'RELA': True, 'JMPREL': v['pltrela']}[name]
                want = [dict(_want_entry(e, mips64, rela), is_RELA=rela) for e in v[name]]
                ok = isinstance(t, RelocationTable)
                got = ok and {'is_RELA': t.is_RELA(), 'num': t.num_relocations(),
                              'iter': [_got_entry(r, w, mips64, rela) for r, w in zip(t.iter_relocations(), want)],
                              'get': [_got_entry(t.get_relocation(i), want[i], mips64, rela) for i in reversed(range(len(want)))][::-1]}
                exp = {'is_RELA': rela, 'num': len(want), 'iter': want, 'get': want}
            if not ok:
                bad('dyn.table_class', 'relocation table', type(t).__name__, field='%s:%s' % (hname, name))
            elif got != exp:
                k = next(k for k in exp if got[k] != exp[k])
                bad('dyn.' + k, exp[k], got[k], field='%s:%s' % (hname, name))


# ------------------------------------------------------------------------------------------ client sessions
_STOP = object()


def _sess_table(ef, o):
    """The ONE table object of a session, obtained the public way the spec's object names."""
    if o['kind'] == 'relrsec':
        return ef.get_section_by_name('.relr.dyn')
    if o['kind'] == 'relsec':
        return ef.get_section_by_name(('.rela' if o['rela'] else '.rel') + '.debug_info')
    holder = ef.get_section_by_name('.dynamic') if o['via'] == 'section' else ef.get_segment(1)
    return holder.get_relocation_tables()[o['tab']]


def _sessions(run, out, ELFFile, stats):
    """Mode sess: every emitted call sequence is replayed on a freshly obtained table object; each call's answer is compared with the
    one the session machine emitted for that call."""
    import itertools
    objs, sessions = {}, []
    for c in run.cases(out):
        if c.get('mode') != 'sess':
            raise core.MachineryError('unexpected case in the session run: %r' % (c.get('mode'),))
        if c['part'] == 'obj':
            c['data'] = concretise(c['chunks'])
            if c['id'] in objs:
                raise core.MachineryError('two session objects share the id %s' % c['id'])
            objs[c['id']] = c
        else:
            sessions.append(c)
    if not objs or not sessions:
        raise core.MachineryError('the session run emitted %d objects, %d sessions' % (len(objs), len(sessions)))
    for sc in sessions:
        o = objs.get(sc['id'])
        if o is None:
            raise core.MachineryError('session of an unknown object %s' % sc['id'])
        relr = o['tab'] == 'RELR'
        mips64 = o['cls'] == 64 and o['machine'] == 8
        rela = o['rela']
        what = '%s/%s' % (o['kind'], o['tab']) if o['kind'] != 'dyn' else 'dyn-%s/%s' % (o['via'], o['tab'])
        names = ['%s%s' % (c[0], c[1] if c[0] in ('abandon', 'get') else '') for c in sc['calls']]
        key = core.digest([sc['id'], names])
        run.count(key, nontrivial=len(names) > 1)
        stats['session_calls'] = stats.get('session_calls', 0) + len(names)
        brief = {'mode': 'sess', 'table': what, 'cls': o['cls'], 'le': o['le'], 'machine': o['machine'], 'rela': rela, 'calls': names,
                 'bytes_b64': core.b64(o['data'])}

        def want_items(items):
            if relr:
                return [_u(a) for a in items]
            return [dict(_want_entry(e, mips64, rela), is_RELA=rela) for e in items]

        def got_items(rs, want):
            if relr:
                return [r['r_offset'] for r in rs]
            return [_got_entry(r, w, mips64, rela) for r, w in zip(rs, want)] + ['extra'] * max(0, len(rs) - len(want))
        try:
            with core.guard(20):
                t = _sess_table(ELFFile(io.BytesIO(o['data'])), o)
        except Exception as ex:
            run.mismatch('sess.open', what, brief, 'the table object', 'exc:%s:%s' % (type(ex).__name__, ex))
            continue
        held, kept = None, []
        for i, (name, arg, n, items) in enumerate(sc['calls']):
            want = n if name == 'num' else want_items(items)
            try:
                with core.guard(20):
                    if name == 'abandon':
                        it = t.iter_relocations()
                        rs = list(itertools.islice(it, arg))
                        if arg % 2:
                            it.close() if hasattr(it, 'close') else None          # dropped explicitly ...
                        else:
                            kept.append(it)                                        # ... or left suspended until the session ends
                        got = got_items(rs, want)
                    elif name == 'num':
                        got = t.num_relocations()
                    elif name == 'get':
                        got = got_items([t.get_relocation(arg)], want)
                    elif name == 'full':
                        got = got_items(list(t.iter_relocations()), want)
                    elif name == 'next':
                        if held is None:
                            held = iter(t.iter_relocations())
                        x = next(held, _STOP)
                        got = got_items([] if x is _STOP else [x], want)
                    else:
                        raise core.MachineryError('unknown session call %r' % name)
            except core.MachineryError:
                raise
            except Exception as ex:
                got = 'exc:%s:%s' % (type(ex).__name__, str(ex)[:100])
            if got != want:
                def show(v):
                    return [hex(x) for x in v[:12]] if relr and isinstance(v, list) else v
                run.mismatch('sess.' + names[i], '%s:after(%s)' % (what, ','.join(names[:i])), dict(brief, call=i), show(want), show(got))
                break
    stats['session_objects'] = len(objs)
    return len(sessions)


# ------------------------------------------------------------------------------------------ T
def _corpus():
    out = []
    for d in ('test/testfiles_for_unittests', 'test/testfiles_for_readelf'):
        out += sorted(p for p in glob.glob(os.path.join(core.REPO, d, '*')) if os.path.isfile(p))
    return out


def _record(run, path, events, info, budget):
    """Events of one corpus file (see the module docstring)."""
    from elftools.elf.elffile import ELFFile
    from elftools.elf.relocation import RelocationSection, RelrRelocationSection
    with open(path, 'rb') as f:
        raw = f.read()
    if raw[:4] != b'\x7fELF':
        return
    try:
        ef = ELFFile(io.BytesIO(raw))
        secs = list(ef.iter_sections())
    except Exception:
        return
    base = os.path.basename(path)
    dummy = {'k': '', 'tid': '', 'm': 0, 'cls': ef.elfclass, 'le': bool(ef.little_endian), 'rela': False, 'lo': 0,
             'before': [], 'after': [], 'chain': [], 'rest': 0, 'words': [], 'addrs': []}
    for s in secs:
        if isinstance(s, RelrRelocationSection):
            ws = ef.elfclass // 8
            d = s.data()
            words = [list(d[i:i + ws]) if ef.little_endian else list(d[i:i + ws][::-1]) for i in range(0, len(d), ws)]
            addrs = [_digs(r['r_offset'], ws) for r in s.iter_relocations()]
            events.append(dict(dummy, k='relr', tid='%s:%s' % (base, s.name), words=words, addrs=addrs))
            info['relr'] += 1
    if ef['e_type'] != 'ET_REL':
        return
    names = [s.name for s in secs]
    try:
        unrel = ELFFile(io.BytesIO(raw)).get_dwarf_info(relocate_dwarf_sections=False)
    except Exception as ex:
        info['skipped'].append('%s: %s' % (base, type(ex).__name__))
        return
    try:
        rel = ELFFile(io.BytesIO(raw)).get_dwarf_info(relocate_dwarf_sections=True)
    except Exception as ex:
        # the object loads without relocation: with relocation it loads too, or is refused with the relocation error
        if type(ex).__name__ != 'ELFRelocationError':
            run.mismatch('trace.load', base, {'file': base}, 'relocated sections or ELFRelocationError', 'exc:%s:%s' % (type(ex).__name__, ex))
        info['skipped'].append('%s: %s' % (base, type(ex).__name__))
        return
    mach = ef.header['e_machine']
    from elftools.elf.enums import ENUM_E_MACHINE
    mcode = ENUM_E_MACHINE.get(mach, mach) if isinstance(mach, str) else mach
    ws = ef.elfclass // 8
    for attr in DEBUG_ATTRS:
        a, b = getattr(unrel, attr, None), getattr(rel, attr, None)
        if a is None or b is None:
            continue
        if names.count(a.name) != 1:
            info['ambiguous'].append('%s:%s' % (base, a.name))        # several sections of that name: which one is "the" section is not fixed
            continue
        idx = names.index(a.name)
        rsecs = [s for s in secs if isinstance(s, RelocationSection) and s['sh_info'] == idx]
        if len(rsecs) != 1:
            continue
        rs = rsecs[0]
        symtab = ef.get_section(rs['sh_link'])
        before, after = a.stream.getvalue(), b.stream.getvalue()
        if len(before) != len(after):
            events.append(dict(dummy, k='rest', tid='%s:%s' % (base, a.name), m=mcode, rest=abs(len(before) - len(after)) + 1))
            continue
        relocs = []
        for r in rs.iter_relocations():
            sym = symtab.get_symbol(r['r_info_sym'])
            relocs.append((r['r_offset'], r['r_info_type'], sym['st_value'], r['r_addend'] if rs.is_RELA() else 0,
                           sym['st_info']['type'] == 'STT_FUNC' and mcode == 40))
        order = sorted(range(len(relocs)), key=lambda i: relocs[i][0])
        clusters, cur, hi = [], [], -1
        for i in order:
            off = relocs[i][0]
            if cur and off < hi:
                cur.append(i)
            else:
                if cur:
                    clusters.append((cur, hi))
                cur = [i]
            hi = max(hi if len(cur) > 1 else -1, min(off + 8, len(before)))
        if cur:
            clusters.append((cur, hi))
        covered = bytearray(len(before))
        step = max(1, len(clusters) // budget) if budget else 1
        for ci, (members, hi) in enumerate(clusters):
            lo = relocs[members[0]][0]
            covered[lo:hi] = b'\x01' * (hi - lo)
            if ci % step:
                info['sampled_out'] += len(members)
                continue
            chain = [[relocs[i][1], _digs(relocs[i][2], 8), _digs(relocs[i][3], ws), relocs[i][0], bool(relocs[i][4])]
                     for i in sorted(members)]        # table order inside the cluster
            events.append(dict(dummy, k='reloc', tid='%s:%s@%d' % (base, a.name, lo), m=mcode, rela=bool(rs.is_RELA()), lo=lo,
                               before=list(before[lo:hi]), after=list(after[lo:hi]), chain=chain))
            info['relocs'] += len(members)
        rest, x, n = 0, 0, len(before)
        while x < n:                                   # gaps between clusters, compared slice-wise
            if covered[x]:
                x += 1
                continue
            y = covered.find(1, x)
            y = n if y < 0 else y
            if before[x:y] != after[x:y]:
                rest += sum(1 for z in range(x, y) if before[z] != after[z])
            x = y
        events.append(dict(dummy, k='rest', tid='%s:%s' % (base, a.name), m=mcode, rest=rest))
        info['sections'] += 1
    info['files'].append(base)


def _trace(run):
    import time
    t_rec = time.time()
    events = []
    info = {'relr': 0, 'relocs': 0, 'sections': 0, 'files': [], 'skipped': [], 'ambiguous': [], 'sampled_out': 0}
    budget = 1000 if run.tier == 'quick' else 0
    for p in _corpus():
        _record(run, p, events, info, budget)
    if not events:
        raise core.MachineryError('no corpus relocation events recorded')
    import time
    run.extra.setdefault('timing_s', {})['record_t'] = round(time.time() - t_rec, 1)
    trace = run.trace_file('relocs', events)
    res = run.tlc('RelocTrace', 'RelocTrace', env={'TRACE': trace}, workers=1, timeout=3000)
    verdicts = list(run.cases(res.out))
    if len(verdicts) != 1:
        raise core.MachineryError('RelocTrace wrote %d verdicts\n%s' % (len(verdicts), res.stdout[-2000:]))
    v = verdicts[0]
    if v['agree'] + v['outside'] + len(v['bad']) < len(events):
        raise core.MachineryError('trace not consumed: %r of %d' % ({k: v[k] for k in ('agree', 'outside')}, len(events)))
    for b in v['bad']:
        tid, kind, detail = b[0], b[1], b[2]
        run.mismatch('trace.' + kind, tid.split('@')[0], {'event': tid}, detail[0], detail[1])
    run.validated += v['agree']
    run.evaluations += len(events)
    for e in events[:: max(1, len(events) // 1500)]:
        run.nontrivial.add(core.digest([e['tid']]))
    run.extra['trace'] = {'events': len(events), 'agree': v['agree'], 'outside_supported_set': v['outside'], 'bad': len(v['bad']),
                          'relocations_recorded': info['relocs'], 'relocations_sampled_out': info['sampled_out'],
                          'sections': info['sections'], 'relr_sections': info['relr'], 'files': info['files'],
                          'skipped': info['skipped'], 'ambiguous_section_names_not_recorded': info['ambiguous']}
    ev = next((e for e in events if e['k'] == 'reloc' and len(e['chain']) > 1), None)
    if ev:
        run.samples.append({'trace_event': ev})


# ------------------------------------------------------------------------------------------ driver
def _assembled(lines):
    """Whole cases as they come; the big apply cases arrive in parts (see Reloc!EmitParts) and are put together by id
    once the stream is exhausted."""
    parts = {}
    for c in lines:
        if 'part' in c:
            parts.setdefault(c['id'], {}).setdefault(c['part'], {})[c['i']] = c['v']
        else:
            yield c
    for cid, p in sorted(parts.items()):
        if 'head' not in p:
            raise core.MachineryError('case %s: head part missing' % cid)
        h = p['head'][1]
        ch, eg = p.get('chunks', {}), p.get('entries', {})
        if sorted(ch) != list(range(1, h['nchunks'] + 1)) or sorted(eg) != list(range(1, h['ngroups'] + 1)) \
                or 'orig' not in p or 'bytes' not in p:
            raise core.MachineryError('case %s: parts missing' % cid)
        case = dict(h)
        case['chunks'] = [ch[i] for i in sorted(ch)]
        case['entries'] = [e for i in sorted(eg) for e in eg[i]]
        case['orig'], case['bytes'] = p['orig'][1], p['bytes'][1]
        yield case


def check(run):
    from elftools.elf.elffile import ELFFile
    run.rule = ('G cases = finished states of the Reloc machine: decode tables (<= MaxEntries entries out of 6 per class x 6 '
                'class/order/machine x REL/RELA), apply images (one per table row x flavour x class x order x r_addend: 49 '
                'relocations = 7 in-place x 7 symbol values), refusal images (unsupported type / flavour / symbol index), RELR '
                'streams, RELR encodings of address sets, images with dynamic-tag tables, flag sequences of 2-3 loads of one opened file; T events = clusters of corpus relocations; non-trivial = table '
                'with >= 1 entry or RELR stream with >= 1 bitmap; distinct by emitted image')
    run.assumptions += ['relocated fields lie inside the section; the RELOCATED section of a relocatable object has address 0 (sections that define symbols have any)',
                        'symbols are STT_NOTYPE symbols, absolute or defined in a section (no ARM T bit); MIPS64 composed relocations are not applied',
                        'ARM/RELA, AArch64/REL, R_ARM_CALL, R_MIPS_64/REL and EM_BPF are not asserted (psABI admits both or is unclear)',
                        'RELR streams start with an anchor and stay inside the address space',
                        'r_info of a MIPS64 entry = the number its eight info bytes denote in field order (sym, ssym, type3, type2, type), '
                        'i.e. what the r_info xword holds in a big-endian object']
    cfg = 'Reloc_quick' if run.tier == 'quick' else 'Reloc_thorough'
    from concurrent.futures import ThreadPoolExecutor
    side = 2 if core.NPROC >= 12 else 1
    with ThreadPoolExecutor(max_workers=2) as ex:
        # the call-sequence modes (loads + secaddr, client sessions): two small runs beside the main one
        fut = ex.submit(run.tlc, 'Reloc', 'Reloc_loads', None, side)
        fut_sess = ex.submit(run.tlc, 'Reloc', 'Reloc_sess' if run.tier == 'quick' else 'Reloc_sess_thorough', None, side)
        res = run.tlc('Reloc', cfg, workers=max(1, core.NPROC - 2 * side))
        res_loads = fut.result()
        res_sess = fut_sess.result()
    seen = set()
    stats = {'applied': 0, 'refused': 0, 'decode_entries': 0, 'relr_addresses': 0, 'dynamic_tables': 0}
    bymode = {}
    import itertools
    for case in itertools.chain(_assembled(run.cases(res.out)), run.cases(res_loads.out)):
        mode = case['mode']
        key = core.digest([mode, case['chunks'], case.get('calls')])
        if key in seen:
            continue
        seen.add(key)
        data = concretise(case['chunks'])
        table = mode in ('decode', 'apply', 'errors', 'secaddr', 'stack')
        nontriv = bool(case['entries']) if table else bool(case['view']['present']) if mode == 'dyn' else True if mode in ('twotabs', 'loads') \
            else any(w[0] % 2 for w in case['words'])
        run.count(key, nontrivial=nontriv)
        bymode[mode] = bymode.get(mode, 0) + 1
        base_tag = '%d%s' % (case['cls'], 'le' if case['le'] else 'be')
        if table:
            base_tag += ':%s:%s' % ('mips64' if case['cls'] == 64 and case['machine'] == 8 else 'generic', 'rela' if case['rela'] else 'rel')
        brief = {'mode': mode, 'cls': case['cls'], 'le': case['le'], 'machine': case.get('machine'), 'rela': case.get('rela'),
                 'sub': case.get('sub'), 'bytes_b64': core.b64(data) if len(data) < 6000 else None,
                 'words': case.get('words') if not table else None}

        def bad(clause, exp, obs, tag=None, field=None, more=None, _brief=brief, _bt=base_tag):
            c = dict(_brief)
            if more:
                c.update(more)
            run.mismatch(clause, tag or (_bt + (':' + field if field else '')), c, exp, obs)
        try:
            ef = ELFFile(io.BytesIO(data))
        except Exception as ex:
            bad('open', 'ELFFile', 'exc:%s:%s' % (type(ex).__name__, ex))
            continue
        try:
            if table:
                _decode(run, case, ef, bad)
                stats['decode_entries'] += len(case['entries'])
                if mode != 'decode':
                    _apply(run, case, data, ELFFile, bad, stats, pre=mode if mode in ('secaddr', 'stack') else 'apply')
            elif mode == 'twotabs':
                _twotabs(case, data, ELFFile, bad)
            elif mode == 'loads':
                _loads(case, data, ELFFile, bad)
                stats['load_calls'] = stats.get('load_calls', 0) + len(case['calls'])
            elif mode == 'dyn':
                _dyn(run, case, ef, bad)
                stats['dynamic_tables'] += 2 * len(case['view']['present'])
            else:
                _relr(run, case, ef, bad)
                stats['relr_addresses'] += len(case['addrs'])
        except Exception as ex:
            import traceback
            bad('exception', 'no exception', 'exc:%s:%s @ %s' % (type(ex).__name__, ex, traceback.format_exc().splitlines()[-3].strip()))
        if len(run.samples) < 3 and nontriv and ((mode == 'apply' and not any(s.get('mode') == 'apply' for s in run.samples))
                                                 or (mode == 'relrset' and len(case['words']) > 2 and not any(s.get('mode') == 'relrset' for s in run.samples))
                                                 or (mode == 'errors' and not any(s.get('mode') == 'errors' for s in run.samples))):
            smp = {'mode': mode, 'cls': case['cls'], 'le': case['le'], 'file_size': len(data)}
            if table:
                smp.update({'machine': MACH.get(case['machine']), 'row': case['sub'], 'rela': case['rela'], 'entries': case['entries'][:2],
                            'fields': case['fields'][:2], 'orig': case['orig'][:22], 'expected_bytes': case['bytes'][:22], 'err': case['err']})
            elif mode != 'dyn':
                smp.update({'words': case['words'], 'addrs': case['addrs']})
            run.samples.append(smp)
    t_s = __import__('time').time()
    bymode['sess'] = _sessions(run, res_sess.out, ELFFile, stats)
    run.extra.setdefault('timing_s', {})['replay_sessions'] = round(__import__('time').time() - t_s, 1)
    run.validated = run.evaluations
    import time
    run.extra['timing_s'].update({'tlc_g': round(res.wall, 1), 'tlc_loads': round(res_loads.wall, 1), 'tlc_sess': round(res_sess.wall, 1),
                                  'replay_g': round(time.time() - run.t0 - max(res.wall, res_loads.wall, res_sess.wall), 1)})
    run.extra['cases_by_mode'] = bymode
    run.extra['g_totals'] = stats
    if not bymode:
        raise core.MachineryError('TLC emitted no cases\n' + res.stdout[-2000:])
    _trace(run)
