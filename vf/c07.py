"""C07 - location and range lists decode to exactly the encoded entries.

Spec: spec/LocRange.tla (over spec/DwarfForms.tla, spec/Bytes.tla).  G: every finished object of the
LocRange writer (entry kinds x operand classes, lists over the kind alphabet, sections of unit blocks
with offset tables / gaps / view pairs, both section generations side by side) is handed to DWARFInfo
as raw section blobs together with the minimal units (bytes from the spec) whose attributes designate
the lists; every fetching / enumerating / classifying API is compared with the specification's view.
The Classify cube is replayed into LocationParser.attribute_has_location / parse_from_attribute.
Python only concretises bytes, calls the public API, normalises the returned tuples and compares."""
import io
import signal

from . import core

LEVEL = 'model_checking'


def _int(d):
    return core.denote({'d': d})


# ------------------------------------------------------------------ expectations (from the spec's view)
def _lists_of(sv):
    """Expand the compact emission: list id -> {'off', 'raw': [(k, o, n, ops, e)], 'tr': [(c, a, b, x)], 'pairs'};
    a suffix list <<id, skip>> is the whole list without its first `skip` entries, starting at that entry's offset."""
    out = []
    for l in sv['lists']:
        if 'of' in l:
            m, skip = out[l['of'][0] - 1], l['of'][1]
            out.append({'off': m['raw'][skip][1], 'raw': m['raw'][skip:], 'tr': m['tr'][skip:], 'pairs': []})
        else:
            out.append(l)
    return out


def _exp_tr(which, L):
    out = []
    for (k, o, n, ops, e), (c, a, b, x) in zip(L['raw'], L['tr']):
        if which == 'loc':
            if c == 'base':
                out.append({'c': 'base', 'o': o, 'n': n, 'a': _int(a)})
            elif c == 'default':
                # documented: "default location entries are returned as LocationEntry with begin_offset == end_offset == -1"
                out.append({'c': 'default', 'o': o, 'n': n, 'e': list(e)})
            else:
                out.append({'c': 'ent', 'o': o, 'n': n, 'a': _int(a), 'b': _int(b), 'e': list(e), 'x': x})
        else:
            if c == 'base':
                out.append({'c': 'base', 'o': o, 'a': _int(a)})       # the API exposes no length here
            else:
                out.append({'c': 'ent', 'o': o, 'n': n, 'a': _int(a), 'b': _int(b), 'x': x})
    return out


def _exp_pairs(pairs):
    return [{'c': 'view', 'o': p[0], 'a': p[1], 'b': p[2]} for p in pairs]


def _exp_raw(which, raw):
    pre = 'DW_LLE_' if which == 'loc' else 'DW_RLE_'
    return [{'k': pre + k, 'o': o, 'n': n, 'ops': [_int(x) for x in ops]} for (k, o, n, ops, e) in raw]


# ------------------------------------------------------------------ observations (normalised API results)
def _obs_tr(which, lst):
    out = []
    for e in lst:
        t = type(e).__name__
        if t == 'LocationViewPair':
            out.append({'c': 'view', 'o': e.entry_offset, 'a': e.begin, 'b': e.end})
        elif t == 'BaseAddressEntry':
            if which == 'loc':
                out.append({'c': 'base', 'o': e.entry_offset, 'n': e.entry_length, 'a': e.base_address})
            else:
                out.append({'c': 'base', 'o': e.entry_offset, 'a': e.base_address})
        elif t == 'LocationEntry':
            if e.begin_offset == -1 and e.end_offset == -1:
                out.append({'c': 'default', 'o': e.entry_offset, 'n': e.entry_length, 'e': list(e.loc_expr)})
            else:
                out.append({'c': 'ent', 'o': e.entry_offset, 'n': e.entry_length, 'a': e.begin_offset, 'b': e.end_offset,
                            'e': list(e.loc_expr), 'x': bool(e.is_absolute)})
        elif t == 'RangeEntry':
            out.append({'c': 'ent', 'o': e.entry_offset, 'n': e.entry_length, 'a': e.begin_offset, 'b': e.end_offset,
                        'x': bool(e.is_absolute)})
        else:
            out.append({'c': 'unknown:' + t})
    return out


RAW_FIELDS = {'base_addressx': ('index',), 'startx_endx': ('start_index', 'end_index'), 'startx_length': ('start_index', 'length'),
              'offset_pair': ('start_offset', 'end_offset'), 'base_address': ('address',), 'start_end': ('start_address', 'end_address'),
              'start_length': ('start_address', 'length'), 'default_location': ()}


def _obs_raw(lst):
    out = []
    for e in lst:
        k = e.entry_type
        short = k[7:] if isinstance(k, str) else str(k)
        out.append({'k': k, 'o': e.entry_offset, 'n': e.entry_length, 'ops': [e[f] for f in RAW_FIELDS.get(short, ())]})
    return out


def _call(fn, *a, **kw):
    try:
        return fn(*a, **kw)
    except Exception as ex:  # noqa - an exception is an observation like any other
        import traceback
        tb = traceback.extract_tb(ex.__traceback__)
        return {'exc': type(ex).__name__, 'at': '%s:%d' % (tb[-1].filename.split('/')[-1], tb[-1].lineno)}


def _is_exc(v):
    return isinstance(v, dict) and 'exc' in v


def _multiset(lists):
    import json
    return sorted(json.dumps(x, sort_keys=True) for x in lists)


# ------------------------------------------------------------------ the object under test
SECARG = {('loc', 4): 'debug_loc_sec', ('loc', 5): 'debug_loclists_sec', ('rng', 4): 'debug_ranges_sec', ('rng', 5): 'debug_rnglists_sec'}
SECNAME = {('loc', 4): '.debug_loc', ('loc', 5): '.debug_loclists', ('rng', 4): '.debug_ranges', ('rng', 5): '.debug_rnglists'}


def _mk(case):
    from elftools.dwarf.dwarfinfo import DWARFInfo, DwarfConfig, DebugSectionDescriptor

    def sec(b, name):
        b = bytes(b)
        return DebugSectionDescriptor(stream=io.BytesIO(b), name=name, global_offset=0, size=len(b), address=0)
    kw = dict(debug_info_sec=sec(case['info'], '.debug_info'), debug_aranges_sec=None, debug_abbrev_sec=sec(case['abbrev'], '.debug_abbrev'),
              debug_frame_sec=None, eh_frame_sec=None, debug_str_sec=None, debug_loc_sec=None, debug_ranges_sec=None,
              debug_line_sec=None, debug_pubtypes_sec=None, debug_pubnames_sec=None,
              debug_addr_sec=sec(case['addr'], '.debug_addr') if case['addr'] else None, debug_str_offsets_sec=None,
              debug_line_str_sec=None, debug_loclists_sec=None, debug_rnglists_sec=None, debug_sup_sec=None,
              gnu_debugaltlink_sec=None, debug_types_sec=None)
    for sv in case['secs']:
        key = (sv['which'], sv['lv'])
        kw[SECARG[key]] = sec(sv['bytes'], SECNAME[key])
    return DWARFInfo(config=DwarfConfig(little_endian=case['le'], machine_arch='x64', default_address_size=case['asz']), **kw)


LIMIT = 5000


def _bounded(it):
    """A broken enumerator may never stop: cut it off (the cut is an observation, not a hang of the harness)."""
    for i, x in enumerate(it):
        if i >= LIMIT:
            raise OverflowError('enumeration yields more than %d items' % LIMIT)
        yield x


class _Timeout(Exception):
    pass


def _alarm(signum, frame):
    raise _Timeout('no result within the per-case time limit')


def _consume(factory, norm):
    """One iterator-returning API, several plain consumption patterns (never interleaved with other calls on
    the same stream): flat list(), explicit next() loop, partial-then-abandoned followed by a fresh full pass."""
    outs = []

    def flat():
        return [norm(x) for x in _bounded(factory())]

    def stepwise():
        it = iter(_bounded(factory()))
        got = []
        while True:
            try:
                x = next(it)
            except StopIteration:
                return got
            got.append(norm(x))

    def abandoned():
        it = iter(_bounded(factory()))
        next(it, None)
        del it
        return [norm(x) for x in _bounded(factory())]
    for name, f in (('list', flat), ('next', stepwise), ('abandon+list', abandoned)):
        outs.append((name, _call(f)))
    return outs


def _one(case, bad):
    from elftools.dwarf.locationlists import LocationParser, LocationExpr
    di = _mk(case)
    cus = list(di.iter_CUs())
    if len(cus) != len(case['units']):
        bad('units.count', 'machinery', len(case['units']), len(cus))
        return
    pair = len(case['secs']) == 2
    ll = di.location_lists()
    rl = di.range_lists()
    mode = case['mode']
    lists = [_lists_of(sv) for sv in case['secs']]
    for cu, uv in zip(cus, case['units']):
        sv = case['secs'][uv['sec'] - 1]
        svl = lists[uv['sec'] - 1]
        which, lv, ver = sv['which'], sv['lv'], uv['ver']
        g = '%s%d' % (which, lv)
        if cu['version'] != ver or cu.structs.dwarf_format != uv['fmt']:
            bad('unit.header', 'machinery', [ver, uv['fmt']], [cu['version'], cu.structs.dwarf_format])
            continue
        kids = list(cu.get_top_DIE().iter_children())
        if len(kids) != uv['entries']:
            bad('unit.children', 'machinery', uv['entries'], len(kids))
            continue
        for rr in uv['refs']:
            r = dict(zip(('name', 'form', 'kind', 'val', 'lid', 'ix', 'entry'), rr))
            die = kids[r['entry'] - 1]          # the debugging entry that carries this reference (possibly with others)
            attr = die.attributes.get(r['name'])
            if attr is None or attr.form != r['form']:
                bad('attr.present', 'machinery', [r['name'], r['form']], None if attr is None else [attr.name, attr.form])
                continue
            ftag = '%s/v%d' % (r['form'], ver)
            if r['kind'] == 'expr':
                has = _call(LocationParser.attribute_has_location, attr, ver)
                if has is not True:
                    bad('classify.unit_attr', ftag, 'expression', has)
                got = _call(LocationParser(ll).parse_from_attribute, attr, ver, die)
                obs = {'expr': list(got.loc_expr)} if isinstance(got, LocationExpr) else got if _is_exc(got) else {'type': type(got).__name__}
                if obs != {'expr': list(r['val'])}:
                    bad('parse_from_attribute.expr', ftag, {'expr': r['val']}, obs)
                continue
            L = svl[r['lid'] - 1]
            etag = '%s/%s' % (g, case['tag']) if mode == 'kinds' else '%s/%s' % (g, r['form'])
            # the value of the attribute designates the list (offset forms: the offset; index forms: base + offsets[i])
            if attr.value != r['val']:
                bad('attr.value', ftag, r['val'], attr.value)
                continue
            want = _exp_tr(which, L)
            if which == 'loc':
                has = _call(LocationParser.attribute_has_location, attr, ver)
                if has is not True:
                    bad('classify.unit_attr', ftag, 'list', has)
                got = _call(LocationParser(ll).parse_from_attribute, attr, ver, die)
                obs = got if _is_exc(got) else _obs_tr(which, got) if isinstance(got, list) else {'type': type(got).__name__}
                if obs != want:
                    bad('parse_from_attribute.list', etag, want, obs)
                got = _call(ll.get_location_list_at_offset, r['val'], die)
                obs = got if _is_exc(got) else _obs_tr(which, got)
                if obs != want:
                    bad('get_location_list_at_offset', etag, want, obs)
                if lv == 4 and not pair:
                    # DWARF2-4 lists need no unit context ("Passing the die is only neccessary in DWARF5+")
                    got = _call(ll.get_location_list_at_offset, r['val'])
                    obs = got if _is_exc(got) else _obs_tr(which, got)
                    if obs != want:
                        bad('get_location_list_at_offset.nodie', etag, want, obs)
            else:
                got = _call(rl.get_range_list_at_offset, r['val'], cu)
                obs = got if _is_exc(got) else _obs_tr(which, got)
                if obs != want:
                    bad('get_range_list_at_offset', etag, want, obs)
                if lv == 5:
                    raw = _call(rl.get_range_list_at_offset_ex, r['val'])
                    wraw = _exp_raw(which, L['raw'])
                    obs = raw if _is_exc(raw) else _obs_raw(raw)
                    if obs != wraw:
                        bad('get_range_list_at_offset_ex', etag, wraw, obs)
                    elif not _is_exc(raw):
                        got = _call(lambda: [rl.translate_v5_entry(e, cu) for e in raw])
                        obs = got if _is_exc(got) else _obs_tr(which, got)
                        if obs != want:
                            bad('translate_v5_entry', etag, want, obs)
    # ---- enumerations (fresh object; each API consumed in several plain patterns)
    di2 = _mk(case)
    for sv, svl in zip(case['secs'], lists):
        which, lv = sv['which'], sv['lv']
        g = '%s%d' % (which, lv)
        obj = di2.location_lists() if which == 'loc' else di2.range_lists()
        if lv == 5:
            # unit blocks of the section
            wantb = [{'cu_offset': b['off'], 'unit_length': b['ul'], 'is64': b['is64'], 'version': b['ver'], 'address_size': b['asz'],
                      'segment_selector_size': b['seg'], 'offset_count': b['oc'], 'offset_table_offset': b['toff'],
                      'offset_after_length': b['oal'], 'offsets': list(b['rel'])} for b in sv['blocks']]

            def normh(h):
                d = {k: h[k] for k in ('cu_offset', 'unit_length', 'is64', 'version', 'address_size', 'segment_selector_size',
                                       'offset_count', 'offset_table_offset', 'offset_after_length')}
                d['offsets'] = list(h['offsets'] or [])          # an empty table is reported as False
                return d
            fmts = 'fmt' + '+'.join(sorted({'64' if b['is64'] else '32' for b in sv['blocks']}))
            # (LocationListsPair.iter_CUs is documented as unsupported; RangeListsPair.iter_CUs forwards to the v5 section)
            for pat, obs in ([] if pair and which == 'loc' else _consume(obj.iter_CUs, normh)):
                if obs != wantb:
                    bad('%s.iter_CUs' % g, fmts, wantb, obs, pattern=pat)
                    break
            if which == 'rng':
                hdrs = _call(lambda: list(_bounded(obj.iter_CUs())))
                if not _is_exc(hdrs) and len(hdrs) == len(sv['blocks']):
                    # flat: headers first, then the lists of each block
                    for h, b in zip(hdrs, sv['blocks']):
                        if not b['tiled']:
                            continue
                        wantl = [_exp_raw(which, svl[lid - 1]['raw']) for lid in b['lids']]
                        t = 'oc-nonzero' if b['oc'] > 0 else 'oc-zero'
                        for pat, obs in _consume(lambda: obj.iter_CU_range_lists_ex(h), _obs_raw):
                            if obs != wantl:
                                bad('rng5.iter_CU_range_lists_ex', t, wantl, obs, pattern=pat)
                                break
                    # nested (the documented use: "where CU comes from iter_CUs above"); inner iterator drained each time
                    if all(b['tiled'] for b in sv['blocks']):
                        wantn = [[_exp_raw(which, svl[lid - 1]['raw']) for lid in b['lids']] for b in sv['blocks']]
                        obs = _call(lambda: [[_obs_raw(l) for l in _bounded(obj.iter_CU_range_lists_ex(h))] for h in _bounded(obj.iter_CUs())])
                        if obs != wantn:
                            bad('rng5.iter_CU_range_lists_ex.nested', 'oc-nonzero' if any(b['oc'] > 0 for b in sv['blocks']) else 'oc-zero', wantn, obs)
        if pair:
            continue                # enumeration by debugging entries over two sections is documented as unsupported
        # lists designated by the debugging entries, each once; order is not asserted
        wantd = _multiset([(_exp_pairs(svl[lid - 1]['pairs']) if which == 'loc' else []) + _exp_tr(which, svl[lid - 1])
                           for lid in sv['bydie']])
        views = any(svl[lid - 1]['pairs'] for lid in sv['bydie'])
        gaps = any(not b['tiled'] for b in sv['blocks'])
        t = 'trailing-gap' if sv['trail'] else 'views' if views else 'gaps' if gaps else 'plain'
        if case['pack'] > 1:
            t += '/%d-per-entry' % case['pack']
        fac = obj.iter_location_lists if which == 'loc' else obj.iter_range_lists
        for pat, obs in _consume(fac, lambda l: _obs_tr(which, l)):
            o2 = obs if _is_exc(obs) else _multiset(obs)
            if o2 != wantd:
                bad('%s.iter_%s_lists' % (g, 'location' if which == 'loc' else 'range'), t, wantd, o2, pattern=pat)
                break


class _Stub:
    def __init__(self):
        self.called = None

    def get_location_list_at_offset(self, offset, die=None):
        self.called = offset
        return ['list']


def _cube(case, run):
    from elftools.dwarf.die import AttributeValue
    from elftools.dwarf.locationlists import LocationParser, LocationExpr
    name, ver = case['name'], case['ver']
    for form, answers in sorted(case['rows'].items()):
        if len(answers) == 3:
            continue                          # the class tables leave this combination open
        run.count(('cube', name, form, ver), nontrivial=True)
        if name == 'DW_AT_location' and form == 'DW_FORM_sec_offset' and ver == 4 and len(run.samples) < 4:
            run.samples.append({'mode': 'classify', 'name': name, 'form': form, 'ver': ver, 'answers': answers})
        attr = AttributeValue(name=name, form=form, value=64, raw_value=64, offset=0, indirection_length=0)
        has = _call(LocationParser.attribute_has_location, attr, ver)
        stub = _Stub()
        got = _call(LocationParser(stub).parse_from_attribute, attr, ver, None)
        if has is True and isinstance(got, LocationExpr) and got.loc_expr == 64:
            obs = 'expression'
        elif has is True and stub.called == 64 and got == ['list']:
            obs = 'list'
        elif has is False and _is_exc(got) and got['exc'] == 'ValueError':
            obs = 'none'
        else:
            obs = {'attribute_has_location': has, 'parse_from_attribute': got if _is_exc(got) else type(got).__name__}
        if obs not in answers:
            run.mismatch('classify', '%s/%s' % (name, 'v%d' % ver), {'name': name, 'form': form, 'ver': ver}, sorted(answers), obs)


def check(run):
    run.rule = ('cases = finished objects of the LocRange writer: (entry kind x operand class x address size x byte order x 32/64-bit '
                'format, DWARF 2-5 units), every list of <= MaxLen entries over the kind alphabet, sections of 1..3 unit blocks x '
                'offset_entry_count {0,1,3} x formats x gaps/view pairs, both section generations side by side, and the decided rows '
                'of the attribute x form x version cube; non-trivial = a case with at least one list entry (or a decided cube row); '
                'location sections again with 2 / 3 list-designating attributes per debugging entry; distinct by emitted section '
                'and unit bytes')
    run.assumptions += ['DwarfConfig.default_address_size equals the address_size of the list sections and units (one address size per file)',
                        'order of enumeration by debugging entries is not asserted (multiset comparison)',
                        'attributes that never admit class loclist are only required never to be classified as a list',
                        'iterators are consumed without interleaving other calls on the same stream (C10 covers interleaving)']
    res = run.tlc('LocRange', 'LocRange_quick' if run.tier == 'quick' else 'LocRange_thorough')
    # CSVWrite goes through an 8 KiB buffer: longer lines could interleave between TLC workers
    with open(res.out, 'rb') as f:
        longest = max((len(l) for l in f), default=0)
    if longest >= 8192:
        raise core.MachineryError('emitted case of %d bytes: not written atomically' % longest)
    signal.signal(signal.SIGALRM, _alarm)
    seen = set()
    for case in run.cases(res.out):
        if case['mode'] == 'classify':
            _cube(case, run)
            continue
        key = core.digest([case['info'], case['abbrev'], case['le'], case['asz'], [s['bytes'] for s in case['secs']]])
        if key in seen:
            continue
        seen.add(key)
        nontriv = any(l.get('raw') for s in case['secs'] for l in s['lists'])
        run.count(key, nontrivial=nontriv)
        if nontriv and len(run.samples) < 3 and run.evaluations % 1499 == 5:
            run.samples.append({'mode': case['mode'], 'tag': case['tag'], 'le': case['le'], 'asz': case['asz'], 'info': case['info'],
                                'secs': [{'which': s['which'], 'lv': s['lv'], 'bytes': s['bytes']} for s in case['secs']]})
        brief = {'mode': case['mode'], 'tag': case['tag'], 'le': case['le'], 'asz': case['asz'], 'info': case['info'], 'abbrev': case['abbrev'],
                 'addr': case['addr'], 'secs': [{'which': s['which'], 'lv': s['lv'], 'bytes': s['bytes']} for s in case['secs']]}

        def bad(clause, tag, exp, obs, pattern=None):
            b = dict(brief, pattern=pattern) if pattern else brief
            run.mismatch(clause, tag, b, exp, obs)
        try:
            signal.setitimer(signal.ITIMER_REAL, 20.0, 20.0)
            try:
                _one(case, bad)
            finally:
                signal.setitimer(signal.ITIMER_REAL, 0)
        except core.MachineryError:
            raise
        except Exception as ex:
            import traceback
            tb = traceback.extract_tb(ex.__traceback__)
            where = '%s:%d' % (tb[-1].filename.split('/')[-1], tb[-1].lineno)
            bad('exception', case['mode'], 'no exception', 'exc:%s:%s @ %s' % (type(ex).__name__, str(ex)[:100], where))
    run.validated = run.evaluations
    run.extra['exhaustive'] = True
    if not run.samples:
        run.samples.append({'note': 'no sample'})
