"""C16 - primitive decoders.  Spec: spec/Prim.tla (+ Bytes.tla).

G: every state of the Prim writer is one input byte string; the spec says what each
primitive must return from offset 0 (value, consumed bytes, or truncated).  The driver
runs the real primitives through struct_parse and compares value, stream.tell() and
the exception class."""
import io

from . import core
from . import c16_comb

LEVEL = 'model_checking'


def _leb_val(g, signed):
    n = 0
    for i, x in enumerate(g):
        n |= x << (7 * i)
    if signed and g and g[-1] & 0x40:
        n -= 1 << (7 * len(g))
    return n


def _run_prim(prim, data, pos=None):
    from elftools.common.utils import struct_parse
    from elftools.common.exceptions import ELFParseError
    st = io.BytesIO(data)
    try:
        v = struct_parse(prim, st, stream_pos=pos)
    except ELFParseError:
        return ('trunc', None, None)
    except Exception as ex:  # anything else is the wrong error class
        return ('exc:' + type(ex).__name__, None, None)
    return ('ok', v, st.tell())


def check(run):
    from elftools.common.construct_utils import ULEB128, SLEB128, UBInt24, ULInt24, RepeatUntilExcluding
    from elftools.common.utils import parse_cstring_from_stream
    from elftools.construct import (UBInt8, UBInt16, UBInt32, UBInt64, SBInt8, SBInt16, SBInt32, SBInt64,
                                    ULInt8, ULInt16, ULInt32, ULInt64, SLInt8, SLInt16, SLInt32, SLInt64,
                                    PrefixedArray, CString)
    from elftools.dwarf.structs import DWARFStructs

    uleb, sleb = ULEB128(''), SLEB128('')
    fixed = {('1', 'ul'): ULInt8(''), ('1', 'sl'): SLInt8(''), ('1', 'ub'): UBInt8(''), ('1', 'sb'): SBInt8(''),
             ('2', 'ul'): ULInt16(''), ('2', 'sl'): SLInt16(''), ('2', 'ub'): UBInt16(''), ('2', 'sb'): SBInt16(''),
             ('4', 'ul'): ULInt32(''), ('4', 'sl'): SLInt32(''), ('4', 'ub'): UBInt32(''), ('4', 'sb'): SBInt32(''),
             ('8', 'ul'): ULInt64(''), ('8', 'sl'): SLInt64(''), ('8', 'ub'): UBInt64(''), ('8', 'sb'): SBInt64('')}
    i24 = {'le': [ULInt24('')], 'be': [UBInt24('')]}
    # the same primitives under the names the library's struct sets give them (DWARFStructs / ELFStructs alias tables):
    # (width, kind) -> [(alias name, primitive)], every configuration of byte order x format x address size / class
    from elftools.elf.structs import ELFStructs
    aliases = {}

    def alias(w, signed, le, name, mk):
        aliases.setdefault((str(w), ('s' if signed else 'u') + ('l' if le else 'b')), []).append((name, mk('')))
    for le in (True, False):
        for fmt in (32, 64):
            for asz in (4, 8):
                d = DWARFStructs(little_endian=le, dwarf_format=fmt, address_size=asz)
                cfg = 'dwarf:%s/%d/%d:' % ('le' if le else 'be', fmt, asz)
                for w in (1, 2, 4, 8):
                    alias(w, False, le, cfg + 'Dwarf_uint%d' % (8 * w), getattr(d, 'Dwarf_uint%d' % (8 * w)))
                    alias(w, True, le, cfg + 'Dwarf_int%d' % (8 * w), getattr(d, 'Dwarf_int%d' % (8 * w)))
                alias(fmt // 8, False, le, cfg + 'Dwarf_offset', d.Dwarf_offset)
                alias(fmt // 8, False, le, cfg + 'Dwarf_length', d.Dwarf_length)
                alias(asz, False, le, cfg + 'Dwarf_target_addr', d.Dwarf_target_addr)
                if fmt == 32 and asz == 4:
                    i24['le' if le else 'be'].append(d.Dwarf_uint24(''))
        for cls in (32, 64):
            e = ELFStructs(little_endian=le, elfclass=cls)
            e.create_basic_structs()
            cfg = 'elf:%s/%d:' % ('le' if le else 'be', cls)
            for name, w, signed in (('Elf_byte', 1, False), ('Elf_half', 2, False), ('Elf_word', 4, False), ('Elf_word64', 8, False),
                                    ('Elf_addr', cls // 8, False), ('Elf_offset', cls // 8, False), ('Elf_sword', 4, True),
                                    ('Elf_xword', cls // 8, False), ('Elf_sxword', cls // 8, True)):
                alias(w, signed, le, cfg + name, getattr(e, name))
    cstr = CString('')
    st_le = DWARFStructs(little_endian=True, dwarf_format=32, address_size=4)
    st_be = DWARFStructs(little_endian=False, dwarf_format=32, address_size=4)
    # initial-length decoders of struct sets configured for every DWARF version (spec: InitialLengthFor(bs, le, ver))
    il = {}
    for k, le in (('le', True), ('be', False)):
        for ver in (2, 3, 4, 5):
            il[(k, ver)] = DWARFStructs(little_endian=le, dwarf_format=32, address_size=4, dwarf_version=ver).Dwarf_initial_length('')
    arrs = {'u8': PrefixedArray(ULInt8(''), ULInt8('')), 'u16le': PrefixedArray(ULInt8(''), ULInt16('')),
            'u16be': PrefixedArray(ULInt8(''), UBInt16('')), 'uleb': PrefixedArray(ULInt8(''), ULEB128('')),
            'until0': RepeatUntilExcluding(lambda obj, ctx: obj == 0, ULInt8(''))}
    # the library's own length-prefixed block forms (DW_FORM_block1/2/4/block/exprloc) under the same expectations
    blocks = {'u8': [st_le.Dwarf_dw_form['DW_FORM_block1'], st_be.Dwarf_dw_form['DW_FORM_block1']],
              'u16le': [st_le.Dwarf_dw_form['DW_FORM_block2']], 'u16be': [st_be.Dwarf_dw_form['DW_FORM_block2']],
              'u32le': [st_le.Dwarf_dw_form['DW_FORM_block4']], 'u32be': [st_be.Dwarf_dw_form['DW_FORM_block4']],
              'uleb': [st_le.Dwarf_dw_form['DW_FORM_block'], st_be.Dwarf_dw_form['DW_FORM_exprloc']]}

    # the library's own block reader behind a length (how DW_OP_implicit_value / entry_value / typed constants read their payload):
    # same expectations as the prefixed arrays of bytes; a tree without read_blob is not judged
    try:
        from elftools.common.utils import read_blob, struct_parse as _sp

        class _Blob:
            def __init__(self, lenprim):
                self.lenprim = lenprim

            def parse_stream(self, st):
                return list(read_blob(st, _sp(self.lenprim, st)))
        blocks['u8'].append(_Blob(ULInt8('')))
        blocks['uleb'].append(_Blob(uleb))
    except ImportError:
        run.notes.append('read_blob not present in this tree: block reader not judged')

    run.rule = ('cases = reachable states of spec/Prim.tla (one input byte string each; every prefix is a state too); '
                'non-trivial = the spec expects a successful decode of at least one primitive on that input; '
                'distinct by (kind, input bytes)')
    run.assumptions += ['LEB128 inputs: all 1- and 2-byte strings, third byte from the class alphabet of the tier, '
                        'simulation up to 20 bytes over 16 byte classes',
                        'denote(): digit/group strings -> Python int is trusted (5 lines)']

    cfgs = [('Prim_quick' if run.tier == 'quick' else 'Prim_thorough', None, None), ('Prim_long', None, None)]
    cfgs.append(('Prim_sim', 300 if run.tier == 'quick' else 5000, 21))
    nontriv = 0
    kinds = {}
    for cfg, sim, depth in cfgs:
        res = run.tlc('Prim', cfg, simulate=sim, depth=depth, workers=(1 if sim else None))
        seen_sim = set()
        for kind, inp, exp in run.cases(res.out):
            data = bytes(inp)
            if sim:
                if data in seen_sim:
                    continue
                seen_sim.add(data)
            run.evaluations += 1
            kinds[kind] = kinds.get(kind, 0) + 1
            nt = False
            if kind == 'leb':
                for signed, prim in ((False, uleb), (True, sleb)):
                    got = _run_prim(prim, data)
                    if exp['ok']:
                        nt = True
                        want = ('ok', _leb_val(exp['g'], signed), exp['used'])
                    else:
                        want = ('trunc', None, None)
                    if got != want:
                        run.mismatch('leb.' + ('sleb' if signed else 'uleb'), 'len%d' % len(data),
                                     {'kind': kind, 'inp': inp}, want, got)
            elif kind == 'fix':
                for (w, k), prim in fixed.items():
                    e = exp[w][k]
                    got = _run_prim(prim, data)
                    if e['ok']:
                        nt = True
                        want = ('ok', core.denote(e['val']), e['used'])
                    else:
                        want = ('trunc', None, None)
                    if got != want:
                        run.mismatch('fix.%s%s' % (k, w), 'w' + w, {'kind': kind, 'inp': inp}, want, got)
                    for name, aprim in aliases.get((w, k), ()):
                        got = _run_prim(aprim, data)
                        if got != want:
                            run.mismatch('fix.alias', name, {'kind': kind, 'inp': inp, 'alias': name}, want, got)
            elif kind == 'int24':
                for k, prims in i24.items():
                    for j, prim in enumerate(prims):
                        got = _run_prim(prim, data)
                        if exp['ok']:
                            nt = True
                            want = ('ok', exp[k], 3)
                        else:
                            want = ('trunc', None, None)
                        if got != want:
                            run.mismatch('int24.' + k, 'int24' if j == 0 else 'Dwarf_uint24', {'kind': kind, 'inp': inp}, want, got)
            elif kind == 'cstr':
                for p, e in exp.items():
                    pos = int(p)
                    # the library's chunked reader: string or None
                    try:
                        got = parse_cstring_from_stream(io.BytesIO(data), pos)
                    except Exception as ex:
                        got = 'exc:' + type(ex).__name__
                    want = bytes(e['s']) if e['ok'] else None
                    if got != want:
                        run.mismatch('cstr.chunked', 'pos%d' % pos, {'kind': kind, 'inp': inp, 'pos': pos}, want, got)
                    # same reader without an explicit position (current stream position)
                    st = io.BytesIO(data)
                    st.seek(pos)
                    try:
                        got = parse_cstring_from_stream(st)
                    except Exception as ex:
                        got = 'exc:' + type(ex).__name__
                    if got != want:
                        run.mismatch('cstr.chunked_curpos', 'pos%d' % pos, {'kind': kind, 'inp': inp, 'pos': pos}, want, got)
                    # construct CString: value + exact consumption, parse error when unterminated
                    got = _run_prim(cstr, data, pos)
                    want = ('ok', bytes(e['s']), pos + e['used']) if e['ok'] else ('trunc', None, None)
                    if e['ok']:
                        nt = True
                    if got != want:
                        run.mismatch('cstr.construct', 'pos%d' % pos, {'kind': kind, 'inp': inp, 'pos': pos}, want, got)
                    # the same primitive as the library's struct sets name it: the inline string form of DWARF (either byte order)
                    for nm, aprim in (('dwarf:le:DW_FORM_string', st_le.Dwarf_dw_form['DW_FORM_string']),
                                      ('dwarf:be:DW_FORM_string', st_be.Dwarf_dw_form['DW_FORM_string'])):
                        got = _run_prim(aprim, data, pos)
                        if got != want:
                            run.mismatch('cstr.alias', nm, {'kind': kind, 'inp': inp, 'pos': pos}, want, got)
            elif kind == 'initlen':
                for (k, ver), prim in il.items():
                    e = exp[k]['v%d' % ver]
                    got = _run_prim(prim, data)
                    if e['ok']:
                        nt = True
                        want = ('ok', core.denote(e['len']), e['used'])
                    else:
                        want = ('trunc', None, None)     # truncated and reserved: the library's parse error
                    if e['both'] and got == ('trunc', None, None):
                        continue      # a valid length in DWARF 5 that a reader may still refuse (it cannot know the version yet)
                    if got != want:
                        tag = 'reserved' if e['why'] == 'reserved' else ('is64' if e['is64'] else 'len32')
                        run.mismatch('initlen.' + k, '%s/v%d' % (tag, ver), {'kind': kind, 'inp': inp, 'dwarf_version': ver}, want, got)
            elif kind == 'arr':
                for k, prim in [(k, p) for k, p in arrs.items()] + [(k, p) for k, ps in blocks.items() for p in ps]:
                    e = exp[k]
                    got = _run_prim(prim, data)
                    if e['ok']:
                        nt = True
                        want = ('ok', list(e['items']), e['used'])
                    else:
                        want = ('trunc', None, None)
                    if got[0] == 'ok':
                        got = ('ok', list(got[1]), got[2])
                    if got != want:
                        run.mismatch('arr.' + k, 'arr', {'kind': kind, 'inp': inp}, want, got)
            if nt:
                nontriv += 1
            if len(run.samples) < 4 and nt and len(data) >= 2 and run.evaluations % 997 == 0:
                run.samples.append({'kind': kind, 'input': inp, 'expect': exp})
    if not run.samples:
        run.samples.append({'kind': 'leb', 'input': [0x80, 0x01], 'note': 'no sampled case'})
    # distinct by construction: exhaustive states are distinct, simulated ones deduplicated above
    run.nontrivial = set(range(nontriv))
    run.validated = run.evaluations
    run.extra['cases_by_kind'] = kinds
    run.extra['exhaustive'] = False
    # second part: the composition of decoders (spec/Combinators.tla)
    c16_comb.check(run)
