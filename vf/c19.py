"""C19 - Opening arbitrary bytes fails only with ELFError; header enumeration terminates.

Spec: spec/Faults.tla  (a) the FAULT PLAN machine [seed, Seq(fault)] - Truncate / Substitute / CorruptField(record,
      field, value class; for section links also the LINK classes self / peer / back / count that close cycles of the
      sh_link graph) composed up to 2 (quick) / 3 (thorough) faults; the specification locates the records of
      every seed itself (layout data of Elf.tla) and emits each fault as a byte patch [offset, bytes];  (b) the
      CONSTRUCTOR OUTCOME model (decision procedure of opening a file -> {OK, ELFError}; drift and tags only).
      spec/FaultWalk.tla  (c) WALKER TERMINATION: every enumeration loop as a machine over an abstract file of n units
      with corrupted field classes (incl. the walk along sh_link from every enumerated section: `links`); TLC proves
      <>halted, steps <= K*(n+1) and LinkOnce (no section made twice in one link walk) for the guarded readers and REFUTES it for
      the loops as the format text implies them (lasso + bound witnesses).

G: construct  every emitted plan is applied to the seed bytes (patches and truncation only - this file knows no field)
              and opened in-process with ELFFile(stream); plus seeded random byte strings behind a valid identification
              prefix.  The outcome must be success or an instance of elftools.common.exceptions.ELFError.  Any other
              exception class is a VIOLATION  construct:<exception class>:<deciding step of the model>:<value class>.
   terminate  for every plan whose construction succeeds a fixed enumeration battery (header, every section, every
              segment, symbol counts, dynamic tags of sections and segments, notes of sections and segments, hash
              symbol counts, version chains with their auxiliaries) runs through a COUNTING stream.  Deterministic
              measure: read() calls <= K_READS*(size+1) and bytes read <= K_BYTES*(size+1) (constructor included; the
              stream raises a BaseException at the bound, so a runaway loop costs no more than the bound), peak
              tracemalloc <= K_MEM*size + C_MEM on a deterministic sample of the plans, a wall-clock backstop through
              core.guard.  Exceptions of any class during enumeration are allowed ("terminates, by returning or by
              raising").  Tag = the smallest bound witness of FaultWalk.tla contained in the plan, named walker:driving fields
              (e.g. verchain:info), or `unexplained:<fault kinds>` when the walker models did not predict it.
   witnesses  every minimal bound witness that TLC wrote out for the as-the-format-implies walkers is concretised on
              every seed that has the records (through the specification's single-fault table) and run like a plan:
              one that exceeds the bound reproduces the model's lasso in the code.
Drift (model of the constructor says OK / ELFError, the code the other one) is reported, never a violation.

Constants were calibrated on the unchanged tree (quick plan set, 10 seeds; re-checked on the thorough set, 16 seeds).  The
largest ratios observed were: plans that leave every loop bounded by the file: reads/(size+1) <= 2.7, bytes/(size+1) <= 24; walks that are still
linear but repeat one record `file size` times (a count field set to the file size on a chain that stalls at its last
record): up to 24 reads and 322 bytes per byte of file; walks driven by a count that is independent of the file size
(2^15 .. 2^32-1 iterations): 20 .. 10^6 reads per byte.  The bounds are x2 over the largest linear walk (x18 / x27 over
the first group).  Peak traced memory of bounded plans stayed below 430 KB (270 KB once the fixes are in); the largest
linear walk (one parsed header object per iteration, file-size many iterations) needs about 600 bytes per byte of file.
The memory bound is deliberately loose: every loop of the battery reads, so the read bounds catch runaway loops first; the
memory bound is there for allocations that are not paid for by reads."""
import io
import json
import os
import random
import time

from . import core

LEVEL = 'fault_enumeration'

K_READS = 48            # read() calls per byte of file
K_BYTES = 640           # bytes read per byte of file
K_MEM = 1024            # peak traced bytes per byte of file (one parsed record object per few bytes of file) ...
C_MEM = 1 << 20         # ... plus a constant (parser construction: about 100 KiB on the unchanged tree)
WALL_CTOR = 20.0        # generous wall backstops (seconds); the deterministic measures decide long before
WALL_ENUM = 90.0
N_RANDOM = 20000
MEM_EVERY = 8           # tracemalloc on every 8th plan (and on every directed witness plan)
RUNAWAY_LIMIT = {'quick': 800, 'thorough': 3000}   # stop executing after that many runaway cases (each costs the full bound;
                        # the unchanged tree has about 460 / 1250); the verdict is a violation long before
MAX_ENUM_FAILURES = 8

# small corpus seeds (relative to the repository): relocatable object without program headers, section-less executable
# with dynamic segment, GNU versioned library, Solaris executable with SUNW sections, MIPS executable with notes,
# big-endian 64-bit library with both hash tables, big-endian 32-bit executable, GNU property notes
SEEDS_QUICK = ['test/testfiles_for_readelf/obj_simple32.o.elf',
               'test/testfiles_for_unittests/aarch64_super_stripped.elf',
               'test/testfiles_for_unittests/lib_versioned64.so.1.elf',
               'test/testfiles_for_unittests/exe_solaris32_cc.elf',
               'test/testfiles_for_unittests/simple_mipsel.elf',
               'test/testfiles_for_unittests/aarch64_be_gnu_hash.so.elf']
SEEDS_MORE = ['test/testfiles_for_unittests/exe_solaris32_cc.sparc.elf',
              'test/testfiles_for_readelf/note_gnu_property.elf',
              'test/testfiles_for_readelf/exe_stripped64.elf',
              'test/testfiles_for_readelf/tls.elf',
              'test/testfiles_for_unittests/arm_reloc_unrelocated.o',
              'test/testfiles_for_readelf/mips64-relocs-be.o.elf']


class WorkBudget(BaseException):
    """Raised by the counting stream when the work bound is exceeded (BaseException: no library handler can swallow it)."""


class CountingStream(io.BytesIO):
    def __init__(self, data, max_reads=None, max_bytes=None):
        super().__init__(data)
        self.nreads = 0
        self.nbytes = 0
        self.max_reads = max_reads
        self.max_bytes = max_bytes

    def read(self, n=-1):
        r = super().read(n)
        self.nreads += 1
        self.nbytes += len(r)
        if self.max_reads is not None and (self.nreads > self.max_reads or self.nbytes > self.max_bytes):
            raise WorkBudget('reads=%d bytes=%d' % (self.nreads, self.nbytes))
        return r


# ------------------------------------------------------------------ the enumeration battery
def battery(ef):
    """Everything the property names, each loop consumed completely.  Returns the set of exception class names met."""
    excs = set()

    def part(fn):
        try:
            fn()
        except core.CallTimeout:
            raise
        except MemoryError:
            excs.add('MemoryError')
            raise
        except Exception as ex:
            excs.add(type(ex).__name__)

    def header():
        dict(ef.header)
        ef.num_sections()
        ef.num_segments()
        ef.get_shstrndx()
    part(header)

    def collect(count_fn, iter_fn, get_fn):
        out = []
        n = [0]
        part(lambda: n.__setitem__(0, count_fn()))
        part(lambda: out.extend(iter_fn()))          # the library's own loop; stops at its first exception
        i = len(out) + 1
        failures = 0
        # go on behind a header that could not be made into an object - but never further than a table in this file can be long
        last = min(n[0], i + getattr(ef, 'stream_len', 1 << 20) // 8 + 64)
        while i < last and failures < MAX_ENUM_FAILURES:
            try:
                out.append(get_fn(i))
            except core.CallTimeout:
                raise
            except Exception as ex:
                excs.add(type(ex).__name__)
                failures += 1
            i += 1
        return out
    objs = collect(ef.num_sections, ef.iter_sections, ef.get_section) + collect(ef.num_segments, ef.iter_segments, ef.get_segment)
    for o in objs:
        if hasattr(o, 'num_symbols'):
            part(o.num_symbols)
        if hasattr(o, 'iter_tags'):
            part(lambda: [None for _ in o.iter_tags()])
            part(o.num_tags)
        if hasattr(o, 'iter_notes'):
            part(lambda: [None for _ in o.iter_notes()])
        if hasattr(o, 'get_number_of_symbols'):
            part(o.get_number_of_symbols)
        if hasattr(o, 'iter_versions'):
            def versions():
                o.num_versions()
                for _, auxiliaries in o.iter_versions():
                    for _ in auxiliaries:
                        pass
            part(versions)
    return excs


def execute(data, measure_mem=False, budget=True):
    """Open `data` and, if that succeeds, run the battery.  Returns a small dict (picklable)."""
    from elftools.elf.elffile import ELFFile
    from elftools.common.exceptions import ELFError
    n = len(data)
    # calibration (budget=False): bounds x10 so that the distribution of the linear plans becomes visible
    f = 1 if budget else 10
    st = CountingStream(data, f * K_READS * (n + 1), f * K_BYTES * (n + 1))
    res = {'n': n, 'ctor': None, 'exc': None, 'msg': None, 'enum': None, 'excs': [], 'reads': 0, 'bytes': 0, 'peak': -1}
    if measure_mem:
        import tracemalloc
        tracemalloc.start(1)
    try:
        try:
            with core.guard(WALL_CTOR):
                ef = ELFFile(st)
            res['ctor'] = 'OK'
        except ELFError as ex:
            res['ctor'] = 'ELFError'
            res['exc'] = type(ex).__name__
        except core.CallTimeout:
            res['ctor'] = 'timeout'
        except WorkBudget as ex:
            res['ctor'] = 'budget'
            res['msg'] = str(ex)
        except MemoryError:
            res['ctor'] = 'memory'
        except Exception as ex:
            res['ctor'] = 'exception'
            res['exc'] = type(ex).__name__
            res['msg'] = str(ex)[:120]
        if res['ctor'] == 'OK':
            try:
                with core.guard(WALL_ENUM):
                    res['excs'] = sorted(battery(ef))
                res['enum'] = 'ok'
            except core.CallTimeout:
                res['enum'] = 'timeout'
            except WorkBudget as ex:
                res['enum'] = 'budget'
                res['msg'] = str(ex)
            except MemoryError:
                res['enum'] = 'memory'
    finally:
        if measure_mem:
            import tracemalloc
            res['peak'] = tracemalloc.get_traced_memory()[1]
            tracemalloc.stop()
    res['reads'], res['bytes'] = st.nreads, st.nbytes
    if measure_mem and res['peak'] > K_MEM * n + C_MEM and res['enum'] == 'ok':
        res['enum'] = 'memory'
    return res


def apply_plan(seed, patches, trunc):
    b = bytearray(seed)
    for off, bs in patches:
        b[off:off + len(bs)] = bytes(bs)
    if trunc is not None and trunc >= 0:
        del b[trunc:]
    return bytes(b)


# ------------------------------------------------------------------ worker pool
_SEEDS = {}
_NOBUDGET = False
_RUNAWAYS = None        # multiprocessing.Value shared by the forked workers
_TIMEOUTS = None        # cases that ran into the WALL backstop (a loop that does not even read): each costs WALL_ENUM seconds
_LIMIT = 1 << 30


def _init_worker():
    try:
        import resource
        resource.setrlimit(resource.RLIMIT_AS, (6 << 30, 6 << 30))     # a runaway allocation ends in MemoryError, not in swap
    except Exception:
        pass


def _work(chunk):
    core.use_repo()
    out = []
    for idx, s, patches, trunc, mem in chunk:
        if _RUNAWAYS is not None and (_RUNAWAYS.value >= _LIMIT or _TIMEOUTS.value >= 2 * core.NPROC):
            out.append((idx, None))                      # not executed: too many runaway cases already (the verdict is decided)
            continue
        data = apply_plan(_SEEDS[s], patches, trunc) if s is not None else bytes(patches)
        r = execute(data, measure_mem=mem, budget=not _NOBUDGET)
        if _RUNAWAYS is not None and ((r['ctor'] == 'OK' and r['enum'] != 'ok') or r['ctor'] in ('budget', 'timeout', 'memory')):
            with _RUNAWAYS.get_lock():
                _RUNAWAYS.value += 1
        if _TIMEOUTS is not None and 'timeout' in (r['ctor'], r['enum']):
            with _TIMEOUTS.get_lock():
                _TIMEOUTS.value += 1
        out.append((idx, r))
    return out


def run_all(jobs):
    """jobs: [(idx, seed index | None, patches | raw bytes, trunc, measure memory?)] -> {idx: result}"""
    import multiprocessing
    global _RUNAWAYS, _TIMEOUTS
    _RUNAWAYS = multiprocessing.Value('i', 0)
    _TIMEOUTS = multiprocessing.Value('i', 0)
    res = {}
    size = 64
    chunks = [jobs[i:i + size] for i in range(0, len(jobs), size)]
    if core.NPROC > 1 and len(chunks) > 1:
        with multiprocessing.get_context('fork').Pool(core.NPROC, initializer=_init_worker) as pool:
            for part in pool.imap_unordered(_work, chunks):
                res.update(part)
    else:
        for c in chunks:
            res.update(_work(c))
    return res


# ------------------------------------------------------------------ witnesses of FaultWalk.tla
def minimal_witnesses(cases):
    """Per walker the inclusion-minimal fault sets among the emitted bound witnesses (smallest n kept as the example)."""
    by = {}
    for v in cases:
        key = frozenset((f['f'], f['which'], f['c']) for f in v['faults'])
        cur = by.setdefault(v['w'], {}).get(key)
        if cur is None or v['n'] < cur['n']:
            by[v['w']][key] = v
    out = []
    for w, d in sorted(by.items()):
        for key in sorted(d, key=lambda k: (len(k), sorted(k))):
            if not any(o < key for o in d):
                v = d[key]
                # the signature names the loop (walker) and the fields that drive it past the bound, not their classes
                wid = '%s:%s' % (w, '+'.join(sorted({f for f, _, _ in key})))
                out.append({'id': wid, 'walker': w, 'n': v['n'], 'needs': v.get('needs', ''), 'faults': v['faults'],
                            'set': sorted('%s%s=%s' % (f, ('[%s]' % wh) if wh else '', c) for f, wh, c in key)})
    return out


def sf_matches(wf, e):
    """Does single-fault table entry e realise witness fault wf?"""
    if [e['role'], e['field']] not in [list(m) for m in wf['maps']]:
        return False
    if e['cls'] not in wf['classes']:
        return False
    if wf['which'] == 'first' and e['idx'] != 0:
        return False
    if wf['which'] == 'last' and e['idx'] != e['nrec'] - 1:
        return False
    return True


def concretise_witness(wit, sftab):
    """Sets of single-fault entries (one per witness fault, pairwise different fields of one image) realising `wit`
    on the seed whose table is sftab; one set per alternative naming of the records (e.g. verdef / verneed)."""
    alts = []
    nmaps = max(len(f['maps']) for f in wit['faults']) if wit['faults'] else 0
    for a in range(nmaps):
        chosen = []
        for wf in wit['faults']:
            maps = sorted(list(m) for m in wf['maps'])
            if not maps:
                chosen = None
                break
            one = dict(wf, maps=[maps[min(a, len(maps) - 1)]])
            hit = [e for e in sftab if sf_matches(one, e)]
            if not hit:
                chosen = None
                break
            chosen.append(hit[0])
        if chosen and len({e['off'] for e in chosen}) == len(chosen) and sorted(e['i'] for e in chosen) not in [sorted(e['i'] for e in c) for c in alts]:
            alts.append(chosen)
    return alts


def _kind(fault):
    """A fault description without its position: field=class, `truncate`, `byte`."""
    if '].' in fault:
        return fault.split('].', 1)[-1]
    return fault.split('(')[0].split('[')[0]


def explain(plan_sf, wits, traits):
    """The smallest witness whose faults are all realised by the plan's field faults."""
    best = None
    for w in wits:
        if w['needs'] and w['needs'] not in traits:
            continue
        if all(any(sf_matches(wf, e) for e in plan_sf) for wf in w['faults']):
            if best is None or (len(w['faults']), w['id']) < (len(best['faults']), best['id']):
                best = w
    return best


# ------------------------------------------------------------------ the check
def _seed_files(run):
    files = SEEDS_QUICK + (SEEDS_MORE if run.tier == 'thorough' else [])
    out = []
    for f in files:
        p = os.path.join(core.REPO, f)
        if not os.path.exists(p):
            raise core.MachineryError('seed file missing: ' + p)
        out.append((f, open(p, 'rb').read()))
    return out


def _random_strings(run, seeds):
    """Seeded random byte strings behind a valid prefix (4..64 bytes of a seed's header) of varying length."""
    rnd = random.Random(run.seed * 7919 + 19)
    out = []
    heads = [b[:64] for _, b in seeds]
    for i in range(N_RANDOM):
        h = heads[i % len(heads)]
        k = rnd.choice((4, 5, 6, 6, 7, 16, 16, 18, 20, 24, 32, 40, 48, 52, 58, 60, 62, 64))
        tail = rnd.randrange(0, 129) if i % 10 else rnd.randrange(0, 700)
        mode = i % 4
        if mode == 0:
            t = bytes(rnd.getrandbits(8) for _ in range(tail))
        elif mode == 1:
            t = bytes(rnd.choice((0, 0, 0, 1, 0xff, 0xff, 0x80, rnd.getrandbits(8))) for _ in range(tail))
        elif mode == 2:      # the rest of the header with a few random bytes, then random
            body = bytearray(h[k:])
            for _ in range(rnd.randrange(1, 6)):
                if body:
                    body[rnd.randrange(len(body))] = rnd.choice((0, 0xff, rnd.getrandbits(8)))
            t = bytes(body) + bytes(rnd.getrandbits(8) for _ in range(tail))
        else:
            t = bytes(rnd.choice((0xff, 0xff, 0, rnd.getrandbits(8))) for _ in range(tail))
        out.append(h[:k] + t)
    return out


def check(run):
    global _SEEDS, _NOBUDGET, _LIMIT
    _LIMIT = RUNAWAY_LIMIT[run.tier]
    from concurrent.futures import ThreadPoolExecutor
    calibrate = bool(os.environ.get('VERIF_C19_CALIBRATE'))
    _NOBUDGET = calibrate
    quick = run.tier == 'quick'
    run.rule = ('cases = (1) fault plans enumerated by TLC from spec/Faults.tla: seed (4 synthesised images, one per class/byte '
                'order, + small corpus files) x sequences of up to %d faults {Truncate(n): every length <= 4 KiB of the small '
                'seeds and every header-table boundary; Substitute(pos, v): pos < 64, v in {00, ff, +1, ^80}; CorruptField(record, '
                'field, class): Ehdr/Shdr/Phdr/Dyn/Nhdr/hash header/GNU hash header+bucket/verdef/verdaux/verneed/vernaux fields x '
                '{0, 1, entsize-1, size, size+1, 2^31, 2^32-1, 2^63, 2^64-1; 2^width-entsize in displacement and size fields; in the '
                'sh_link / sh_info of every section kind that names another section there (symbol tables, dynamic, hash, GNU hash, '
                'versym/verdef/verneed, rel/rela, symtab_shndx, group, syminfo): own index, next / previous section of the same kind, '
                'first / last section whose sh_link points back, number of sections}}, composed within reader groups and, for the link '
                'classes, with each other (1- and 2-cycles of the link graph); (2) the minimal '
                'bound witnesses of the walker machines (spec/FaultWalk.tla) concretised on every seed; (3) %d seeded random byte '
                'strings behind a valid identification prefix.  Each case is opened with ELFFile and, if that succeeds, enumerated '
                'by the battery through a counting stream.  distinct = by the bytes of the faulted image; non-trivial = the '
                'constructor did not answer OK, or the battery behaved differently from the unmodified seed (other read count, '
                'byte count or exception classes) - i.e. the reader saw the fault; random strings: the outcome model went beyond '
                'the magic/class/data checks') % (2 if quick else 3, N_RANDOM)
    run.assumptions += ['seeds are valid files smaller than 20 KB; faults are byte patches computed by the specification from the layout '
                        'tables of Elf.tla after locating the records in the seed bytes itself',
                        'work bound: read() calls <= %d*(size+1), bytes read <= %d*(size+1), peak tracemalloc <= %d*size + %d on every '
                        '%dth plan and every witness plan; constants calibrated on the unchanged tree with about x4 headroom'
                        % (K_READS, K_BYTES, K_MEM, C_MEM, MEM_EVERY),
                        'exceptions of any class during enumeration are allowed; only construction must raise ELFError or succeed',
                        'in-memory streams (io.BytesIO subclasses); real files may fail differently on unseekable offsets',
                        'walker machines: n <= %s units, at most %d faults, misplaced records read as zero'
                        % ('16' if quick else '64', 2 if quick else 3)]
    seeds = _seed_files(run)
    seedjson = os.path.join(run.tmp, 'seeds.json')
    with open(seedjson, 'w') as f:
        json.dump([{'id': name, 'bytes': list(b)} for name, b in seeds], f)
    rand = _random_strings(run, seeds)
    randjson = os.path.join(run.tmp, 'rand.json')
    with open(randjson, 'w') as f:
        json.dump([list(b) for b in rand], f)
    sfx = 'quick' if quick else 'thorough'
    with ThreadPoolExecutor(max_workers=4) as ex:
        # 16 cores: 8 + 1 + 2 + 4; fewer: share
        w_plan = max(1, core.NPROC // 2)
        w_walk = max(1, core.NPROC // 4)
        fu_plan = ex.submit(run.tlc, 'Faults', 'Faults_' + sfx, {'SEEDS': seedjson}, w_plan)
        fu_rand = ex.submit(run.tlc, 'Faults', 'Faults_rand', {'RAND': randjson, 'SEEDS': ''}, 1)
        fu_guard = ex.submit(run.tlc, 'FaultWalk', 'Faults_walk_guarded' + ('' if quick else '_thorough'), None, max(1, w_walk // 2))
        fu_format = ex.submit(lambda: run.tlc('FaultWalk', 'Faults_walk_format' + ('' if quick else '_thorough'), workers=w_walk,
                                              extra_args=('-lncheck', 'final'), check_result=False))
        res_plan, res_rand, res_guard, res_format = fu_plan.result(), fu_rand.result(), fu_guard.result(), fu_format.result()

    # ---- (c) walker machines
    m = res_format.stdout.find('Error: Temporal propert')
    if m < 0:
        if not res_format.ok:
            raise core.MachineryError('TLC failed on FaultWalk/Faults_walk_format:\n' + res_format.stdout[-3000:])
        run.notes.append('walkers as the format implies: TLC found no lasso')
    else:
        if 'states left on queue' not in res_format.stdout or res_format.invariant_violated:
            raise core.MachineryError('TLC did not finish FaultWalk/Faults_walk_format:\n' + res_format.stdout[-3000:])
        lasso = [ln for ln in res_format.stdout[m:].splitlines() if ln.strip()]
        # the initial state (walker, n, faults) and the end of the lasso
        run.extra['tlc_lasso'] = lasso[:16] + ['...'] + lasso[-22:-3]
    wits = minimal_witnesses(run.cases(res_format.out))
    run.extra['walker_guarded'] = {'states': res_guard.distinct, 'result': 'Halts and Linear hold'}

    # ---- (a) plans
    sinfo, sbytes, sftab, plans = {}, {}, {}, {}
    for v in run.cases(res_plan.out):
        k = v['k']
        if k == 'seed':
            sinfo[v['s']] = v
        elif k == 'bytes':
            sbytes.setdefault(v['s'], {})[v['at']] = bytes(v['b'])
        elif k == 'sf':
            sftab.setdefault(v['s'], {})[v['i']] = v
        elif k == 'plan':
            plans[(v['s'], tuple(v['f']))] = v
    if not plans or not sinfo:
        raise core.MachineryError('TLC emitted no plans')
    ncorpus = 0
    for s, inf in sorted(sinfo.items()):
        if inf['synth']:
            data = b''.join(sbytes[s][at] for at in sorted(sbytes[s]))
        else:
            data = dict(seeds)[inf['id']]
            ncorpus += 1
        if len(data) != inf['size']:
            raise core.MachineryError('seed %s: %d bytes, the specification saw %d' % (inf['id'], len(data), inf['size']))
        _SEEDS[s] = data
    if ncorpus != len(seeds):
        raise core.MachineryError('the specification saw %d corpus seeds, the driver has %d' % (ncorpus, len(seeds)))

    jobs, meta = [], []

    def add(s, desc, patches, trunc, model, plan_sf, directed=None):
        idx = len(meta)
        meta.append({'s': s, 'f': desc, 'p': patches, 't': trunc, 'm': model, 'sf': plan_sf, 'directed': directed})
        jobs.append((idx, s, patches, trunc, directed is not None or idx % MEM_EVERY == 0))

    for s in sorted(_SEEDS):                                   # the unmodified seeds first: baseline of "the reader saw the fault"
        add(s, ['unmodified'], [], -1, ['OK', 'done', ''], [])
    nbase = len(meta)
    for (s, f), v in sorted(plans.items()):
        add(s, list(f), v['p'], v['t'], v['m'], [sftab[s][i] for i in v['sf'] if i] + list(v.get('h', [])))
    # directed witness plans
    wit_report = {}
    for w in wits:
        wit_report.setdefault(w['id'], {'walker': w['walker'], 'minimal_fault_sets': [], 'concretised_on': 0, 'reproduced_on': []})
        wit_report[w['id']]['minimal_fault_sets'].append(w['set'])
    for w in wits:
        for s in sorted(_SEEDS):
            if w['needs'] and w['needs'] not in sinfo[s].get('traits', []):
                continue                                  # the walker starts from another kind of valid file
            for chosen in concretise_witness(w, list(sftab.get(s, {}).values())):
                desc = ['%s[%d].%s=%s' % (e['role'], e['idx'], e['field'], e['cls']) for e in sorted(chosen, key=lambda e: e['i'])]
                wit_report[w['id']]['concretised_on'] += 1
                add(s, desc, [[e['off'], e['b']] for e in chosen], -1, None, chosen, directed=w['id'])
    nplans = len(meta)
    for b in rand:
        idx = len(meta)
        meta.append({'s': None, 'raw': b})
        jobs.append((idx, None, b, None, False))
    rmodel = {v['i']: v for v in run.cases(res_rand.out) if v.get('k') == 'rand'}
    if len(rmodel) != len(rand):
        raise core.MachineryError('outcome model verdicts for %d of %d random strings' % (len(rmodel), len(rand)))

    t0 = time.time()
    results = run_all(jobs)
    run.extra['execution_wall_s'] = round(time.time() - t0, 1)
    if len(results) != len(jobs):
        raise core.MachineryError('%d of %d cases executed' % (len(results), len(jobs)))

    # ---- verdicts
    base = {}
    for idx in range(nbase):
        r = results[idx]
        if r is None:
            raise core.MachineryError('unmodified seeds were not executed')
        base[meta[idx]['s']] = (r['reads'], r['bytes'], tuple(r['excs']))
        if r['ctor'] != 'OK' or r['enum'] != 'ok':
            raise core.MachineryError('unmodified seed %s does not pass: %r' % (sinfo[meta[idx]['s']]['id'], r))
    ndrift = 0
    drift = {}
    stats = {'ctor': {}, 'enum': {}, 'enum_exception_classes': {}, 'max_reads_ratio': 0.0, 'max_bytes_ratio': 0.0, 'max_peak_bytes': 0,
             'memory_measured_on': 0}
    cal = []

    def tally(r):
        stats['ctor'][r['ctor'] if r['ctor'] != 'exception' else 'exception:' + r['exc']] = \
            stats['ctor'].get(r['ctor'] if r['ctor'] != 'exception' else 'exception:' + r['exc'], 0) + 1
        if r['enum']:
            stats['enum'][r['enum']] = stats['enum'].get(r['enum'], 0) + 1
            for e in r['excs']:
                stats['enum_exception_classes'][e] = stats['enum_exception_classes'].get(e, 0) + 1
        if r['enum'] == 'ok' or calibrate:
            stats['max_reads_ratio'] = max(stats['max_reads_ratio'], round(r['reads'] / (r['n'] + 1), 2))
            stats['max_bytes_ratio'] = max(stats['max_bytes_ratio'], round(r['bytes'] / (r['n'] + 1), 2))
            if r['peak'] >= 0:
                stats['max_peak_bytes'] = max(stats['max_peak_bytes'], r['peak'])
                stats['memory_measured_on'] += 1

    def case_of(mt, r):
        c = {'faults': mt.get('f'), 'size': r['n']}
        if mt['s'] is None:
            c['bytes_b64'] = core.b64(mt['raw'])
            return c
        inf = sinfo[mt['s']]
        c.update({'seed': inf['id'], 'patches': mt['p'], 'truncate': mt['t']})
        if inf['synth']:
            c['bytes_b64'] = core.b64(apply_plan(_SEEDS[mt['s']], mt['p'], mt['t']))
        return c

    def construct_verdict(mt, r, model):
        nonlocal ndrift
        if r['ctor'] in ('OK', 'ELFError'):
            if model and model[0] != r['ctor']:
                ndrift += 1
                k = (model[0], model[1], model[2], r['ctor'], r['exc'])
                d = drift.setdefault(k, [0, None])
                d[0] += 1
                if d[1] is None:
                    d[1] = ('%s %s' % (sinfo[mt['s']]['id'], '+'.join(mt['f']))) if mt['s'] is not None else 'random string ' + core.b64(mt['raw'])[:80]
            return
        step = '%s:%s' % (model[1], model[2]) if model else 'witness'
        if r['ctor'] == 'exception':
            run.mismatch('construct', '%s:%s' % (r['exc'], step), case_of(mt, r), 'success or an ELFError', 'exc:%s:%s' % (r['exc'], r['msg']))
        else:
            run.mismatch('construct', '%s:%s' % (r['ctor'], step), case_of(mt, r), 'success or an ELFError within the work bound',
                         '%s reads=%d bytes=%d' % (r['ctor'], r['reads'], r['bytes']))

    skipped = sum(1 for r in results.values() if r is None)
    if skipped:
        run.notes.append('%d cases were not executed: more than %d runaway cases before them (each costs the full work bound)' % (skipped, _LIMIT))
        run.extra['not_executed_after_runaway_limit'] = skipped
    for idx in range(nbase, nplans):
        mt, r = meta[idx], results[idx]
        if r is None:
            continue
        tally(r)
        s = mt['s']
        saw = r['ctor'] != 'OK' or (r['reads'], r['bytes'], tuple(r['excs'])) != base[s] or r['enum'] != 'ok'
        key = core.digest([s, mt['p'], mt['t']])
        sample = None
        if len(run.samples) < 3 and saw and (idx * 2654435761) % 9973 < 8:
            sample = {'seed': sinfo[s]['id'], 'faults': mt['f'], 'patches': mt['p'], 'truncate': mt['t'], 'model': mt['m'],
                      'constructor': r['ctor'], 'enumeration': r['enum'], 'reads': r['reads'], 'bytes_read': r['bytes'],
                      'enum_exceptions': r['excs']}
        run.count(key, nontrivial=saw, sample=sample)
        if calibrate:
            cal.append((r['reads'] / (r['n'] + 1), r['bytes'] / (r['n'] + 1), r['peak'], r['n'], sinfo[s]['id'], '+'.join(mt['f']), r['enum'], r['ctor']))
        construct_verdict(mt, r, mt['m'])
        if r['ctor'] == 'OK' and r['enum'] != 'ok':
            traits = set(sinfo[s].get('traits', []))
            w = explain(mt['sf'], wits, traits)
            tag = w['id'] if w else 'unexplained:' + '+'.join(sorted(_kind(x) for x in mt['f']))
            if w:
                rep = wit_report[w['id']]['reproduced_on']
                if sinfo[s]['id'] not in rep:
                    rep.append(sinfo[s]['id'])
            run.mismatch('terminate', tag, case_of(mt, r), 'the battery ends within reads <= %d, bytes <= %d%s' % (
                K_READS * (r['n'] + 1), K_BYTES * (r['n'] + 1), (', peak memory <= %d' % (K_MEM * r['n'] + C_MEM)) if r['peak'] >= 0 else ''),
                '%s: reads=%d bytes=%d peak=%d %s' % (r['enum'], r['reads'], r['bytes'], r['peak'], r['msg'] or ''))
    for i, idx in enumerate(range(nplans, len(meta))):
        mt, r = meta[idx], results[idx]
        if r is None:
            continue
        tally(r)
        model = rmodel[i + 1]['m']
        run.count(core.digest(['rand', core.b64(mt['raw'])]), nontrivial=model[1] not in ('magic',),
                  sample={'random_string_b64': core.b64(mt['raw']), 'model': model, 'constructor': r['ctor']} if i == 17 else None)
        mt['f'] = ['random']
        construct_verdict(mt, r, model)
        if r['ctor'] == 'OK' and r['enum'] != 'ok':
            w = explain(rmodel[i + 1]['h'], wits, set(rmodel[i + 1]['traits']))
            run.mismatch('terminate', w['id'] if w else 'unexplained:random:%s' % model[1], case_of(mt, r), 'the battery ends within the work bound',
                         '%s: reads=%d bytes=%d' % (r['enum'], r['reads'], r['bytes']))
    for k, (cnt, example) in sorted(drift.items(), key=lambda kv: -kv[1][0]):
        run.drift.append('constructor model says %s at step "%s" (%s), the code answers %s%s: %d cases, e.g. %s' % (
            k[0], k[1], k[2], k[3], (' (' + k[4] + ')') if k[4] else '', cnt, example))
    run.validated = run.evaluations
    run.extra.update({'plans': nplans - nbase, 'directed_witness_plans': sum(1 for m in meta[:nplans] if m.get('directed')),
                      'random_strings': len(rand), 'seeds': [sinfo[s]['id'] for s in sorted(sinfo)], 'outcomes': stats,
                      'constructor_model_drift': ndrift, 'walker_witnesses': wit_report,
                      'bounds': {'K_READS': K_READS, 'K_BYTES': K_BYTES, 'K_MEM': K_MEM, 'C_MEM': C_MEM}})
    for wid, rep in sorted(wit_report.items()):
        run.notes.append('walker witness %s: concretised on %d seed images, reproduced on %s' % (
            wid, rep['concretised_on'], ', '.join(rep['reproduced_on']) or 'none'))
    if calibrate:
        if os.path.isdir(os.environ['VERIF_C19_CALIBRATE']):
            with open(os.path.join(os.environ['VERIF_C19_CALIBRATE'], 'c19_calibration_%s.json' % run.tier), 'w') as f:
                json.dump(cal, f)
        for name, col in (('reads', 0), ('bytes', 1)):
            cal.sort(key=lambda x: -x[col])
            print('--- top %s ratios' % name)
            for c in cal[:25]:
                print('  %.2f %.1f peak=%d n=%d %s %s %s %s' % c)
        mem = sorted((c for c in cal if c[2] >= 0), key=lambda c: -(c[2] - C_MEM) / max(1, c[3]))
        print('--- top memory')
        for c in mem[:10]:
            print('  peak=%d n=%d (%.1f/N raw) %s %s' % (c[2], c[3], c[2] / max(1, c[3]), c[4], c[5]))
    if not run.samples:
        run.samples.append({'note': 'no sample'})


def replay(run, path):
    """Re-run the cases of a replay file against the tree under test."""
    import base64
    global _NOBUDGET
    _NOBUDGET = False
    rec = json.load(open(path))
    for mm in [rec['first']] + rec.get('more', []):
        c = mm['case']
        if 'bytes_b64' in c:
            data = base64.b64decode(c['bytes_b64'])
        else:
            data = apply_plan(open(os.path.join(core.REPO, c['seed']), 'rb').read(), c['patches'], c['truncate'])
        r = execute(data, measure_mem=True)
        run.count(core.digest(core.b64(data)), sample={'faults': c.get('faults'), 'size': len(data), 'result': r})
        if r['ctor'] not in ('OK', 'ELFError'):
            run.mismatch(mm['clause'] if mm['clause'] == 'construct' else 'construct', mm['tag'] if mm['clause'] == 'construct' else r['exc'] or r['ctor'],
                         c, 'success or an ELFError', 'exc:%s:%s' % (r['exc'], r['msg']))
        elif r['ctor'] == 'OK' and r['enum'] != 'ok':
            run.mismatch('terminate', mm['tag'] if mm['clause'] == 'terminate' else 'replay', c, 'the battery ends within the work bound',
                         '%s: reads=%d bytes=%d peak=%d' % (r['enum'], r['reads'], r['bytes'], r['peak']))
    return run.finish()
