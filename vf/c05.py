"""C05 - line-number programs execute to the rows the DWARF state machine prescribes.

Spec: spec/LineProgram.tla (DWARF5 6.2 state machine, header writer v2-v5, byte encodings).
G: every state of the LineProgram writer is one .debug_line section (one or two units) plus a
minimal .debug_info/.debug_abbrev whose compile units designate the programs through
DW_AT_stmt_list, and the string sections the v5 tables refer to - all bytes computed by the
specification.  The driver hands the blobs to DWARFInfo, walks iter_CUs(), calls
line_program_for_CU(cu) and compares, with the spec's expectations: header scalars, directory /
file tables (legacy and v5 forms), program extent, the sequence of entries with non-None state
field by field, and the identification (command, is_extended, operands) of every entry against the
spec's instruction stream.  Expected values are never computed here; Python only concretises and compares.
T (no hook): the public rows of the corpus line programs are validated by TLC against the spec's byte
machine re-run over the raw program bytes (spec/trace/LineProgramTrace.tla)."""
import io

from . import core
from .core import denote

LEVEL = 'model_checking'

ROW_FIELDS = ('address', 'op_index', 'file', 'line', 'column', 'is_stmt', 'basic_block', 'end_sequence',
              'prologue_end', 'epilogue_begin', 'isa', 'discriminator')
BOOL_FIELDS = {'is_stmt', 'basic_block', 'end_sequence', 'prologue_end', 'epilogue_begin'}
# DWARF5 table 7.27 (+ the LLVM vendor code the spec uses): content type code -> name
LNCT = {1: 'DW_LNCT_path', 2: 'DW_LNCT_directory_index', 3: 'DW_LNCT_timestamp', 4: 'DW_LNCT_size',
        5: 'DW_LNCT_MD5', 0x2001: 'DW_LNCT_LLVM_source'}
# DWARF5 table 7.6: form code -> name
FORMS = {9: 'DW_FORM_block', 11: 'DW_FORM_data1', 5: 'DW_FORM_data2', 6: 'DW_FORM_data4', 7: 'DW_FORM_data8',
         8: 'DW_FORM_string', 15: 'DW_FORM_udata', 14: 'DW_FORM_strp', 31: 'DW_FORM_line_strp', 30: 'DW_FORM_data16'}
HDR_SCALARS = ('version', 'unit_length', 'header_length', 'minimum_instruction_length',
               'maximum_operations_per_instruction', 'line_base', 'line_range', 'opcode_base')


def _val(v):
    """Spec value of a table field -> comparable Python value."""
    if isinstance(v, dict):
        if 'str' in v:
            return bytes(v['str'])
        if 'b' in v:
            return list(v['b'])
        return denote(v)
    return v


def _obs(v):
    """Library value -> comparable (the representation of blocks / data16 is not fixed by the property)."""
    if isinstance(v, (bytes, bytearray)):
        return bytes(v)
    if isinstance(v, (list, tuple)):
        return [int(x) for x in v]
    return v


def _sec(data, name):
    from elftools.dwarf.dwarfinfo import DebugSectionDescriptor
    return DebugSectionDescriptor(stream=io.BytesIO(data), name=name, global_offset=0, size=len(data), address=0)


def _open(case):
    from elftools.dwarf.dwarfinfo import DWARFInfo, DwarfConfig
    kw = dict.fromkeys(['debug_aranges_sec', 'debug_frame_sec', 'eh_frame_sec', 'debug_loc_sec', 'debug_ranges_sec',
                        'debug_pubtypes_sec', 'debug_pubnames_sec', 'debug_addr_sec', 'debug_str_offsets_sec',
                        'debug_loclists_sec', 'debug_rnglists_sec', 'debug_sup_sec', 'gnu_debugaltlink_sec',
                        'debug_types_sec'])
    return DWARFInfo(config=DwarfConfig(little_endian=case['le'], machine_arch='x64', default_address_size=8),
                     debug_info_sec=_sec(bytes(case['info']), '.debug_info'),
                     debug_abbrev_sec=_sec(bytes(case['abbrev']), '.debug_abbrev'),
                     debug_line_sec=_sec(bytes(case['line']), '.debug_line'),
                     debug_str_sec=_sec(bytes(case['str']), '.debug_str'),
                     debug_line_str_sec=_sec(bytes(case['line_str']), '.debug_line_str'), **kw)


def _files4(lst):
    return [[bytes(f[0]), f[1], f[2], f[3]] for f in lst]


def _obs_files(fe):
    return [[_obs(f.name), f.dir_index, f.mtime, f.length] for f in fe]


def _check_tables(bad, u, lp, after):
    """Header tables.  `after`: get_entries() has run (DW_LNE_define_file entries were appended)."""
    t = u['tabs']
    hd = lp.header
    if not t['v5']:
        bad('tables.include_directory', [bytes(d) for d in t['dirs']], [_obs(d) for d in hd['include_directory']])
        bad('tables.file_entry', _files4(t['files_after'] if after else t['files']), _obs_files(hd['file_entry']))
        return
    for key, fmtk, fld, ffld in (('dirs', 'dfmt', 'directories', 'directory_entry_format'),
                                 ('files', 'ffmt', 'file_names', 'file_name_entry_format')):
        fmt = [[LNCT[c], FORMS[f]] for c, f in t[fmtk]]
        ofmt = [[e.content_type, e.form] for e in hd[ffld]]
        bad('tables.%s_format' % fld, fmt, ofmt)
        exp = [{LNCT[c]: _val(v) for c, v in e} for e in t[key]]
        obs = [{k: _obs(e[k]) for k in e.keys()} for e in hd[fld]]
        bad('tables.' + fld, exp, obs)
    # the legacy-compatible tables the API documents for v5 programs
    exp_dirs = [dict((c, _val(v)) for c, v in e) for e in t['dirs']]
    bad('tables.include_directory', [e[1] for e in exp_dirs], [_obs(d) for d in hd['include_directory']])
    # name/dir_index/mtime/length mirror path/directory_index/timestamp/size; what a format does not
    # encode has no prescribed value and is not compared
    exp_files = [dict((c, _val(v)) for c, v in e) for e in t['files']]
    have = [c for c, _f in t['ffmt']]
    bad('tables.file_entry', [[e.get(c) for c in (1, 2, 3, 4) if c in have] for e in exp_files],
        [[_obs(x) for c, x in ((1, f.name), (2, f.dir_index), (3, f.mtime), (4, f.length)) if c in have]
         for f in hd['file_entry']])


def _check_header(bad, u, lp):
    hd = lp.header
    e = u['hdr']
    for k in HDR_SCALARS:
        bad('header.' + k, e[k], hd[k])
    bad('header.default_is_stmt', e['default_is_stmt'], bool(hd['default_is_stmt']))
    bad('header.standard_opcode_lengths', list(e['standard_opcode_lengths']), list(hd['standard_opcode_lengths']))
    if e['version'] >= 5:
        bad('header.address_size', e['address_size'], hd['address_size'])
        bad('header.segment_selector_size', 0, hd['segment_selector_size'])
    bad('extent.end', u['end'], lp.program_end_offset)


def _check_rows(run, brief, tag, u, entries):
    exp = u['rows']
    obs = [e.state for e in entries if e.state is not None]
    if len(exp) != len(obs):
        run.mismatch('rows.count', tag, brief, len(exp), len(obs))
        return
    es = [bool(r[7]) for r in exp]
    # the position of a row is the pair (address, op_index) (DWARF5 6.2.2): compared jointly
    run.compare('rows.address', tag, brief, [[denote(r[0]), r[1]] for r in exp], [[s.address, s.op_index] for s in obs])
    for i, f in enumerate(ROW_FIELDS):
        if i < 2:
            continue
        ecol = [r[i] for r in exp]
        ocol = [getattr(s, f) for s in obs]
        if f in BOOL_FIELDS:
            ocol = [bool(x) for x in ocol]
        if f == 'is_stmt':
            # rows that end a sequence are reported under their own signature
            run.compare('rows.is_stmt', 'end_sequence', brief, [x for x, z in zip(ecol, es) if z],
                        [x for x, z in zip(ocol, es) if z])
            run.compare('rows.is_stmt', tag, brief, [x for x, z in zip(ecol, es) if not z],
                        [x for x, z in zip(ocol, es) if not z])
        else:
            run.compare('rows.' + f, tag, brief, ecol, ocol)


# API vocabulary: the instruction kinds (spec names) whose entry args are the instruction's own operands as encoded.
# Other entries report derived quantities (address / line increments), which are display conventions (not compared).
ARGS_ARE_OPERANDS = {'set_file', 'set_column', 'fixed_advance_pc', 'set_isa', 'unknown_std', 'set_address', 'define_file'}


def _obs_args(args):
    out = []
    for a in args:
        if hasattr(a, 'name') and hasattr(a, 'dir_index'):        # a file entry (DW_LNE_define_file)
            out += [_obs(a.name), a.dir_index, a.mtime, a.length]
        else:
            out.append(_obs(a))
    return out


def _subseq(entries, instrs):
    """Greedy embedding of the entries' (command, is_extended) into the instruction stream -> matched instructions or None."""
    m = []
    j = 0
    for e in entries:
        while j < len(instrs) and (instrs[j][0], instrs[j][1]) != (e.command, bool(e.is_extended)):
            j += 1
        if j == len(instrs):
            return None
        m.append(instrs[j])
        j += 1
    return m


def _check_entries(run, brief, tag, u, entries):
    """The entry list against the spec's instruction stream `ins` = [opcode, extended?, emits a row?, operands, kind]:
    entries with a state are exactly the row-emitting instructions; between two of them the state-less entries
    identify, in order, instructions of that stretch of the program (which instructions leave an entry is a display
    convention: subsequence); args that are the instruction's operands equal the encoded operands."""
    ins = u['ins']
    if sum(1 for i in ins if i[2]) != sum(1 for e in entries if e.state is not None):
        return                                   # reported by rows.count
    segs_i, segs_e = [[]], [[]]
    for i in ins:
        segs_i[-1].append(i)
        if i[2]:
            segs_i.append([])
    for e in entries:
        segs_e[-1].append(e)
        if e.state is not None:
            segs_e.append([])
    for si, se in zip(segs_i, segs_e):
        keys_e = [[e.command, bool(e.is_extended)] for e in se]
        keys_i = [[i[0], i[1]] for i in si]
        m = None
        if not se or (si and si[-1][2] and keys_e[-1] == keys_i[-1]):
            head = _subseq(se[:-1], si[:-1]) if se else []
            m = None if head is None else head + ([si[-1]] if se else [])
        elif not si or not si[-1][2]:            # the stretch after the last row (empty for closed programs)
            m = _subseq(se, si)
        if m is None:
            run.mismatch('entries.opcode', tag, brief, {'a subsequence, ending with the last one, of': keys_i}, keys_e)
            return
        for e, i in zip(se, m):
            if i[4] in ARGS_ARE_OPERANDS:
                run.compare('entries.args', tag, brief, [i[0], i[1], [_val(v) for v in i[3]]],
                            [e.command, bool(e.is_extended), _obs_args(e.args)])


def _replay(run, case, n):
    units = case['units']
    brief = {'mode': case['mode'], 'le': case['le'], 'line_b64': core.b64(case['line']), 'info_b64': core.b64(case['info']),
             'abbrev_b64': core.b64(case['abbrev']), 'prog': case['prog'], 'cus': case['cus'],
             'units': [[u['id'], u['off']] for u in units]}
    try:
        dw = _open(case)
        cus = list(dw.iter_CUs())
    except core.CallTimeout:
        raise
    except Exception as ex:
        run.mismatch('open', 'info', brief, 'DWARFInfo + %d CUs' % len(case['cus']), 'exc:%s:%s' % (type(ex).__name__, ex))
        return
    if len(cus) != len(case['cus']):
        run.mismatch('open', 'info', brief, len(case['cus']), len(cus))
        return
    pattern = n % 3
    order = list(range(len(cus)))
    lps = {}
    # pattern 2: fetch every program first, then decode them in reverse order (shared stream)
    if pattern == 2:
        for i in order:
            try:
                lps[i] = dw.line_program_for_CU(cus[i])
            except core.CallTimeout:
                raise
            except Exception:
                lps.pop(i, None)
        order.reverse()
    for i in order:
        u = units[case['cus'][i] - 1]
        tag = u['tag']
        htag = 'v5' if u['hdr']['version'] >= 5 else 'v234'

        def bad(clause, e, o, _t=htag):
            run.compare(clause, _t, brief, e, o)
        try:
            lp = lps[i] if i in lps else dw.line_program_for_CU(cus[i])
        except core.CallTimeout:
            raise
        except Exception as ex:
            run.mismatch('header.parse', htag, brief, 'LineProgram', 'exc:%s:%s' % (type(ex).__name__, ex))
            continue
        if lp is None:
            run.mismatch('header.parse', htag, brief, 'LineProgram', None)
            continue
        try:
            _check_header(bad, u, lp)
            # header_length locates the program (6.2.4); units with extra bytes between the tables and the
            # program have their own signature, and their rows are not compared when the start is wrong
            if not run.compare('extent.start', 'header_gap' if case['gap'] else htag, brief, u['start'],
                               lp.program_start_offset):
                continue
            if pattern == 1:
                _check_tables(bad, u, lp, after=False)
        except core.CallTimeout:
            raise
        except Exception as ex:
            run.mismatch('header.exception', htag, brief, 'no exception', 'exc:%s:%s' % (type(ex).__name__, ex))
            continue
        try:
            entries = lp.get_entries()
        except core.CallTimeout:
            raise
        except Exception as ex:
            run.mismatch('decode', 'unknown_std' if u['unk'] else tag, brief, '%d rows' % len(u['rows']), 'exc:%s:%s' % (type(ex).__name__, ex))
            continue
        _check_rows(run, brief, tag, u, entries)
        _check_entries(run, brief, tag, u, entries)
        try:
            _check_tables(bad, u, lp, after=True)
        except core.CallTimeout:
            raise
        except Exception as ex:
            run.mismatch('header.exception', htag, brief, 'no exception', 'exc:%s:%s' % (type(ex).__name__, ex))
        # memoised second call and a second lookup through the same unit: same answer
        again = dw.line_program_for_CU(cus[i]).get_entries()
        if len(again) != len(entries):
            run.mismatch('again.count', tag, brief, len(entries), len(again))
        elif pattern == 0:
            _check_rows(run, brief, tag, u, again)
        # ... and the header tables are the same after repeated requests (DW_LNE_define_file entries are added once)
        try:
            _check_tables(lambda c, e, o, _t=htag: run.compare('again.' + c, _t, brief, e, o), u, dw.line_program_for_CU(cus[i]), after=True)
        except core.CallTimeout:
            raise
        except Exception as ex:
            run.mismatch('header.exception', htag, brief, 'no exception', 'exc:%s:%s' % (type(ex).__name__, ex))


def _corpus(run, quick):
    """T without a hook: the public rows of every corpus line program against the specification's byte
    machine re-run by TLC over the raw program bytes (spec/trace/LineProgramTrace.tla)."""
    import glob
    import os
    from elftools.elf.elffile import ELFFile
    events = []
    budget = 60000 if quick else 10 ** 9          # program bytes
    per_file = 12000 if quick else 10 ** 9
    nfiles = 0
    unused = []
    for fn in sorted(glob.glob(os.path.join(core.REPO, 'test', 'testfiles_for_unittests', '*'))):
        base = os.path.basename(fn)
        try:
            with open(fn, 'rb') as f, core.guard(120.0):
                ef = ELFFile(f)
                if not ef.has_dwarf_info():
                    continue
                dw = ef.get_dwarf_info()
                if dw.debug_line_sec is None:
                    continue
                seen = set()
                used = 0
                nfiles += 1
                for cu in dw.iter_CUs():
                    lp = dw.line_program_for_CU(cu)
                    if lp is None or lp.program_start_offset in seen:
                        continue
                    seen.add(lp.program_start_offset)
                    n = lp.program_end_offset - lp.program_start_offset
                    if n <= 0 or used + n > per_file or budget - n < 0:
                        continue
                    hd = lp.header
                    ident = '%s@%d' % (base, lp.program_start_offset)
                    try:
                        rows = [e.state for e in lp.get_entries() if e.state is not None]
                    except core.CallTimeout:
                        raise
                    except Exception as ex:
                        run.mismatch('decode', 'corpus', {'program': ident}, 'rows', 'exc:%s:%s' % (type(ex).__name__, ex))
                        continue
                    if any(not 0 <= s.address < 2 ** 64 for s in rows):
                        continue
                    st = dw.debug_line_sec.stream
                    st.seek(lp.program_start_offset)
                    raw = st.read(n)
                    used += n
                    budget -= n
                    events.append({
                        'id': ident, 'n': n, 'bytes': list(raw) + [0] * 16,
                        'hdr': {'v': hd['version'], 'le': bool(dw.config.little_endian), 'ob': hd['opcode_base'],
                                'lb': hd['line_base'], 'lr': hd['line_range'], 'mi': hd['minimum_instruction_length'],
                                'mo': hd['maximum_operations_per_instruction'], 'dis': bool(hd['default_is_stmt']),
                                'lens': list(hd['standard_opcode_lengths'])},
                        'rows': [[list(s.address.to_bytes(8, 'little')), s.op_index, s.file, s.line, s.column,
                                  bool(s.is_stmt), bool(s.basic_block), bool(s.end_sequence), bool(s.prologue_end),
                                  bool(s.epilogue_begin), s.isa, s.discriminator] for s in rows]})
        except core.CallTimeout as ex:
            run.mismatch('timeout', 'corpus', {'file': base}, 'an answer', str(ex))
        except Exception as ex:
            unused.append('%s:%s' % (base, type(ex).__name__))
    if not events:
        run.notes.append('T: no corpus line programs found')
        return
    trace = run.trace_file('lineprograms', events)
    res = run.tlc('trace/LineProgramTrace', 'LineProgramTrace', env={'TRACE': trace, 'JAVA_TOOL_OPTIONS': '-Xss32m'},
                  workers=1, timeout=3000)
    reports = list(run.cases(res.out))
    if 'Error:' in res.stdout:
        raise core.MachineryError('TLC reported an error on LineProgramTrace\n%s' % res.stdout[res.stdout.index('Error:'):][:1500])
    if len(reports) != 1:
        raise core.MachineryError('LineProgramTrace: %d reports' % len(reports))
    rep = reports[0]
    st = rep['stats']
    if st['progs'] + len(st['skipped']) != len(events):
        raise core.MachineryError('LineProgramTrace consumed %d+%d of %d programs' % (st['progs'], len(st['skipped']), len(events)))
    bad = rep['bad'] if isinstance(rep['bad'], dict) else {}
    for key, v in sorted(bad.items()):
        clause, tag = ('rows.is_stmt', 'end_sequence') if key == 'is_stmt@end_sequence' else \
            (('rows.count', 'corpus') if key == 'rows.count' else ('rows.' + key, 'corpus'))
        for _ in range(v['n']):
            run.mismatch(clause, tag, v['ex'][0], v['ex'][0]['expected'], v['ex'][0]['observed'])
    run.validated += st['progs']
    run.extra['corpus'] = {'files': nfiles, 'files_not_usable': len(unused), 'programs_validated': st['progs'], 'instructions': st['ins'], 'rows': st['rows'],
                           'skipped': st['skipped'][:10]}


def check(run):
    run.rule = ('cases = states of the spec/LineProgram.tla writer: (header configuration x program of <= MaxLen instructions '
                'over the opcode-kind x operand-class alphabet, closed by DW_LNE_end_sequence), header table variants, two units '
                'in one section reached from 1-3 CUs, simulated 40-instruction programs; non-trivial = the spec expects at least '
                'two rows or a table variant; distinct by section bytes')
    run.assumptions += [
        'programs keep addresses inside the address size and line numbers non-negative (writer guards; the standard does '
        'not fix overflow behaviour)',
        'CU and line program share DWARF format, version and address size (DWARF5 7.4: formats are not mixed in one unit)',
        'v5 entry formats over forms string/line_strp/strp/udata/data1/2/4/8/data16/block and content types 1-5 + 0x2001',
        'set_discriminator only in v>=4, define_file only in v<=4, opcodes 10-12 only in v>=3',
        'is_stmt and the other flags are compared as truth values; block/data16 values as byte lists',
        'denote(): digit strings -> Python int is trusted']
    quick = run.tier == 'quick'
    plans = [('LineProgram_quick' if quick else 'LineProgram_thorough', None, None)]
    if not quick:
        plans.append(('LineProgram_len3', None, None))
        plans.append(('LineProgram_sweep', None, None))
    plans.append(('LineProgram_sim', 400 if quick else 4000, 42))
    seen = set()
    by_mode = {}
    by_tag = {}
    n = 0
    timeouts = 0
    from concurrent.futures import ThreadPoolExecutor
    pool = ThreadPoolExecutor(max_workers=1)

    def tlc(cfg, sim, depth):
        return run.tlc('LineProgram', cfg, simulate=sim, depth=depth, workers=(1 if sim else None), timeout=3000,
                       env={'JAVA_TOOL_OPTIONS': '-Xss32m'})
    # the simulation is a single-worker TLC run: it runs beside the exhaustive configurations and their replay
    simrun = {p[0]: pool.submit(tlc, *p) for p in plans if p[1]}
    for cfg, sim, depth in plans:
        res = simrun[cfg].result() if cfg in simrun else tlc(cfg, sim, depth)
        if 'Error:' in res.stdout:
            # TLC can report an evaluation error (e.g. a Java stack overflow) and still exit 0
            raise core.MachineryError('TLC reported an error on %s\n%s' % (cfg, res.stdout[res.stdout.index('Error:'):][:1500]))
        for case in run.cases(res.out):
            key = core.digest([case['line'], case['info']])
            if key in seen:
                continue
            seen.add(key)
            if timeouts >= 3:
                continue          # every further case would wait for the guard again; the violation is recorded
            n += 1
            m = 'sim' if sim else case['mode']
            by_mode[m] = by_mode.get(m, 0) + 1
            for u in case['units']:
                by_tag[u['tag']] = by_tag.get(u['tag'], 0) + 1
            nontriv = case['mode'] != 'prog' or len(case['units'][0]['rows']) >= 2
            run.count(key, nontrivial=nontriv)
            if nontriv and len(run.samples) < 4 and (n % 3001 == 17 or (sim and n % 50 == 0)):
                u = case['units'][0]
                run.samples.append({'mode': m, 'header': u['id'], 'prog': case['prog'][:8], 'debug_line': case['line'][:96],
                                    'rows': [[denote(r[0])] + r[1:] for r in u['rows'][:4]]})
            try:
                with core.guard(5.0):
                    _replay(run, case, n)
            except core.CallTimeout as ex:
                timeouts += 1
                if timeouts == 3:
                    run.notes.append('replay stopped after 3 guard timeouts')
                # an unbounded loop in the code under test is an answer, and a wrong one
                run.mismatch('timeout', case['units'][0]['tag'], {'mode': case['mode'], 'line_b64': core.b64(case['line']),
                                                                  'info_b64': core.b64(case['info']), 'prog': case['prog']},
                             'an answer', str(ex))
    pool.shutdown()
    run.validated = run.evaluations
    _corpus(run, quick)
    run.extra['cases_by_mode'] = by_mode
    run.extra['units_by_tag'] = by_tag
    run.extra['exhaustive'] = False
    if not run.samples:
        run.samples.append({'note': 'no sample'})
