"""C14 - note sections and segments yield every note exactly once; descriptors of the known GNU /
core-file note types decode to their encoded fields; stab records are enumerated exactly.

Spec: spec/Notes.tla (over spec/Elf.tla for the container, spec/NoteWalk.tla for the walk arithmetic).
G: every finished extent of the Notes writer comes with the file bytes (chunks) and with the
   declarative view TLC proved equal to what the specified walker yields; the file is opened with
   ELFFile and the notes are enumerated through the SHT_NOTE section and through the PT_NOTE segment
   in eight consumption patterns (flat lists, section/segment interleaved, abandoned + fresh, resumed
   after another iterator finished, nested through iter_sections / iter_segments) - one expectation
   for all of them.  Stab sections likewise (list, staggered, abandoned, by name).
T: for every note section / segment of the corpus files the reported (n_offset, n_namesz, n_descsz,
   n_size) chain is validated by spec/trace/NotesTrace.tla as a behaviour of the same walker (total
   verdict).
Besides: Notes_live (termination, liveness form) and the three Apalache obligations of
spec/NoteWalkInd.tla (progress measure over unbounded offsets) are run and recorded in the evidence."""
import base64
import io
import json
import os
import shutil
import subprocess

from . import core
from .core import denote
from .elfutil import concretise, vocab, registry

LEVEL = 'model_checking'

CORPUS = ('test/testfiles_for_unittests', 'test/testfiles_for_readelf')
BIG = 1 << 30


# ----------------------------------------------------------------------------- name rule
def _enum_verdict(obs, code, must, may, spec_names, voc):
    """The property's naming rule.  must: the names the governing standard gives this code in this
    context (owner, file type, machine); may: further acceptable names where the standard does not
    fix one; spec_names: every name the specification's table of the family defines.
    True / False / None (vocabulary neither the specification nor the registry knows: not asserted)."""
    if isinstance(obs, str):
        if obs in must or obs in may:
            return True
        if obs in spec_names or obs in registry()['names']:
            return False
        return None
    if any(n in voc for n in must):
        return False            # the library knows the standard name and should have used it
    return obs == code


class _Ctx:
    def __init__(self, tables):
        self.nt_names = {n for _, n in tables['gnu']} | {n for _, n in tables['core']}
        self.os_names = {n for _, n in tables['abi_os']}
        self.prop_names = {n for _, n in tables['prop']}
        self.voc_nt = vocab('ENUM_NOTE_N_TYPE', 'ENUM_CORE_NOTE_N_TYPE')
        self.voc_os = vocab('ENUM_NOTE_ABI_TAG_OS')
        self.voc_prop = vocab('ENUM_NOTE_GNU_PROPERTY_TYPE')
        self.reg_nt = {}
        for name, val in registry()['names'].items():
            if name.startswith('NT_'):
                self.reg_nt.setdefault(int(val[0]), set()).add(name)


# ----------------------------------------------------------------------------- observation
def _plain(o):
    """Library containers -> plain Python (for comparing consumption patterns with one another)."""
    if isinstance(o, dict):
        return {k: _plain(v) for k, v in o.items()}
    if isinstance(o, (list, tuple)):
        return [_plain(v) for v in o]
    if isinstance(o, (bytes, bytearray)):
        return ('bytes', bytes(o))
    return o


def _word(digits):
    return int.from_bytes(bytes(digits), 'little')


def _b(x):
    return x.encode('latin-1') if isinstance(x, str) else bytes(x)


def _fixed_text(obs, raw):
    """A fixed-width character field: the field's bytes, or its text up to the first NUL / without
    the trailing NULs (the layout only fixes the bytes)."""
    if isinstance(obs, int) and not isinstance(obs, bool):
        return len(raw) == 1 and obs == raw[0]          # a single char reported as its code
    if not isinstance(obs, (bytes, str)):
        return False
    o = _b(obs)
    return o == raw or o == raw.split(b'\0')[0] or o == raw.rstrip(b'\0')


def _cmp_note(ctx, bad, i, e, o, core_file):
    """e: the specification's view of note i; o: the library's note."""
    for f, key in (('n_offset', 'off'), ('n_size', 'size'), ('n_namesz', 'namesz'), ('n_descsz', 'descsz')):
        if o[f] != e[key]:
            bad(f, {'note': i, f: e[key]}, o[f])
    if e['hasname']:
        want = bytes(e['name']).decode('latin-1')
        if o['n_name'] != want:
            bad('n_name', {'note': i, 'n_name': want}, o['n_name'])
    elif o['n_name'] not in (None, '', b''):
        bad('n_name', {'note': i, 'n_name': None}, o['n_name'])
    code = _word(e['type'])
    strict = set(e['strict'])
    may = set() if (e['fixed'] and strict) else set(e['anyn']) | ctx.reg_nt.get(code, set())
    if _enum_verdict(o['n_type'], code, strict, may, ctx.nt_names, ctx.voc_nt) is False:
        bad('n_type', {'note': i, 'code': code, 'owner_defines': sorted(strict), 'fixed': e['fixed'], 'core': core_file}, o['n_type'])
    if bytes(o['n_descdata']) != bytes(e['desc']):
        bad('n_descdata', {'note': i, 'desc': e['desc']}, list(o['n_descdata']))
    k = e['dk']
    if k == 'raw':
        # a note no transcribed standard gives a meaning to can only be handed out as its descriptor bytes
        if e.get('opaque') and not (isinstance(o['n_desc'], (bytes, bytearray)) and bytes(o['n_desc']) == bytes(e['desc'])):
            bad('n_desc.opaque', {'note': i, 'owner': bytes(e['name']).decode('latin-1') if e['hasname'] else None, 'code': code,
                                  'n_desc': e['desc']}, _plain(o['n_desc']))
    else:
        try:
            _cmp_desc(ctx, bad, i, k, e['df'], e['dn'], o['n_desc'])
        except (KeyError, TypeError, AttributeError, IndexError) as ex:
            bad('n_desc.' + k, {'note': i, 'fields': e['df']}, 'shape:%s:%s:%r' % (type(ex).__name__, ex, _plain(o['n_desc'])))


def _cmp_desc(ctx, bad, i, k, f, nm, d):
    cl = 'n_desc.' + k
    if k == 'buildid':
        raw = bytes(f)
        if not ((isinstance(d, str) and d.lower() == raw.hex()) or (isinstance(d, bytes) and d == raw)):
            bad(cl, {'note': i, 'build_id': raw.hex()}, _plain(d))
    elif k == 'gold':
        raw = bytes(f)
        if not (isinstance(d, (str, bytes)) and _b(d) == raw):
            bad(cl, {'note': i, 'version': raw.decode('latin-1')}, _plain(d))
    elif k == 'abi':
        for fld in ('abi_major', 'abi_minor', 'abi_tiny'):
            if d[fld] != denote(f[fld]):
                bad(cl, {'note': i, fld: denote(f[fld])}, d[fld])
        code = denote(f['abi_os'])
        if _enum_verdict(d['abi_os'], code, set(nm), set(), ctx.os_names, ctx.voc_os) is False:
            bad(cl, {'note': i, 'abi_os': code, 'names': nm}, d['abi_os'])
    elif k == 'props':
        if len(d) != len(f):
            bad(cl + '.count', {'note': i, 'properties': len(f)}, len(d))
        for j, (p, hint, q) in enumerate(zip(f, nm, d)):
            code = _word(p['ptype'])
            if _enum_verdict(q['pr_type'], code, set(hint['names']), set(), ctx.prop_names, ctx.voc_prop) is False:
                bad(cl + '.pr_type', {'note': i, 'prop': j, 'code': code, 'names': hint['names']}, q['pr_type'])
            if q['pr_datasz'] != len(p['data']):
                bad(cl + '.pr_datasz', {'note': i, 'prop': j, 'pr_datasz': len(p['data'])}, q['pr_datasz'])
            data, got = bytes(p['data']), q['pr_data']
            if hint['pk'] == 'int':
                val = _word(hint['val'])
                good = (isinstance(got, int) and got == val) or \
                       (not isinstance(q['pr_type'], str) and isinstance(got, bytes) and got == data)
                if not good:
                    bad(cl + '.pr_data', {'note': i, 'prop': j, 'value': val}, _plain(got))
            elif hint['pk'] == 'u64x2':
                # two 64-bit words: the bytes, or the two values in any container that keeps their order
                vals = [_word(hint['val'][:8]), _word(hint['val'][8:])]
                if isinstance(got, dict):
                    seen = [v for v in got.values() if isinstance(v, int)]
                elif isinstance(got, (list, tuple)):
                    seen = list(got)
                else:
                    seen = None
                if not ((isinstance(got, bytes) and got == data) or seen == vals):
                    bad(cl + '.pr_data', {'note': i, 'prop': j, 'bytes': list(data), 'words': vals}, _plain(got))
            else:
                if not ((isinstance(got, bytes) and got == data) or (got is None and not data)):
                    bad(cl + '.pr_data', {'note': i, 'prop': j, 'bytes': list(data)}, _plain(got))
    elif k == 'prpsinfo':
        for fld, v in f.items():
            if isinstance(v, dict):
                if d[fld] != denote(v):
                    bad(cl, {'note': i, fld: denote(v)}, d[fld])
            elif not _fixed_text(d[fld], bytes(v)):
                bad(cl, {'note': i, fld: v}, _plain(d[fld]))
    elif k == 'ntfile':
        if d['num_map_entries'] != denote(f['count']):
            bad(cl, {'note': i, 'count': denote(f['count'])}, d['num_map_entries'])
        if d['page_size'] != denote(f['page_size']):
            bad(cl, {'note': i, 'page_size': denote(f['page_size'])}, d['page_size'])
        ents = [[x['vm_start'], x['vm_end'], x['page_offset']] for x in d['Elf_Nt_File_Entry']]
        want = [[denote(x['vm_start']), denote(x['vm_end']), denote(x['page_offset'])] for x in f['entries']]
        if ents != want:
            bad(cl, {'note': i, 'entries': want}, ents)
        names = [_b(x) for x in d['filename']]
        if names != [bytes(x) for x in f['names']]:
            bad(cl, {'note': i, 'names': f['names']}, [list(x) for x in names])
    else:
        raise core.MachineryError('unknown descriptor kind %r' % k)


# ----------------------------------------------------------------------------- consumption patterns
def _patterns(ef, sec, seg, NoteSection, NoteSegment):
    """Every way of consuming the iterators; each yields (pattern name, list of notes)."""
    yield 'section.list', list(sec.iter_notes())
    yield 'segment.list', list(seg.iter_notes())
    # two iterators interleaved (section / segment)
    a, b = sec.iter_notes(), seg.iter_notes()
    la, lb, da, db = [], [], False, False
    while not (da and db):
        if not da:
            try:
                la.append(next(a))
            except StopIteration:
                da = True
        if not db:
            try:
                lb.append(next(b))
            except StopIteration:
                db = True
    yield 'interleaved.section', la
    yield 'interleaved.segment', lb
    # partial then abandoned, then a fresh full walk; and two staggered iterators over the same section
    it = sec.iter_notes()
    first = []
    try:
        first.append(next(it))
    except StopIteration:
        pass
    it2 = sec.iter_notes()
    rest = list(it2)
    yield 'abandoned.then.fresh', rest
    first.extend(it)            # resume the abandoned iterator after another one ran to the end
    yield 'resumed', first
    # nested full enumeration through the file
    out = []
    for s in ef.iter_sections():
        if isinstance(s, NoteSection):
            for n in s.iter_notes():
                out.append(n)
    yield 'nested.sections', out
    out = []
    for g in ef.iter_segments():
        if isinstance(g, NoteSegment):
            out.extend(g.iter_notes())
    yield 'nested.segments', out


def _drain(iters):
    """Round-robin over several iterators until all are exhausted."""
    outs, live = [[] for _ in iters], [True] * len(iters)
    while any(live):
        for k, it in enumerate(iters):
            if live[k]:
                try:
                    outs[k].append(next(it))
                except StopIteration:
                    live[k] = False
    return outs


def _patterns_multi(ef, s1, s2, seg, split, n, NoteSection, NoteSegment):
    """Two note sections in one segment; each pattern yields (name, notes, lo, hi): the expected notes are exp[lo:hi]."""
    yield 'section1.list', list(s1.iter_notes()), 0, split
    yield 'section2.list', list(s2.iter_notes()), split, n
    yield 'segment.list', list(seg.iter_notes()), 0, n
    a, b, c = _drain([s1.iter_notes(), seg.iter_notes(), s2.iter_notes()])
    yield 'interleaved.section1', a, 0, split
    yield 'interleaved.segment', b, 0, n
    yield 'interleaved.section2', c, split, n
    # the second section first, the first one abandoned half-way and resumed behind it
    it = s1.iter_notes()
    first = []
    try:
        first.append(next(it))
    except StopIteration:
        pass
    yield 'section2.while.section1.open', list(s2.iter_notes()), split, n
    first.extend(it)
    yield 'section1.resumed', first, 0, split
    out = []
    for s in ef.iter_sections():
        if isinstance(s, NoteSection):
            out.extend(s.iter_notes())
    yield 'nested.sections', out, 0, n
    out = []
    for g in ef.iter_segments():
        if isinstance(g, NoteSegment):
            out.extend(g.iter_notes())
    yield 'nested.segments', out, 0, n


def _replay_multi(run, ctx, case, ELFFile, NoteSection, NoteSegment, tables):
    data = concretise(case['chunks'])
    exp = case['notes']
    pat = ['-']

    def bad(clause, expected, observed):
        brief = {k: v for k, v in case.items() if k != 'chunks'}
        brief.update(bytes_b64=core.b64(data), pattern=pat[0], tables=tables)
        run.mismatch(clause, case['tag'], brief, expected, observed)

    try:
        ef = ELFFile(io.BytesIO(data))
        s1, s2, seg = ef.get_section(case['sec']), ef.get_section(case['sec2']), ef.get_segment(case['seg'])
    except Exception as ex:
        bad('open', 'ELFFile', 'exc:%s:%s' % (type(ex).__name__, ex))
        return
    kinds = [type(s1).__name__, type(s2).__name__, type(seg).__name__]
    if kinds != ['NoteSection', 'NoteSection', 'NoteSegment']:
        bad('front-end', ['NoteSection', 'NoteSection', 'NoteSegment'], kinds)
        return
    got_ext = [[s1['sh_offset'], s1['sh_offset'] + s1['sh_size']], [s2['sh_offset'], s2['sh_offset'] + s2['sh_size']],
               [seg['p_offset'], seg['p_offset'] + seg['p_filesz']]]
    if got_ext != [case['ext'], case['ext2'], case['segext']]:
        bad('extent', [case['ext'], case['ext2'], case['segext']], got_ext)
        return
    try:
        judged = []
        for name, got, lo, hi in _patterns_multi(ef, s1, s2, seg, case['split'], len(exp), NoteSection, NoteSegment):
            pat[0] = name
            plain = (lo, hi, [_plain(n) for n in got])
            if plain in judged:
                continue
            judged.append(plain)
            if len(got) != hi - lo:
                bad('count', hi - lo, len(got))
            for i, (e, o) in enumerate(zip(exp[lo:hi], got)):
                _cmp_note(ctx, bad, lo + i, e, o, case['core'])
    except Exception as ex:
        import traceback
        bad('exception', 'no exception', 'exc:%s:%s @ %s' % (type(ex).__name__, ex, traceback.format_exc().splitlines()[-3].strip()))


def _replay_notes(run, ctx, case, ELFFile, NoteSection, NoteSegment, tables):
    if case['mode'] == 'multi':
        return _replay_multi(run, ctx, case, ELFFile, NoteSection, NoteSegment, tables)
    data = concretise(case['chunks'])
    tag = case['tag']
    exp = case['notes']
    pat = ['-']

    def bad(clause, expected, observed):
        # the whole specification view travels with the mismatch: the replay file is self-contained
        brief = {k: v for k, v in case.items() if k != 'chunks'}
        brief.update(bytes_b64=core.b64(data), pattern=pat[0], tables=tables)
        run.mismatch(clause, tag, brief, expected, observed)

    try:
        ef = ELFFile(io.BytesIO(data))
        sec, seg = ef.get_section(case['sec']), ef.get_segment(case['seg'])
    except Exception as ex:
        bad('open', 'ELFFile', 'exc:%s:%s' % (type(ex).__name__, ex))
        return
    if type(sec).__name__ != 'NoteSection' or type(seg).__name__ != 'NoteSegment':
        bad('front-end', ['NoteSection', 'NoteSegment'], [type(sec).__name__, type(seg).__name__])
        return
    if [sec['sh_offset'], sec['sh_offset'] + sec['sh_size']] != case['ext'] or \
            [seg['p_offset'], seg['p_offset'] + seg['p_filesz']] != case['ext']:
        bad('extent', case['ext'], [sec['sh_offset'], sec['sh_size'], seg['p_offset'], seg['p_filesz']])
        return
    ref = None
    try:
        for name, got in _patterns(ef, sec, seg, NoteSection, NoteSegment):
            pat[0] = name
            plain = [_plain(n) for n in got]
            if ref is not None and plain == ref:
                continue                      # same observation as a pattern already judged
            if len(got) != len(exp):
                bad('count', len(exp), len(got))
            for i, (e, o) in enumerate(zip(exp, got)):
                _cmp_note(ctx, bad, i, e, o, case['core'])
            if ref is None:
                ref = plain
    except Exception as ex:
        import traceback
        bad('exception', 'no exception', 'exc:%s:%s @ %s' % (type(ex).__name__, ex, traceback.format_exc().splitlines()[-3].strip()))


def _replay_stabs(run, case, ELFFile):
    data = concretise(case['chunks'])
    exp = [dict({k: denote(v) for k, v in s['f'].items()}, n_offset=s['off']) for s in case['stabs']]
    pat = ['-']

    def bad(clause, expected, observed):
        brief = {k: v for k, v in case.items() if k != 'chunks'}
        brief.update(bytes_b64=core.b64(data), pattern=pat[0])
        run.mismatch(clause, case['tag'], brief, expected, observed)

    try:
        ef = ELFFile(io.BytesIO(data))
        sec = ef.get_section(case['sec'])
        if type(sec).__name__ != 'StabSection':
            bad('front-end', 'StabSection', type(sec).__name__)
            return
        a, b = sec.iter_stabs(), sec.iter_stabs()
        ahead = [next(a)] if exp else []
        lb = list(b)
        ahead.extend(a)
        part = sec.iter_stabs()
        for _ in part:
            break                                   # abandoned after one record
        for name, got in (('list', list(sec.iter_stabs())), ('staggered.first', ahead), ('staggered.second', lb),
                          ('by_name', list(ef.get_section_by_name('.stab').iter_stabs()))):
            pat[0] = name
            obs = [{k: s[k] for k in ('n_strx', 'n_type', 'n_other', 'n_desc', 'n_value', 'n_offset')} for s in got]
            if len(obs) != len(exp):
                bad('stabs.count', len(exp), len(obs))
            for i, (e, o) in enumerate(zip(exp, obs)):
                if e != o:
                    bad('stabs.record', dict(e, index=i), o)
    except Exception as ex:
        import traceback
        bad('exception', 'no exception', 'exc:%s:%s @ %s' % (type(ex).__name__, ex, traceback.format_exc().splitlines()[-3].strip()))


# ----------------------------------------------------------------------------- T: corpus traces
def _record(run):
    from elftools.elf.elffile import ELFFile
    from elftools.elf.sections import NoteSection
    from elftools.elf.segments import NoteSegment
    from elftools.common.utils import struct_parse
    events, where, skipped = [], {}, []
    tid = 0
    for d in CORPUS:
        root = os.path.join(core.REPO, d)
        for fn in sorted(os.listdir(root)):
            path = os.path.join(root, fn)
            if not os.path.isfile(path):
                continue
            with open(path, 'rb') as fh:
                if fh.read(4) != b'\x7fELF':
                    continue
                try:
                    ef = ELFFile(fh)
                    exts = [('section %s' % s.name, s, s['sh_offset'], s['sh_size']) for s in ef.iter_sections()
                            if isinstance(s, NoteSection) and s['sh_type'] == 'SHT_NOTE']
                    exts += [('segment %d' % i, g, g['p_offset'], g['p_filesz']) for i, g in enumerate(ef.iter_segments())
                             if isinstance(g, NoteSegment)]
                except Exception as ex:
                    skipped.append('%s/%s: %s' % (d, fn, type(ex).__name__))
                    continue
                for what, obj, start, size in exts:
                    if start + size >= BIG:
                        skipped.append('%s/%s %s: extent beyond 2^30' % (d, fn, what))
                        continue
                    tid += 1
                    where[tid] = '%s/%s %s' % (d, fn, what)
                    events.append({'t': tid, 'k': 'ext', 'a': start, 'b': start + size, 'c': 0, 'd': 0})
                    pos = start
                    try:
                        for n in obj.iter_notes():
                            vals = (n['n_offset'], n['n_namesz'], n['n_descsz'], n['n_size'])
                            if max(vals) >= BIG:
                                events.append({'t': tid, 'k': 'huge', 'a': 0, 'b': 0, 'c': 0, 'd': 0})
                                break
                            events.append({'t': tid, 'k': 'note', 'a': vals[0], 'b': vals[1], 'c': vals[2], 'd': vals[3]})
                            pos = vals[0] + vals[3]
                    except Exception:
                        # a note that runs past the end of the file: the extent is not a well-formed input
                        events.append({'t': tid, 'k': 'huge', 'a': 0, 'b': 0, 'c': 0, 'd': 0})
                    nsz = dsz = 0
                    if pos + 12 <= start + size:
                        try:
                            nsz = struct_parse(ef.structs.Elf_word(''), fh, stream_pos=pos)
                            dsz = struct_parse(ef.structs.Elf_word(''), fh, stream_pos=pos + 4)
                        except Exception:
                            nsz = dsz = BIG - 1
                    events.append({'t': tid, 'k': 'end', 'a': 0, 'b': min(nsz, BIG - 1), 'c': min(dsz, BIG - 1), 'd': 0})
    return events, where, skipped


def _trace_check(run):
    events, where, skipped = _record(run)
    if not events:
        raise core.MachineryError('no note extents found in the corpus under %s' % core.REPO)
    trace = run.trace_file('notes', events)
    res = run.tlc('NotesTrace', 'NotesTrace', env={'TRACE': trace}, workers=1)
    verdicts = list(run.cases(res.out))
    if len(verdicts) != 1:
        raise core.MachineryError('NotesTrace wrote %d verdicts\n%s' % (len(verdicts), res.stdout[-2000:]))
    v = verdicts[0]
    ntr = len(where)
    badt = {b[0] for b in v['bad']}
    if v['ok'] + len(v['ill']) + len(badt) != ntr:
        raise core.MachineryError('trace verdict not total: %d ok + %d ill-formed + %d bad != %d traces'
                                  % (v['ok'], len(v['ill']), len(badt), ntr))
    for tid, line, why in sorted(v['bad']):
        ev = events[line - 1]
        case = {'where': where[tid], 'event': ev, 'extent': next(e for e in events if e['t'] == tid and e['k'] == 'ext')}
        if why == 'bare-final':
            run.mismatch('count', 'bare-final', case, 'one more note: a header-only note ends exactly at the extent end',
                         'iterator stopped %d bytes before the end' % 12)
        else:
            run.mismatch('trace.' + why, 'corpus', case, 'a step of the specified walker', ev)
    run.validated += v['ok']
    run.extra['corpus_traces'] = {'extents': ntr, 'accepted': v['ok'], 'not_well_formed_inputs': sorted(where[t] for t in v['ill']),
                                  'rejected': len(badt), 'notes': v['notes'], 'skipped': skipped}
    for tid in range(1, ntr + 1):
        run.count('T:' + where[tid], nontrivial=True)
    return ntr


# ----------------------------------------------------------------------------- Apalache obligations
APALACHE = '/opt/veriftools/apalache/bin/apalache-mc'
OBLIGATIONS = (('Init => IndInv', ['--init=Init', '--inv=IndInv', '--length=0']),
               ('IndInv /\\ Next => IndInv\'', ['--init=IndInit', '--inv=IndInv', '--length=1']),
               ('IndInv => Bound', ['--init=IndInit', '--inv=Bound', '--length=0']))


def _apalache_start(run):
    """The walker's progress measure over unbounded offsets and sizes (spec/NoteWalkInd.tla); started in the
    background while the replay runs.  A stall or a missing tool is reported, never a failure."""
    if not os.path.exists(APALACHE):
        return []
    procs = []
    for n, (name, args) in enumerate(OBLIGATIONS):
        d = os.path.join(run.tmp, 'apalache%d' % n)
        os.makedirs(d, exist_ok=True)
        for m in ('NoteWalk.tla', 'NoteWalkInd.tla'):
            shutil.copy(os.path.join(core.SPEC, m), d)
        p = subprocess.Popen([APALACHE, 'check'] + args + ['--out-dir=' + os.path.join(d, 'out'), '--run-dir=' + os.path.join(d, 'run'),
                                                           'NoteWalkInd.tla'], cwd=d, stdout=subprocess.PIPE, stderr=subprocess.STDOUT, text=True)
        procs.append((name, p))
    return procs


def _apalache_collect(run, procs):
    detail, discharged = [], 0
    for name, p in procs:
        try:
            out = p.communicate(timeout=120)[0]
        except subprocess.TimeoutExpired:
            p.kill()
            detail.append({'obligation': name, 'outcome': 'timeout'})
            continue
        if 'The outcome is: NoError' in out:
            discharged += 1
            detail.append({'obligation': name, 'outcome': 'discharged'})
        elif 'The outcome is: Error' in out:
            raise core.MachineryError('Apalache refutes the obligation %s of spec/NoteWalkInd.tla\n%s' % (name, out[-1500:]))
        else:
            detail.append({'obligation': name, 'outcome': 'not run: ' + out.strip().splitlines()[-1][:120] if out.strip() else 'not run'})
    run.extra['apalache'] = {'module': 'NoteWalkInd.tla', 'obligations': len(OBLIGATIONS), 'discharged': discharged, 'detail': detail}


# ----------------------------------------------------------------------------- replay of a recorded mismatch
def replay(run, path):
    from elftools.elf.elffile import ELFFile
    from elftools.elf.sections import NoteSection
    from elftools.elf.segments import NoteSegment
    rec = json.load(open(path))
    corpus = False
    for mm in [rec['first']] + rec.get('more', []):
        c = mm['case']
        if 'bytes_b64' not in c:
            corpus = True
            continue
        case = {k: v for k, v in c.items() if k not in ('bytes_b64', 'pattern', 'tables')}
        case['chunks'] = [[0, list(base64.b64decode(c['bytes_b64'])), 1]]
        run.count(core.digest(c['bytes_b64']))
        if case['mode'] == 'stabs':
            _replay_stabs(run, case, ELFFile)
        else:
            _replay_notes(run, _Ctx(c['tables']), case, ELFFile, NoteSection, NoteSegment, c['tables'])
    if corpus:
        _trace_check(run)
    return run.finish()


# ----------------------------------------------------------------------------- driver
def check(run):
    from elftools.elf.elffile import ELFFile
    from elftools.elf.sections import NoteSection
    from elftools.elf.segments import NoteSegment
    run.rule = ('G cases = finished extents of the Notes writer (size sweep over namesz/descsz residues incl. header-only notes and '
                'trailing padding, owner x type x e_type sweep, decoded descriptors incl. property lists under several e_types, '
                'declared alignment - p_align x sh_addralign in {0, 1, 4, 8, 16} - x sizes that tell 4- from 8-byte padding apart, decoded '
                'descriptors behind a plain note that puts them at file offsets 4 mod 8, name fields whose namesz covers 0..5 nulls behind the one that '
                'ends the owner - plain and decoded notes, the owner being the string before the first null -, two adjacent note sections covered by one '
                'segment (each section yields its own notes, the segment all of them), file maps of up to 5 mappings with page sizes 1 .. 64 KiB, stab sections of several units each led by its N_UNDF header), '
                'each exposed as SHT_NOTE '
                'section and PT_NOTE segment of one ELF image and consumed in 8 iterator patterns; distinct by file bytes; '
                'non-trivial = at least one note / stab record.  T cases = note sections and segments of the corpus files; '
                'non-trivial = all of them')
    run.assumptions += ['note name and descriptor are padded to 4 bytes in both ELF classes (property text; Linux/GNU practice), '
                        'whatever alignment p_align / sh_addralign declare',
                        'type-code names are asserted only where the owner that defines the code is the note\'s owner '
                        '("GNU" outside ET_CORE, "CORE" in ET_CORE); otherwise the raw integer or any registered name of the code passes',
                        'names the vendored registry and the specification do not define are not asserted (vocabulary gating)',
                        'n_desc of a note the specification has no layout for is asserted (= the raw descriptor bytes) only when no '
                        'transcribed standard gives the (owner, type) pair a meaning: owners other than the one defining the codes of '
                        'this kind of file (except "FreeBSD") and codes owner "GNU" does not define',
                        'a file is a core file iff e_type = ET_CORE; every other e_type (ET_NONE, OS- and processor-specific) '
                        'uses the GNU note type names',
                        'in ET_CORE files types 3 and NT_FILE are generated with owner "CORE" and a well-formed descriptor only',
                        'the elements of a property list follow one another by their padded sizes (linux-abi: pr_padding is part of the element), '
                        'whatever the file offset of the descriptor',
                        'the owner of a note is the string that ends at the first null of its name field (gABI: "the first namesz bytes in name contain a '
                        'null-terminated character representation of the entry\'s owner"); further nulls inside namesz belong to the field, not to the owner, '
                        'and the type names and descriptor layouts of an owner apply to every field that spells it; fields with a null followed by other '
                        'bytes, or without a null, are not generated',
                        'a note section ends at sh_offset + sh_size even when another note section follows it directly in the file; a PT_NOTE segment '
                        'over several note sections yields the notes of all of them in file order',
                        'the count in an N_UNDF unit header of a stab section covers its own unit; every 12-byte record up to sh_size is a stab',
                        'corpus extents whose notes overrun the extent (dwarf_phantombytes.elf marks DWARF sections SHT_NOTE) '
                        'are not well-formed inputs and are not judged']
    # (Notes_quick_all = Notes_quick.cfg + mode "align")
    cfgs = ['Notes_quick_all'] if run.tier == 'quick' else ['Notes_thorough', 'Notes_thorough3', 'Notes_thorough_props', 'Notes_thorough_props2', 'Notes_thorough_owners']
    seen = set()
    ctx = None
    nalign = {'extents': 0, 'where 8-byte padding would walk differently': 0}
    nprops = {'extents with a property list': 0, 'where alignment by file offset would walk the list differently': 0}
    nowners = {'extents of mode "owners"': 0, 'where "owner = first namesz - 1 bytes" would name a note differently': 0}
    nmulti = {'images with two note sections in one segment': 0, 'where both sections hold notes': 0}
    nunits = {'stab sections': 0, 'with a unit header that does not cover the rest of the section': 0}
    provers = _apalache_start(run)
    for cfg in cfgs:
        res = run.tlc('Notes', cfg)
        tables = None
        for c in run.cases(res.out):         # emitted at the initial states: among the first lines
            if 'tables' in c:
                tables = c
                break
        if tables is None:
            raise core.MachineryError('Notes/%s emitted no tables record' % cfg)
        ctx = ctx or _Ctx(tables['tables'])
        for case in run.cases(res.out):
            if 'tables' in case:
                continue
            key = core.digest(case['chunks'])
            if key in seen:
                continue
            seen.add(key)
            if case['mode'] == 'stabs':
                run.count(key, nontrivial=bool(case['stabs']))
                nunits['stab sections'] += 1
                nunits['with a unit header that does not cover the rest of the section'] += 1 if case['tag'] == 'stabs/units' else 0
                _replay_stabs(run, case, ELFFile)
            else:
                run.count(key, nontrivial=bool(case['notes']))
                if case['mode'] == 'align':
                    nalign['extents'] += 1
                    nalign['where 8-byte padding would walk differently'] += 1 if case['alt8'] else 0
                if case['mode'] == 'multi':
                    nmulti['images with two note sections in one segment'] += 1
                    nmulti['where both sections hold notes'] += 1 if 0 < case['split'] < len(case['notes']) else 0
                if case['mode'] == 'owners':
                    nowners['extents of mode "owners"'] += 1
                    nowners['where "owner = first namesz - 1 bytes" would name a note differently'] += 1 if case['namealt'] else 0
                if any(n['dk'] == 'props' for n in case['notes']):
                    nprops['extents with a property list'] += 1
                    nprops['where alignment by file offset would walk the list differently'] += 1 if case['propabs'] else 0
                _replay_notes(run, ctx, case, ELFFile, NoteSection, NoteSegment, tables['tables'])
            if len(run.samples) < 3 and run.evaluations % 2500 == 77:
                run.samples.append({'mode': case['mode'], 'tag': case['tag'], 'cls': case['cls'], 'le': case['le'],
                                    'extent': case.get('ext'), 'chunks': case['chunks'][1:2],
                                    'expect': [{k: v for k, v in n.items() if k in ('off', 'size', 'namesz', 'descsz', 'type', 'name', 'dk')}
                                               for n in case.get('notes', [])] or case.get('stabs')})
    run.validated = run.evaluations
    run.extra['align_cases'] = nalign
    run.extra['property_list_cases'] = nprops
    run.extra['stab_unit_cases'] = nunits
    run.extra['owner_field_cases'] = nowners
    run.extra['multi_section_cases'] = nmulti
    if run.tier == 'quick' and not (nprops['where alignment by file offset would walk the list differently'] and
                                    nunits['with a unit header that does not cover the rest of the section'] and
                                    nowners['where "owner = first namesz - 1 bytes" would name a note differently']):
        raise core.MachineryError('the quick configuration no longer generates property lists off their alignment / multi-unit stab sections / '
                                  'name fields with several nulls inside namesz')
    # termination in its liveness form (fair walker steps lead to "done") on a small instance; nothing is emitted
    run.tlc('Notes', 'Notes_live', emit=False)
    _trace_check(run)
    _apalache_collect(run, provers)
    run.extra['exhaustive'] = True
    run.extra['explanation'] = ('exhaustive within the bounds of the configuration(s) %s (see the cfg comment blocks); '
                                'TLC checks EveryNoteOnce, ExtentConsumed, SectionViewEqualsSegmentView, SectionsSplitSegment, NotesTile, DescRoundTrip, OnlyDefiningOwnerDecodes, OwnerUpToFirstNul, '
                                'StabsExact, UnitsTile, PropsRelative, ImageCarriesExtent, AlignOnlyInHeaders, WalkerProgress and Termination on the specification itself' % ', '.join(cfgs))
    if not run.samples:
        run.samples.append({'note': 'no sample'})
