"""C01 - ELF file, section and program headers are decoded exactly as encoded.

Spec: spec/ElfImage.tla over spec/Elf.tla (layouts, image builder, view) and the vendored
registry.  G: every finished image of the abstract writer is concretised byte for byte from the
chunks the specification computed and opened with ELFFile; every observable named by the
property is compared with Elf!View.

Machine-scoped names (`scope` of the emitted case, Elf!Scoped): a code with several registry names means what the machine of the
image says.  sh_type / p_type: always asserted (the property names the machine-switched tables).  EI_OSABI (gABI: codes 64..255 are
architecture specific): asserted where the library claims to know the machine's own name for the code (its vocabulary has it: EM_ARM
64/97) - there a name another architecture owns is a violation; where the library does not have the machine's name (EM_AMDGPU,
EM_TI_C6000 on the present tree: it reports ELFOSABI_ARM_AEABI from its flat table) every registered name of the code stays
admissible, the property does not demand an OS ABI overlay.  VERIF_C01_OSABI_STRICT=1 asserts the scoped set there too (opt-in).
`probes`: filler indices at the reserved section indices 0xff00..0xffff (and around PN_XNUM) that must resolve like any other."""
import io
import os

from . import core
from .core import denote
from .elfutil import concretise, vocab, enum_verdict

LEVEL = 'model_checking'

SEC_CLASS = {'strtab': 'StringTableSection', 'null': 'NullSection', 'symtab': 'SymbolTableSection',
             'symtab_shndx': 'SymbolTableIndexSection', 'syminfo': 'SUNWSyminfoTableSection',
             'verneed': 'GNUVerNeedSection', 'verdef': 'GNUVerDefSection', 'versym': 'GNUVerSymSection',
             'reloc': 'RelocationSection', 'dynamic': 'DynamicSection', 'note': 'NoteSection', 'stab': 'StabSection',
             'arm_attributes': 'ARMAttributesSection', 'riscv_attributes': 'RISCVAttributesSection',
             'hash': 'ELFHashSection', 'gnu_hash': 'GNUHashSection', 'relr': 'RelrRelocationSection', 'plain': 'Section'}
SEG_CLASS = {'interp': 'InterpSegment', 'dynamic': 'DynamicSegment', 'note': 'NoteSegment', 'plain': 'Segment'}


def check(run):
    from elftools.elf.elffile import ELFFile
    voc_sht = vocab('ENUM_SH_TYPE*')
    voc_pt = vocab('ENUM_P_TYPE*')
    voc_hdr = {'e_type': vocab('ENUM_E_TYPE'), 'e_machine': vocab('ENUM_E_MACHINE'), 'e_version': vocab('ENUM_E_VERSION'),
               'EI_OSABI': vocab('ENUM_EI_OSABI'), 'EI_VERSION': vocab('ENUM_E_VERSION'), 'EI_CLASS': vocab('ENUM_EI_CLASS'),
               'EI_DATA': vocab('ENUM_EI_DATA')}
    run.rule = ('cases = finished images of the ElfImage writer (modes: single sections x 9 machines x 4 class/order, section pairs, '
                'segment lists, placement/entry-size options, no section table, one image per registry code of every enumerated '
                'header field, OS ABI codes of the architecture-specific range x 8 machines x 4 class/order, numeric field boundary values, '
                'extended numbering with section counts below / at / above the reserved index range); non-trivial = image has at least one '
                'user section or segment; distinct by emitted bytes')
    run.assumptions += ['special section types are generated with minimal valid content and valid links only',
                        'SHF_COMPRESSED is never set here (C02 covers it)',
                        'names the vendored registry does not define are not asserted (vocabulary gating)',
                        'EI_OSABI codes 64..255 are scoped by e_machine only where the library knows the machine\'s own name for the code '
                        '(EM_ARM); elsewhere any registered name of the code or the raw integer is admissible (VERIF_C01_OSABI_STRICT=1 scopes all)']
    strict = os.environ.get('VERIF_C01_OSABI_STRICT') == '1'
    res = run.tlc('ElfImage', 'ElfImage_quick' if run.tier == 'quick' else 'ElfImage_thorough')
    seen = set()
    for case in run.cases(res.out):
        v = case['view']
        sc = case.get('scope') or {}
        v['scope'] = {'osabi': v['names']['EI_OSABI'], 'sh': {}, 'ph': {}, 'probes': case.get('probes') or {'sec': [], 'seg': []}}
        if 'osabi' in sc and (strict or set(sc['osabi']) & voc_hdr['EI_OSABI']):
            v['scope']['osabi'] = sc['osabi']
        v['scope']['sh'] = {i: names for i, names in sc.get('sh', [])}
        v['scope']['ph'] = {i: names for i, names in sc.get('ph', [])}
        data = concretise(case['chunks'])
        key = core.digest([case['tag'], len(data), data[:4096], core.digest(case['chunks'])])
        if key in seen:
            continue
        seen.add(key)
        tag = case['tag']
        nontriv = bool(v['sections'][1:-1] or v['segments'] or v['filler']['count'])
        run.count(key, nontrivial=nontriv)
        if len(run.samples) < 3 and nontriv and run.evaluations % 700 == 1:
            run.samples.append({'tag': tag, 'file_size': len(data), 'chunks': case['chunks'][:3], 'view_header': v['header'],
                                'sections': [s['name'] for s in v['sections']]})
        brief = {'tag': tag, 'elfclass': v['elfclass'], 'le': v['little_endian'], 'machine': denote(v['header']['e_machine']),
                 'bytes_b64': core.b64(data) if len(data) < 4096 else None, 'chunks': case['chunks'] if len(data) >= 4096 else None}

        def bad(clause, exp, obs, t=None):
            run.mismatch(clause, t or tag, brief, exp, obs)
        try:
            with core.guard(30):
                ef = ELFFile(io.BytesIO(data))
        except Exception as ex:
            bad('open', 'ELFFile', 'exc:%s:%s' % (type(ex).__name__, ex))
            continue
        try:
            with core.guard(120):
                _compare(run, ef, v, data, bad, voc_sht, voc_pt, voc_hdr, SEC_CLASS, SEG_CLASS)
        except Exception as ex:
            import traceback
            bad('exception', 'no exception', 'exc:%s:%s @ %s' % (type(ex).__name__, ex, traceback.format_exc().splitlines()[-3].strip()))
    run.validated = run.evaluations
    if not run.samples:
        run.samples.append({'note': 'no sample'})


def _compare(run, ef, v, data, bad, voc_sht, voc_pt, voc_hdr, SEC_CLASS, SEG_CLASS):
    if ef.elfclass != v['elfclass']:
        bad('elfclass', v['elfclass'], ef.elfclass)
    if ef.little_endian != v['little_endian']:
        bad('little_endian', v['little_endian'], ef.little_endian)
    if ef.e_ident_raw != bytes(v['ident']):
        bad('e_ident_raw', v['ident'], list(ef.e_ident_raw))
    h = ef.header
    for f, val in v['header'].items():
        code = denote(val)
        if f in ('e_type', 'e_machine', 'e_version'):
            r = enum_verdict(h[f], code, v['names'][f], voc_hdr[f])
            if r is False:
                bad('header.' + f, {'code': code, 'names': v['names'][f]}, h[f])
        elif h[f] != code:
            bad('header.' + f, code, h[f])
    idn = h['e_ident']
    if list(idn['EI_MAG']) != v['ident'][:4]:
        bad('ident.EI_MAG', v['ident'][:4], list(idn['EI_MAG']))
    for f, code in (('EI_CLASS', v['ident'][4]), ('EI_DATA', v['ident'][5]), ('EI_VERSION', v['ident'][6])):
        if enum_verdict(idn[f], code, v['names'][f], voc_hdr[f]) is False:
            bad('ident.' + f, {'code': code, 'names': v['names'][f]}, idn[f])
    # the OS ABI name under the machine of the image (scoped set where it applies, see the module docstring)
    code = v['ident'][7]
    if enum_verdict(idn['EI_OSABI'], code, v['scope']['osabi'], voc_hdr['EI_OSABI']) is False:
        bad('ident.EI_OSABI', {'code': code, 'names': v['scope']['osabi'], 'machine': denote(v['header']['e_machine'])}, idn['EI_OSABI'],
            t='osabi=%d/machine=%d' % (code, denote(v['header']['e_machine'])))
    if idn['EI_ABIVERSION'] != v['ident'][8]:
        bad('ident.EI_ABIVERSION', v['ident'][8], idn['EI_ABIVERSION'])
    # ---- sections
    n = ef.num_sections()
    if n != v['num_sections']:
        bad('num_sections', v['num_sections'], n)
        return
    if n and ef.get_shstrndx() != v['shstrndx']:
        bad('shstrndx', v['shstrndx'], ef.get_shstrndx())
    full = run.tier == 'thorough' or n < 1000
    listed = None
    if full:
        listed = list(ef.iter_sections())
        if len(listed) != n:
            bad('iter_sections.len', n, len(listed))
            return
    byname = {}
    for s in v['sections']:
        i = s['index']
        try:
            sec = ef.get_section(i)
        except Exception as ex:
            bad('get_section', 'section at index %#x of %#x' % (i, n), 'exc:%s:%s' % (type(ex).__name__, ex), t='index=%s' % _irange(i))
            return
        if i in v['scope']['sh']:
            s = dict(s, typenames=v['scope']['sh'][i])
        _cmp_section(sec, s, v, bad, voc_sht, SEC_CLASS)
        if listed is not None:
            o = listed[i]
            if o.name != sec.name or dict(o.header) != dict(sec.header) or type(o) is not type(sec):
                bad('iter_vs_get', 'same section at index %d' % i, [o.name, sec.name])
        byname.setdefault(bytes(s['name']).decode('utf-8'), []).append(i)
    fl = v['filler']
    if fl['count']:
        idxs = range(fl['from'], fl['from'] + fl['count']) if full else \
            sorted({fl['from'], fl['from'] + fl['count'] // 2, fl['from'] + fl['count'] - 1, min(fl['from'] + 0xff00, fl['from'] + fl['count'] - 1)}
                   | set(v['scope']['probes']['sec']))
        for i in idxs:
            try:
                sec = listed[i] if listed is not None else ef.get_section(i)
            except Exception as ex:
                bad('get_section', 'section at index %#x of %#x' % (i, n), 'exc:%s:%s' % (type(ex).__name__, ex), t='index=%s' % _irange(i))
                break
            if sec.name != '' or sec['sh_type'] != 'SHT_NULL' or any(sec[k] != 0 for k in sec.header if k != 'sh_type') \
                    or type(sec).__name__ != 'NullSection':
                bad('filler_section', 'null section at index %d' % i, [sec.name, dict(sec.header)])
                break
        byname.setdefault('', []).extend([fl['from'], fl['from'] + fl['count'] - 1])
    if n:
        failed = False                  # a by-name lookup raised: reported once, the remaining name queries are skipped
        for name, idxs in byname.items():
            if name == '' and fl['count'] and not full:
                continue
            allidx = set(idxs)
            if name == '' and fl['count']:
                allidx |= set(range(fl['from'], fl['from'] + fl['count']))
            try:
                gi = ef.get_section_index(name)
                sec = ef.get_section_by_name(name)
            except Exception as ex:
                bad('lookup_by_name', 'section %r at index %s of %#x' % (name, sorted(allidx)[:3], n), 'exc:%s:%s' % (type(ex).__name__, ex),
                    t='index=%s/count=%s' % (_irange(min(allidx)), _irange(n - 1)))
                failed = True
                break
            if gi not in allidx:
                bad('get_section_index', sorted(allidx)[:5], gi)
            if sec is None or sec.name != name:
                bad('get_section_by_name', name, None if sec is None else sec.name)
            elif gi in allidx and dict(sec.header) != dict(ef.get_section(gi).header):
                bad('get_section_by_name.header', 'header of index %d' % gi, dict(sec.header))
            if not ef.has_section(name):
                bad('has_section', True, False)
        # names that are not section names although the name table contains them as NUL-terminated substrings (tails of other names),
        # asked of a fresh object before any other lookup and again afterwards
        from elftools.elf.elffile import ELFFile
        tails = [] if failed else sorted({nm[k:] for nm in byname for k in (1, 2, len(nm) - 1) if 0 < k < len(nm)} - set(byname))[:6]
        fresh = ELFFile(io.BytesIO(data))
        for q in tails + ([] if failed else sorted(n for n in byname if n)[:2]):
            for obj, when in ((fresh, 'first'), (ef, 'later')):
                if bool(obj.has_section(q)) != (q in byname):
                    bad('has_section.' + when, q in byname, not (q in byname), t='tail' if q not in byname else 'present')
        for q in tails[:2]:
            if fresh.get_section_by_name(q) is not None or fresh.get_section_index(q) is not None:
                bad('absent_name', None, q, t='tail')
        for absent in ('.no_such_section', '.tex'):
            if absent not in byname and not failed:
                if ef.get_section_by_name(absent) is not None or ef.get_section_index(absent) is not None or ef.has_section(absent):
                    bad('absent_name', None, absent)
        if full and not failed:
            # type filter agrees with enumeration
            for tname in {s['sh_type'] for s in listed if isinstance(s['sh_type'], str)}:
                want = [i for i, s in enumerate(listed) if s['sh_type'] == tname]
                got = [s.name for s in ef.iter_sections(type=tname)]
                if got != [listed[i].name for i in want]:
                    bad('iter_sections.type', want, got)
    # ---- the struct set survives pickling (ELFStructs.__getstate__/__setstate__): the re-created set names the same codes
    import pickle
    from elftools.common.utils import struct_parse
    st2 = pickle.loads(pickle.dumps(ef.structs))
    for s in v['sections'][:8]:
        i = s['index']
        a = struct_parse(st2.Elf_Shdr, ef.stream, ef['e_shoff'] + i * ef['e_shentsize'])
        b = ef.get_section(i).header
        if a['sh_type'] != b['sh_type'] or dict(a) != dict(b):
            bad('pickled_structs.shdr', dict(b), dict(a))
    for g in v['segments'][:8]:
        a = struct_parse(st2.Elf_Phdr, ef.stream, ef['e_phoff'] + g['index'] * ef['e_phentsize'])
        b = ef.get_segment(g['index']).header
        if dict(a) != dict(b):
            bad('pickled_structs.phdr', dict(b), dict(a))
    # ---- segments
    m = ef.num_segments()
    if m != v['num_segments']:
        bad('num_segments', v['num_segments'], m)
        return
    fullp = run.tier == 'thorough' or m < 1000
    plist = list(ef.iter_segments()) if fullp else None
    if plist is not None and len(plist) != m:
        bad('iter_segments.len', m, len(plist))
        return
    for g in v['segments']:
        seg = ef.get_segment(g['index'])
        if g['index'] in v['scope']['ph']:
            g = dict(g, typenames=v['scope']['ph'][g['index']])
        for f, val in g['hdr'].items():
            code = denote(val)
            if f == 'p_type':
                if enum_verdict(seg[f], code, g['typenames'], voc_pt) is False:
                    bad('segment.p_type', {'code': code, 'names': g['typenames']}, seg[f], t='%s:p_type=%#x' % (_tag(bad), code))
            elif seg[f] != code:
                bad('segment.' + f, code, seg[f])
        if type(seg).__name__ != SEG_CLASS[g['kind']]:
            bad('segment.class', SEG_CLASS[g['kind']], type(seg).__name__)
        if plist is not None and dict(plist[g['index']].header) != dict(seg.header):
            bad('iter_vs_get_segment', dict(seg.header), dict(plist[g['index']].header))
    pf = v['pfiller']
    if pf['count']:
        idxs = range(pf['from'], pf['from'] + pf['count']) if fullp else sorted({pf['from'], pf['from'] + pf['count'] - 1, pf['from'] + pf['count'] // 2} | set(v['scope']['probes']['seg']))
        for i in idxs:
            seg = plist[i] if plist is not None else ef.get_segment(i)
            if seg['p_type'] != 'PT_NULL' or any(seg[k] != 0 for k in seg.header if k != 'p_type'):
                bad('filler_segment', 'null segment at %d' % i, dict(seg.header))
                break
    if plist is not None:
        for tname in {s['p_type'] for s in plist if isinstance(s['p_type'], str)}:
            want = [dict(s.header) for s in plist if s['p_type'] == tname]
            got = [dict(s.header) for s in ef.iter_segments(type=tname)]
            if got != want:
                bad('iter_segments.type', len(want), len(got))


def _tag(bad):
    return 'p'


def _irange(i):
    """class of a section index: below / inside / above the reserved range SHN_LORESERVE..SHN_HIRESERVE"""
    return 'below_0xff00' if i < 0xff00 else 'reserved_0xff00_0xffff' if i <= 0xffff else 'above_0xffff'


def _cmp_section(sec, s, v, bad, voc_sht, SEC_CLASS):
    name = bytes(s['name']).decode('utf-8')
    if sec.name != name:
        bad('section.name', name, sec.name)
    for f, val in s['hdr'].items():
        code = denote(val)
        if f == 'sh_type':
            if enum_verdict(sec[f], code, s['typenames'], voc_sht) is False:
                bad('section.sh_type', {'code': code, 'names': s['typenames'], 'machine': denote(v['header']['e_machine'])}, sec[f],
                    t='sh_type=%#x/machine=%d' % (code, denote(v['header']['e_machine'])))
        elif sec[f] != code:
            bad('section.' + f, code, sec[f])
    if type(sec).__name__ != SEC_CLASS[s['kind']]:
        bad('section.class', SEC_CLASS[s['kind']], type(sec).__name__, t='kind=%s/machine=%d' % (s['kind'], denote(v['header']['e_machine'])))
