"""C12 - DWARF expressions are split into exactly their operations and operands.

Spec: spec/Expr.tla (+ Bytes.tla); trace spec: spec/trace/ExprTrace.tla.

G: every finished state of the Expr writer/reader machine is one case: a context (address size, offset
size = DWARF format, byte order, version given to the parser: 2..5, or 0 = none given = constructor
default), the bytes Enc(expr) and the declarative view Present(Annot(expr)) =
list of (opcode, name, operand values, offset), nested for entry-value blocks.  The driver hands the
bytes to DWARFExprParser(structs).parse_expr and compares field by field, recursively.  The name table
of the spec (emitted once) is compared with DW_OP_name2opcode / DW_OP_opcode2name (one-to-one clause).

T: every DW_FORM_exprloc / block-form location-class attribute of the DIEs of a few corpus files is
recorded as (context, bytes, parsed operations); ExprTrace.tla re-decodes the bytes with the spec's
decoder Dec and compares (total verdict; expressions using opcodes outside the table are counted as
"outside", not asserted).

Python knows: how to turn a digit string / group string into an int (denote), and how the library spells
a parsed operation (namedtuple with op, op_name, args, offset; blocks as sequences of ints)."""
import json
import multiprocessing
import os

from . import core

LEVEL = 'model_checking'

VERSIONS = (0, 2, 3, 4, 5)    # the spec's Versions; 0 = DWARFStructs built without dwarf_version (what DWARFInfo.structs,
                              # i.e. every call-frame / location-list client, hands to DWARFExprParser)


def _leb(g, signed):
    n = 0
    for i, x in enumerate(g):
        n |= x << (7 * i)
    if signed and g and g[-1] & 0x40:
        n -= 1 << (7 * len(g))
    return n


def _want(x):
    """Spec view -> comparable form: [opcode, name, [('i', int) | ('b', [ints]) | ('e', ops) | ('z',)], offset]."""
    out = []
    for code, name, args, off in (x or []):
        a2 = []
        for a in (args or []):
            if 'e' in a:
                sub = _want(a['e'])
                a2.append(('e', sub, a['n']) if sub else ('z',))
            elif 'b' in a:
                b = list(a['b'] or [])
                a2.append(('b', b) if b else ('z',))
            elif 'g' in a:
                a2.append(('i', _leb(a['g'], a['s'])))
            else:
                a2.append(('i', core.denote(a)))
        out.append([code, name, a2, off])
    return out


def _got(ops):
    """Library result -> the same comparable form."""
    out = []
    for o in ops:
        a2 = []
        for a in o.args:
            if isinstance(a, bool) or a is None:
                a2.append(('?', repr(a)))
            elif isinstance(a, int):
                a2.append(('i', a))
            elif isinstance(a, (list, tuple, bytes, bytearray)):
                if len(a) == 0:
                    a2.append(('z',))
                elif hasattr(a[0], 'op_name'):
                    a2.append(('e', _got(a)))
                else:
                    a2.append(('b', list(a)))
            else:
                a2.append(('?', repr(a)))
        out.append([o.op, o.op_name, a2, o.offset])
    return out


def _diff(want, got):
    """First difference -> (clause, name of the expected operation there) or None."""
    for w, g in zip(want, got):
        if w[0] != g[0]:
            return ('opcode', w[1])
        if w[1] != g[1]:
            return ('name', w[1])
        if len(w[2]) != len(g[2]):
            return ('argcount', w[1])
        for wa, ga in zip(w[2], g[2]):
            if wa[0] == 'e' and ga[0] == 'e':
                d = _diff(wa[1], ga[1])
                if d:
                    return (d[0] if d[0].startswith('nested.') else 'nested.' + d[0], d[1])
            elif wa != ga:
                return ('args', w[1])
        if w[3] != g[3]:
            return ('offset', w[1])
    if len(got) < len(want):
        return ('count', want[len(got)][1])
    if len(got) > len(want):
        return ('count', 'extra')
    return None


class _Parsers:
    def __init__(self):
        self.cache = {}

    def get(self, asz, osz, le, ver, fresh=False):
        from elftools.dwarf.structs import DWARFStructs
        from elftools.dwarf.dwarf_expr import DWARFExprParser
        key = (asz, osz, le, ver)
        if fresh or key not in self.cache:
            kw = {'dwarf_version': ver} if ver else {}
            st = DWARFStructs(little_endian=bool(le), dwarf_format=32 if osz == 4 else 64, address_size=asz, **kw)
            p = DWARFExprParser(st)
            if fresh:
                return p
            self.cache[key] = p
        return self.cache[key]


def _parse(parser, data):
    try:
        return _got(parser.parse_expr(list(data)))
    except Exception as ex:          # the property says parsing *returns*: any exception is a disagreement
        return {'exc': type(ex).__name__}


def _blame(parser, data, want):
    """Which expected operation is the first one the parser cannot get past (only on failure); descends
    into entry-value blocks (their byte length comes from the spec: the block is the tail of its operation)."""
    for i, w in enumerate(want):
        end = want[i + 1][3] if i + 1 < len(want) else len(data)
        got = _parse(parser, data[:end])
        if isinstance(got, dict) or _diff(want[:i + 1], got):
            for a in w[2]:
                if a[0] == 'e':
                    inner = _parse(parser, data[end - a[2]:end])
                    if isinstance(inner, dict) or _diff(a[1], inner):
                        return _blame(parser, data[end - a[2]:end], a[1])
            return w[1]
    return want[-1][1] if want else 'empty'


def _check_names(run, tab):
    from elftools.dwarf import dwarf_expr
    n2o, o2n = dwarf_expr.DW_OP_name2opcode, dwarf_expr.DW_OP_opcode2name
    markers = {name: code for code, name in tab['markers']}
    for code, name in tab['names']:
        run.count(('name', name), nontrivial=True)
        if name in n2o and n2o[name] != code:
            run.mismatch('names.forward', name, {'name': name}, code, n2o[name])
        if o2n.get(code) != name:
            run.mismatch('names.reverse', name, {'opcode': code}, name, o2n.get(code))
    for name, code in markers.items():
        if name in n2o and n2o[name] != code:
            run.mismatch('names.marker', name, {'name': name}, code, n2o[name])
    by_code = {}
    for name, code in n2o.items():
        if name not in markers:
            by_code.setdefault(code, []).append(name)
    for code, names in sorted(by_code.items()):
        if len(names) > 1:
            run.mismatch('names.bijective', 'op_0x%02x' % code, {'opcode': code}, 'one name', sorted(names))


def _one(case, n, parsers, seen, out):
    """Replay one emitted case; results go to the accumulator `out` (a plain dict: it crosses processes)."""
    asz, osz, le, ver = case['c']
    data = bytes(case['b'] or [])
    if seen is not None:          # simulated cases may repeat; exhaustive states are distinct by construction
        key = (asz, osz, le, ver, data)
        if key in seen:
            return
        seen.add(key)
    want = _want(case['x'])
    parser = parsers.get(asz, osz, le, ver)
    got = _parse(parser, data)
    out['n'] += 1
    out['nt'] += 1 if want else 0
    out['stats'][case['t']] = out['stats'].get(case['t'], 0) + 1
    if len(out['samples']) < 4 and 3 <= len(data) <= 24 and n % 4999 == 17:
        out['samples'].append({'ctx': case['c'], 'bytes': list(data), 'expect': case['x']})
    small = {'ctx': case['c'], 'bytes': list(data) if len(data) <= 64 else core.b64(data), 'kind': case['t']}
    mm = None
    if isinstance(got, dict):
        mm = ('raises.' + got['exc'], _blame(parser, data, want))
    else:
        d = _diff(want, got)
        if d:
            mm = d
        else:
            out['ok'] += 1
            if n % 97 == 0:
                # the parser is stateless: a fresh parser object and a second call on the shared one agree
                again = _parse(parser, data)
                fresh = _parse(parsers.get(asz, osz, le, ver, fresh=True), data)
                if again != got or fresh != got:
                    mm = ('stateless', want[0][1] if want else 'empty')
                    got = [again, fresh]
    if mm:
        out['mmcount'][mm] = out['mmcount'].get(mm, 0) + 1
        if out['mmcount'][mm] <= 5:
            out['mm'].append((mm[0], mm[1], small, want, got))


def _acc():
    return {'n': 0, 'nt': 0, 'ok': 0, 'stats': {}, 'samples': [], 'mm': [], 'mmcount': {}, 'table': None, 'lines': 0}


def _slice(args):
    """Worker: the cases whose line starts in [start, end) of the emitted file."""
    path, start, end = args
    out = _acc()
    parsers = _Parsers()
    with open(path, 'rb') as f:
        if start:
            f.seek(start - 1)
            f.readline()
        while f.tell() < end:
            pos = f.tell()
            line = f.readline()
            if not line:
                break
            line = line.strip()
            if not line:
                continue
            out['lines'] += 1
            v = json.loads(line)
            if isinstance(v, str):
                v = json.loads(v)
            if v['t'] == 'table':
                out['table'] = v['tab']
                continue
            _one(v, pos, parsers, None, out)
    return out


def _merge(run, out, stats, base):
    run.evaluations += out['n']
    run.validated += out['ok']
    run.nontrivial |= set(range(base, base + out['nt']))       # distinct by construction, see run.rule
    for k, v in out['stats'].items():
        stats[k] = stats.get(k, 0) + v
    for smp in out['samples']:
        if len(run.samples) < 4:
            run.samples.append(core.jnorm(smp))
    given = {}
    for clause, tag, small, want, got in out['mm']:
        run.mismatch(clause, tag, small, want, got)
        given[(clause, tag)] = given.get((clause, tag), 0) + 1
    for (clause, tag), cnt in out['mmcount'].items():
        for _ in range(cnt - given.get((clause, tag), 0)):
            run.mismatch(clause, tag, {}, None, None)
    return base + out['nt']


def _replay_grid(run, res, stats, base):
    """Exhaustive cases: replayed in parallel slices of the emitted file (the library's nested-expression
    parser rebuilds its dispatch table per block, ~0.3 ms: the replay, not TLC, is the slow part)."""
    size = os.path.getsize(res.out)
    k = max(1, min(core.NPROC, size // 200000))
    bounds = [size * i // k for i in range(k + 1)]
    jobs = [(res.out, bounds[i], bounds[i + 1]) for i in range(k)]
    if k == 1:
        outs = [_slice(jobs[0])]
    else:
        with multiprocessing.get_context('fork').Pool(k) as pool:
            outs = pool.map(_slice, jobs)
    total = 0
    with open(res.out, 'rb') as f:
        for line in f:
            total += 1 if line.strip() else 0
    if sum(o['lines'] for o in outs) != total:
        raise core.MachineryError('replay slices covered %d of %d emitted cases' % (sum(o['lines'] for o in outs), total))
    tab = next((o['table'] for o in outs if o['table']), None)
    if tab is None:
        raise core.MachineryError('the name table was not emitted')
    _check_names(run, tab)
    for o in outs:
        base = _merge(run, o, stats, base)
    return base


def _replay_sim(run, res, stats, base, seen):
    out = _acc()
    parsers = _Parsers()
    for n, case in enumerate(run.cases(res.out)):
        if case['t'] != 'table':
            _one(case, n * 4999 + 17, parsers, seen, out)
    return _merge(run, out, stats, base)


# ------------------------------------------------------------------------------------------------
# replay of a recorded mismatch (./check C12 --replay replays/C12/<file>.json)
# ------------------------------------------------------------------------------------------------
def _unj(want):
    """Expected value as stored in a replay file (tuples became lists) -> comparable form."""
    out = []
    for code, name, args, off in want:
        a2 = []
        for a in args:
            a2.append(('e', _unj(a[1]), a[2]) if a[0] == 'e' else tuple(a))
        out.append([code, name, a2, off])
    return out


def replay(run, path):
    import base64
    rec = json.load(open(path))
    parsers = _Parsers()
    for mm in [rec['first']] + rec.get('more', []):
        c = mm['case']
        if not c or 'ctx' not in c or 'file' in c or mm['clause'].startswith('names.'):
            print('not a byte-level case (name table / corpus trace): run ./check C12')
            continue
        data = bytes(c['bytes']) if isinstance(c['bytes'], list) else base64.b64decode(c['bytes'])
        want = _unj(mm['expected'])
        asz, osz, le = c['ctx'][:3]
        for ver in ([c['ctx'][3]] if len(c['ctx']) > 3 else (3, 4, 5)):
            got = _parse(parsers.get(asz, osz, le, ver), data)
            run.count('%r:%s:%d' % (c['ctx'], data.hex(), ver), nontrivial=bool(want))
            if isinstance(got, dict):
                run.mismatch('raises.' + got['exc'], _blame(parsers.get(asz, osz, le, ver), data, want), c, want, got)
            else:
                d = _diff(want, got)
                if d:
                    run.mismatch(d[0], d[1], c, want, got)
                else:
                    run.validated += 1
    return run.finish()


def check(run):
    quick = run.tier == 'quick'
    run.rule = ('G: one case per finished state of spec/Expr.tla = (address size, offset size, byte order, version given to '
                'the parser or none, bytes of an abstract expression); non-trivial = the expression has at least one operation; distinct by (context, bytes): '
                'exhaustive states are distinct (context, expression) pairs and Enc is injective (RoundTrip), simulated '
                'cases are deduplicated. '
                'T: one case per distinct (context, bytes) location expression recorded from corpus DIEs; non-trivial = '
                'non-empty and inside the spec table. Name-table rows count as one case each.')
    run.assumptions += [
        'DW_OP_call_ref / DW_OP_implicit_pointer / DW_OP_GNU_implicit_pointer are not asserted for version 2 with address size '
        '!= offset size (DWARF 2 does not define them; producers size the reference by the address there, DWARF 3+ by the '
        'format: Expr!Settled); asserted for versions 3-5 and for a parser that was given no version',
        'offsets of operations inside an entry-value block count from the start of that block',
        'LEB128 operands stay within 64 bits (<= 10 groups); block lengths < 2^28',
        'blocks are compared as sequences of ints whatever Python type carries them',
        'denote(): digit/group strings -> Python int is trusted']
    stats = {}
    # ---- G: exhaustive grid
    res = run.tlc('Expr', 'Expr_quick' if quick else 'Expr_thorough', timeout=3000)
    base = _replay_grid(run, res, stats, 0)
    if not quick:
        # second grid: operand classes and sequences in the 32 contexts the first one leaves out (it sweeps one
        # version per sizes/order); the two grids have disjoint contexts, so their cases are distinct
        res = run.tlc('Expr', 'Expr_versions', timeout=3000)
        base = _replay_grid(run, res, stats, base)
    # ---- G: long random expressions (seeded by VERIF_SEED)
    res = run.tlc('Expr', 'Expr_sim' if quick else 'Expr_simlong', simulate=(40 if quick else 400),
                  depth=(900 if quick else 2500), workers=1, timeout=3000)
    before = run.evaluations
    _replay_sim(run, res, stats, base, set())
    run.extra['simulated_cases'] = run.evaluations - before
    # ---- T: corpus location expressions against the spec's decoder
    _trace(run, stats, quick)
    run.extra['cases_by_kind'] = {k: v for k, v in stats.items() if k != 'table'}
    run.extra['exhaustive'] = False
    if not run.samples:
        run.samples.append({'note': 'no sampled case'})


# ------------------------------------------------------------------------------------------------
# T: record (bytes, parsed ops) from corpus DIEs, validate with spec/trace/ExprTrace.tla
# ------------------------------------------------------------------------------------------------
CORPUS_QUICK = ['dwarf_gnuops1.o', 'arm_with_form_indirect.elf', 'simple_clang.elf.riscv', 'debug_info.elf',
                'dwarf_llpair.elf', 'simple_gcc.elf.mips', 'simple_mipsel.elf', 'dwarfv5_basic.elf', 'lambda.elf',
                'sample_exe64.elf']
CORPUS_MORE = ['dwarf_debug_types.elf', 'arm_exidx_test.elf', 'arm_exidx_test.o', 'note_tc3xxx_blinky.elf', 'dwarf_phantombytes.elf',
               'debuglink.debug', 'aranges_partial.elf', 'compressed_32.o', 'compressed_64.o', 'dwarf_v5_forms.debug',
               'dwarf_lineprog_data16.elf', 'gmtime_r.o.elf', 'pascalenum.o', 'test_debugsup1.debug',
               'test_gnudebugaltlink1.debug']


def _val16(v):
    """An int as 16 little-endian two's complement digits (the one number format of the trace)."""
    return list((v & ((1 << 128) - 1)).to_bytes(16, 'little'))


def _trace_ops(ops):
    out = []
    for o in ops:
        args = []
        for a in o.args:
            if isinstance(a, int) and not isinstance(a, bool):
                args.append({'k': 'i', 'v': _val16(a), 'e': []})
            elif len(a) == 0:
                args.append({'k': 'z', 'v': [], 'e': []})
            elif hasattr(a[0], 'op_name'):
                args.append({'k': 'e', 'v': [], 'e': _trace_ops(a)})
            else:
                args.append({'k': 'b', 'v': list(a), 'e': []})
        out.append({'c': o.op, 'n': o.op_name, 'a': args, 'o': o.offset})
    return out


def _record(path, limit):
    """(ctx, bytes, parsed, where) for every expression of every DIE of one file: exprloc / (DWARF 2-3) block
    attributes of location class, and the expressions of the location lists such attributes point to."""
    from elftools.elf.elffile import ELFFile
    from elftools.dwarf.dwarf_expr import DWARFExprParser
    from elftools.dwarf.locationlists import LocationParser
    out = []
    skipped = 0
    with open(path, 'rb') as f:
        ef = ELFFile(f)
        if not ef.has_dwarf_info():
            return out, skipped
        dw = ef.get_dwarf_info()
        ll = dw.location_lists()
        lp = LocationParser(ll) if ll is not None else None
        for cu in dw.iter_CUs():
            st = cu.structs
            ver = cu['version']
            parser = DWARFExprParser(st)
            ctx = [st.address_size, 4 if st.dwarf_format == 32 else 8, 1 if st.little_endian else 0, int(ver)]

            def add(data, where):
                try:
                    parsed = {'ok': True, 'ops': _trace_ops(parser.parse_expr(list(data)))}
                except Exception as ex:
                    parsed = {'ok': False, 'exc': type(ex).__name__}
                out.append((ctx, bytes(data), parsed, where))

            for die in cu.iter_DIEs():
                for at in die.attributes.values():
                    if at.form == 'DW_FORM_exprloc' or (at.form.startswith('DW_FORM_block') and
                                                        LocationParser.attribute_has_location(at, ver)):
                        add(at.value, 'attr')
                    elif lp is not None and LocationParser.attribute_has_location(at, ver):
                        try:
                            lst = lp.parse_from_attribute(at, ver, die)
                        except Exception:      # walking location lists is C07's business
                            skipped += 1
                            continue
                        if isinstance(lst, list):
                            for ent in lst:
                                ex = getattr(ent, 'loc_expr', None)
                                if ex is not None:
                                    add(ex, 'loclist')
                    if len(out) >= limit:
                        return out, skipped
    return out, skipped


def _trace(run, stats, quick):
    tdir = os.path.join(core.REPO, 'test', 'testfiles_for_unittests')
    files = CORPUS_QUICK if quick else CORPUS_QUICK + CORPUS_MORE
    events = []
    meta = []
    seen = set()
    used = []
    for fn in files:
        p = os.path.join(tdir, fn)
        if not os.path.exists(p):
            continue
        try:
            recs, skipped = _record(p, 200000)
            if skipped:
                run.notes.append('T: %s: %d location lists not walked (exception)' % (fn, skipped))
        except Exception as ex:         # a corpus file the library cannot walk is another property's business
            run.notes.append('T: %s not recorded (%s)' % (fn, type(ex).__name__))
            continue
        n0 = len(events)
        for ctx, data, parsed, where in recs:
            stats['trace_' + where] = stats.get('trace_' + where, 0) + 1
            key = (tuple(ctx), data)
            if key in seen:
                continue
            seen.add(key)
            events.append({'tid': len(events) + 1, 'c': ctx, 'b': list(data), 'ok': parsed['ok'],
                           'ops': parsed.get('ops', [])})
            meta.append((fn, parsed.get('exc')))
        used.append('%s:%d' % (fn, len(events) - n0))
    if not events:
        raise core.MachineryError('T: no corpus expression recorded')
    trace = run.trace_file('exprs', events)
    res = run.tlc('ExprTrace', 'ExprTrace', env={'TRACE': trace}, workers=1, timeout=3000)
    verdicts = list(run.cases(res.out))
    if len(verdicts) != 1:
        raise core.MachineryError('ExprTrace wrote %d verdicts\n%s' % (len(verdicts), res.stdout[-2000:]))
    v = verdicts[0]
    if v['agree'] + v['outside'] + len(v['bad']) != len(events):
        raise core.MachineryError('trace not consumed: %r of %d' % (v, len(events)))
    for tid, why, at, names, offs in v['bad']:
        ev = events[tid - 1]
        fn, exc = meta[tid - 1]
        names, offs, data = list(names or []), list(offs or []), bytes(ev['b'])
        if why == 'raises':
            # blame the first top-level operation (boundaries from the spec) the parser cannot get past
            from elftools.dwarf.dwarf_expr import DWARFExprParser
            from elftools.dwarf.structs import DWARFStructs
            st = DWARFStructs(little_endian=bool(ev['c'][2]), dwarf_format=32 if ev['c'][1] == 4 else 64,
                              address_size=ev['c'][0], dwarf_version=ev['c'][3])
            at = len(names)
            for i in range(len(names)):
                end = offs[i + 1] if i + 1 < len(offs) else len(data)
                try:
                    DWARFExprParser(st).parse_expr(list(data[:end]))
                except Exception:
                    at = i + 1
                    break
        tag = names[at - 1] if 1 <= at <= len(names) else 'extra'
        clause = 'trace.' + (('raises.' + str(exc)) if why == 'raises' else 'differs')
        run.mismatch(clause, tag, {'file': fn, 'ctx': ev['c'], 'bytes': ev['b'][:80]},
                     'Canon(Dec(bytes)) of spec/trace/ExprTrace.tla', {'exc': exc} if exc else ev['ops'])
    for ev in events:
        run.count('t%d%d%d%d:%s' % (ev['c'][0], ev['c'][1], ev['c'][2], ev['c'][3], bytes(ev['b']).hex()), nontrivial=bool(ev['b']))
    run.validated += v['agree']
    stats['trace_agree'] = v['agree']
    stats['trace_outside_table'] = v['outside']
    run.extra['trace_files'] = used
