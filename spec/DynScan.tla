------------------------------ MODULE DynScan ------------------------------
(***************************************************************************)
(* C09 - the byte-level reader of the dynamic array, shared by Dynamic.tla  *)
(* (model) and trace/DynamicTrace.tla (trace validation).  No state, no ELF *)
(* container, no registry instance (the code -> names table is a parameter).*)
(*                                                                         *)
(* Transcribed from the System V gABI ch.5 "Dynamic Section":              *)
(*   typedef struct { Elf32_Sword d_tag; union { Elf32_Word d_val;          *)
(*                    Elf32_Addr d_ptr; } d_un; } Elf32_Dyn;                *)
(*   typedef struct { Elf64_Sxword d_tag; union { Elf64_Xword d_val;        *)
(*                    Elf64_Addr d_ptr; } d_un; } Elf64_Dyn;                *)
(*   "DT_NULL: an entry with a DT_NULL tag marks the end of the _DYNAMIC    *)
(*   array" - the array consists of the entries up to and including the     *)
(*   first DT_NULL; whatever follows inside PT_DYNAMIC / .dynamic is not    *)
(*   part of it.  d_ptr values are virtual addresses; ch.5 "Program Header":*)
(*   the file bytes of a PT_LOAD segment are [p_offset, p_offset+p_filesz), *)
(*   mapped at [p_vaddr, p_vaddr+p_filesz); the rest up to p_memsz holds no *)
(*   file bytes.  Tag values: figure 5-10 and the OS / processor ranges     *)
(*   DT_LOOS..DT_HIOS, DT_LOPROC..DT_HIPROC (names by OS ABI / e_machine).  *)
(***************************************************************************)
EXTENDS Bytes, TLC

DynEnt(cls) == 2 * (cls \div 8)

(* ------------------------------ digit strings -------------------------- *)
\* comparison of equal-length little-endian digit strings
RECURSIVE DLtFrom(_, _, _)
DLtFrom(a, b, i) == IF i = 0 THEN FALSE ELSE IF a[i] # b[i] THEN a[i] < b[i] ELSE DLtFrom(a, b, i - 1)
DLt(a, b) == DLtFrom(a, b, Len(a))
DLe(a, b) == ~DLt(b, a)
DIsZero(a) == \A i \in 1..Len(a) : a[i] = 0
\* the Small a digit string denotes, or -1 when it needs more than 24 bits
DSmall(a) == IF \A i \in 4..Len(a) : a[i] = 0 THEN NatOf(SubSeq(a, 1, Min({3, Len(a)}))) ELSE -1
\* significant digits (the registry writes codes without leading zero digits)
DSig(a) == LET nz == {i \in 1..Len(a) : a[i] # 0} IN IF nz = {} THEN <<0>> ELSE SubSeq(a, 1, Max(nz))

(* -------------------------------- entries ------------------------------ *)
\* w little-endian digits of the field at 0-based offset `off`
\* (TLCEval: an explicit tuple - a lazily evaluated function would re-read the bytes at every later use of a digit)
RdDigits(bs, off, w, le) == LET raw == [i \in 1..w |-> bs[off + i]] IN TLCEval(IF le THEN raw ELSE Rev(raw))
\* entry n of the array that starts at 0-based offset `base` of `bs`: <<d_tag digits, d_un digits>>
EntryAt(bs, base, n, cls, le) ==
  LET w == cls \div 8   o == base + n * DynEnt(cls) IN <<RdDigits(bs, o, w, le), RdDigits(bs, o + w, w, le)>>

(* ----------------------------- the scan machine ------------------------ *)
\* state: pc in {"scan", "done", "fault"}, n = index of the next entry, out = the entries read so far.
\* `size`: the extent of the table (sh_size / p_filesz); an array that is not terminated inside it is not well formed.
ScanStart == [pc |-> "scan", n |-> 0, out |-> <<>>]
ScanStep(bs, base, size, cls, le, st) ==
  IF st.pc # "scan" THEN st
  ELSE IF (st.n + 1) * DynEnt(cls) > size \/ base + (st.n + 1) * DynEnt(cls) > Len(bs) \/ base < 0 THEN [st EXCEPT !.pc = "fault"]
  ELSE LET e == EntryAt(bs, base, st.n, cls, le) IN
       [pc |-> IF DIsZero(e[1]) THEN "done" ELSE "scan", n |-> st.n + 1, out |-> Append(st.out, e)]
\* the machine's run in closed form (the state it stops in): the entries up to and including the first one whose d_tag
\* is zero; "fault" with the whole entries of the extent when none is.  (Dynamic.tla checks RunAgrees: the action-level
\* machine stops in exactly this state.)
TagIsZeroAt(bs, base, n, cls) == \A i \in 1..(cls \div 8) : bs[base + n * DynEnt(cls) + i] = 0
Scan(bs, base, size, cls, le) ==
  LET avail == IF base < 0 THEN 0 ELSE Min({size, Max({0, Len(bs) - base})}) \div DynEnt(cls)
      nulls == {n \in 0..(avail - 1) : TagIsZeroAt(bs, base, n, cls)}
      k == IF nulls = {} THEN avail ELSE Min(nulls) + 1 IN
  [pc |-> IF nulls = {} THEN "fault" ELSE "done", n |-> k, out |-> TLCEval([n \in 1..k |-> EntryAt(bs, base, n - 1, cls, le)])]

\* first entry bearing the tag code `c` (significant digits), 0 if none
FirstOf(out, c) == LET hits == {i \in 1..Len(out) : DSig(out[i][1]) = c} IN IF hits = {} THEN 0 ELSE Min(hits)

(* --------------------------- address translation ----------------------- *)
\* loads: the PT_LOAD entries in table order, each [va |-> digits (class width), fsz, msz, off (Smalls)].
\* The file offset of address `a` (digits): through the first PT_LOAD whose file-backed part contains it; -1 if none.
InLoad(g, a) == DLe(g.va, a) /\ LET d == DSmall(DSub(a, g.va)) IN d >= 0 /\ d < g.fsz
PtrToOffset(loads, a) ==
  LET hits == {j \in 1..Len(loads) : InLoad(loads[j], a)} IN
  IF hits = {} THEN -1 ELSE LET g == loads[Min(hits)] IN g.off + DSmall(DSub(a, g.va))

(* ---------------------------- relocation tables ------------------------ *)
\* gABI ch.4 "Relocation": Elf32_Rel {Addr r_offset; Word r_info}, Elf32_Rela {.. Sword r_addend}; Elf64_Rel {Addr r_offset;
\* Xword r_info}, Elf64_Rela {.. Sxword r_addend}; ELF32_R_SYM(i) = i >> 8, ELF32_R_TYPE(i) = (unsigned char) i;
\* ELF64_R_SYM(i) = i >> 32, ELF64_R_TYPE(i) = i & 0xffffffff.
\* ch.5 "Dynamic Section", figure 5-10: DT_RELA 7 (address) / DT_RELASZ 8 (total size) / DT_RELAENT 9; DT_REL 17 / DT_RELSZ 18 /
\* DT_RELENT 19; DT_JMPREL 23 (address of the relocation entries associated solely with the procedure linkage table) /
\* DT_PLTRELSZ 2 (their total size) / DT_PLTREL 20: "This member specifies the type of relocation entry to which the procedure
\* linkage table refers.  The d_val member holds DT_REL or DT_RELA, as appropriate.  All relocations in a procedure linkage
\* table must use the same relocation."  - the flavour of the DT_JMPREL table is DT_PLTREL's value and nothing else (which
\* other relocation tables the object has says nothing about it).
\* DT_RELR 36 / DT_RELRSZ 35 / DT_RELRENT 37 (gABI, "Relative relocation table"): entries are class-width words; an entry with
\* an even value is the address of a location that needs a relative relocation (bitmap entries - odd values - are C08's).
DtPltrelsz == <<2>>   DtRela == <<7>>   DtRelasz == <<8>>   DtRelaent == <<9>>   DtRel == <<17>>   DtRelsz == <<18>>   DtRelent == <<19>>
DtPltrel == <<20>>   DtJmprel == <<23>>   DtRelrsz == <<35>>   DtRelr == <<36>>   DtRelrent == <<37>>
RelEntSize(cls, rela) == (IF rela THEN 3 ELSE 2) * (cls \div 8)
RSym(info, cls) == IF cls = 32 THEN DSmall(SubSeq(info, 2, 4)) ELSE DSmall(SubSeq(info, 5, 8))       \* (symbol indices below 2^24)
RType(info, cls) == IF cls = 32 THEN info[1] ELSE DSmall(SubSeq(info, 1, 4))                        \* (type codes below 2^24)
\* entry n of the table at 0-based offset `base`: <<r_offset digits, r_info digits, symbol, type, r_addend digits (zero: REL)>>
RelEntryAt(bs, base, n, cls, le, rela) ==
  LET w == cls \div 8
      at == base + n * RelEntSize(cls, rela)
      info == RdDigits(bs, at + w, w, le)
  IN <<RdDigits(bs, at, w, le), info, RSym(info, cls), RType(info, cls), IF rela THEN RdDigits(bs, at + 2 * w, w, le) ELSE DZero(w)>>
\* the whole entries of a table of `size` bytes
RelTableAt(bs, base, size, cls, le, rela) ==
  IF base < 0 \/ size < 0 \/ base + size > Len(bs) THEN << <<-1>> >>
  ELSE TLCEval([j \in 1..(size \div RelEntSize(cls, rela)) |-> RelEntryAt(bs, base, j - 1, cls, le, rela)])
\* a RELR table of address entries only, in the same row shape: <<address, 0, 0, 0, 0>>
RelrTableAt(bs, base, size, cls, le) ==
  IF base < 0 \/ size < 0 \/ base + size > Len(bs) THEN << <<-1>> >>
  ELSE LET w == cls \div 8 IN
       TLCEval([j \in 1..(size \div w) |-> <<RdDigits(bs, base + (j - 1) * w, w, le), DZero(w), 0, 0, DZero(w)>>])

(* ------------------------------ tag names ------------------------------ *)
\* gABI figure 5-10 codes the reader machine itself needs
DtNull == <<0>>   DtNeeded == <<1>>   DtHash == <<4>>   DtStrtab == <<5>>   DtSymtab == <<6>>   DtStrsz == <<10>>   DtSyment == <<11>>
DtSoname == <<14>>   DtRpath == <<15>>   DtRunpath == <<29>>   DtGnuHash == <<245, 254, 255, 111>>          \* 0x6ffffef5
StringTags == {DtNeeded, DtSoname, DtRpath, DtRunpath}

\* processor-specific names (DT_LOPROC..DT_HIPROC) by e_machine: the registry family that applies
DtMachFam(machine) ==
  CASE machine \in {8, 10} -> "MIPS"              \* EM_MIPS, EM_MIPS_RS3_LE
    [] machine = 183 -> "AARCH64"
    [] machine = 20 -> "PPC"
    [] machine = 21 -> "PPC64"
    [] machine \in {2, 18, 43} -> "SPARC"         \* EM_SPARC, EM_SPARC32PLUS, EM_SPARCV9
    [] machine = 243 -> "RISCV"
    [] machine = 50 -> "IA_64"
    [] machine = 164 -> "HEX"
    [] machine = 113 -> "NIOS2"
    [] machine = 36902 -> "ALPHA"                 \* 0x9026
    [] OTHER -> "NONE"
\* Solaris names (DT_LOOS..DT_HIOS under ELFOSABI_SOLARIS = 6): Oracle Solaris Linker and Libraries Guide,
\* "Dynamic Section", table "ELF Dynamic Array Tags" (sys/link.h); all codes are 0x600000xx
OsabiSolaris == 6
SolarisDT == << <<13, {"DT_SUNW_AUXILIARY"}>>, <<14, {"DT_SUNW_RTLDINF"}>>, <<15, {"DT_SUNW_FILTER"}>>, <<16, {"DT_SUNW_CAP"}>>,
                <<17, {"DT_SUNW_SYMTAB"}>>, <<18, {"DT_SUNW_SYMSZ"}>>, <<19, {"DT_SUNW_ENCODING", "DT_SUNW_SORTENT"}>>,
                <<20, {"DT_SUNW_SYMSORT"}>>, <<21, {"DT_SUNW_SYMSORTSZ"}>>, <<22, {"DT_SUNW_TLSSORT"}>>, <<23, {"DT_SUNW_TLSSORTSZ"}>>,
                <<24, {"DT_SUNW_CAPINFO"}>>, <<25, {"DT_SUNW_STRPAD"}>>, <<26, {"DT_SUNW_CAPCHAIN"}>>, <<27, {"DT_SUNW_LDMACH"}>>,
                <<29, {"DT_SUNW_CAPCHAINENT"}>>, <<31, {"DT_SUNW_CAPCHAINSZ"}>> >>
SolarisNames(c) == IF Len(c) = 4 /\ c[2] = 0 /\ c[3] = 0 /\ c[4] = 96
                   THEN LET hits == {i \in 1..Len(SolarisDT) : SolarisDT[i][1] = c[1]} IN
                        IF hits = {} THEN {} ELSE SolarisDT[CHOOSE i \in hits : TRUE][2]
                   ELSE {}
AllSolarisNames == UNION {SolarisDT[i][2] : i \in 1..Len(SolarisDT)}

\* the registry families DtNamesOf consults (a module that instantiates the registry binds them once:
\* ByCode == TLCEval([k \in DtKeys |-> RegByCode[k]]) - the registry record itself is re-evaluated at every use)
DtKeys == {"DT_BASE", "DT_MIPS", "DT_AARCH64", "DT_PPC", "DT_PPC64", "DT_SPARC", "DT_RISCV", "DT_ALPHA", "DT_IA_64", "DT_HEX", "DT_NIOS2"}
PairLookup(pairs, c) == LET hits == {i \in 1..Len(pairs) : pairs[i][1] = c} IN
                        IF hits = {} THEN {} ELSE pairs[CHOOSE i \in hits : TRUE][2]
FamLookup(byCode, key, c) == IF key \in DOMAIN byCode THEN PairLookup(byCode[key], c) ELSE {}
\* the names a d_tag value (digits of the class width, two's complement) may be reported under: generic and
\* OS-extension names of the registry's base family, the e_machine family, and the Solaris family by OS ABI.
\* A negative d_tag (sign bit set) has no name.
DtNamesOf(byCode, machine, osabi, tag) ==
  IF DIsNeg(tag) THEN {}
  ELSE LET c == DSig(tag) IN
       FamLookup(byCode, "DT_BASE", c) \cup FamLookup(byCode, "DT_" \o DtMachFam(machine), c)
       \cup (IF osabi = OsabiSolaris THEN SolarisNames(c) ELSE {})
=============================================================================
