-------------------------------- MODULE Memo --------------------------------
(***************************************************************************)
(* C10, third part - memoised objects.  K objects of one opened file, each  *)
(* with a lazily computed, memoised answer that may share state with the    *)
(* others (decoded call-frame tables that start from their CIE's table,     *)
(* line programs behind one cache, name maps).  The specification of every   *)
(* query is history-free: Answer(k).  The machine enumerates EVERY order of *)
(* queries of length Depth (with repetitions), so that "decode B, then A,   *)
(* then look at B again" and all its variants are covered exhaustively.     *)
(* memo = the set of objects whose answer has been computed (what a lazily  *)
(* caching implementation remembers); the invariant says the answer a query *)
(* gives does not depend on it.                                             *)
(* The section bytes of the synthetic call-frame world are written here:    *)
(* a DWARF32 .debug_frame (DWARF 6.4.1, 7.24) with one CIE that defines NO   *)
(* initial rule (only DW_CFA_nop padding) shared by two FDEs that save      *)
(* different registers.                                                     *)
(***************************************************************************)
EXTENDS Integers, Sequences, TLC, Json, CSV, IOUtils

CONSTANTS K, Depth
VARIABLES hist, memo
vars == <<hist, memo>>

\* CIE: length 12 | CIE_id ffffffff | version 1 | augmentation "" | code_align 1 | data_align -4 | return register 8 | 3 x nop
CIE == <<12, 0, 0, 0, 255, 255, 255, 255, 1, 0, 1, 124, 8, 0, 0, 0>>
\* FDE: length 20 | CIE_pointer 0 | initial_location | address_range 16 | def_cfa r7+8 | advance_loc 4 | offset r<reg> 2 | 2 x nop
FDE(loc, reg) == <<20, 0, 0, 0, 0, 0, 0, 0, 0, loc, 0, 0, 16, 0, 0, 0, 12, 7, 8, 68, 128 + reg, 2, 0, 0>>
FrameSection == CIE \o FDE(16, 3) \o FDE(32, 5) \o FDE(48, 3)

Init == hist = <<>> /\ memo = {}
Query(k) == hist' = Append(hist, k) /\ memo' = memo \cup {k}
Next == Len(hist) < Depth /\ \E k \in 1..K : Query(k)
Spec == Init /\ [][Next]_vars

\* the answer to the last query is a function of the object alone, whatever has been memoised before
Answer(k) == k                     \* abstract: the declarative truth of object k (obtained from a fresh object by the driver)
HistoryFree == hist # <<>> => Answer(hist[Len(hist)]) = hist[Len(hist)]
MemoIsWhatWasAsked == memo = {hist[i] : i \in 1..Len(hist)}
Emit == (Len(hist) = Depth) => CSVWrite("%1$s", <<ToJson([hist |-> hist, frame |-> FrameSection])>>, IOEnv.OUT)
=============================================================================
