------------------------------- MODULE Notes -------------------------------
(***************************************************************************)
(* C14 - note sections and segments yield every note exactly once;         *)
(* descriptors of the known GNU / core-file note types decode to their     *)
(* encoded fields; stab records are enumerated exactly.                    *)
(*                                                                         *)
(* Transcribed from:                                                       *)
(*   System V gABI ch.5 "Note Section" (header of three words, name and    *)
(*     descriptor each padded to a 4-byte boundary, padding not counted in *)
(*     namesz/descsz; "if no name is present, namesz contains 0"), see     *)
(*     NoteWalk.tla for the arithmetic;                                    *)
(*   glibc elf.h / abi-tag.h (owner "GNU": NT_GNU_ABI_TAG 1, NT_GNU_HWCAP 2, *)
(*     NT_GNU_BUILD_ID 3, NT_GNU_GOLD_VERSION 4, NT_GNU_PROPERTY_TYPE_0 5; *)
(*     ABI tag = four words os, major, minor, subminor; ELF_NOTE_OS_* 0..3);*)
(*   Linux ABI draft ("linux-abi", H.J. Lu) ch. "Program Property":        *)
(*     pr_type word, pr_datasz word, pr_data, pr_padding to 8 bytes in     *)
(*     ELFCLASS64 and to 4 in ELFCLASS32; GNU_PROPERTY_STACK_SIZE 1 (one   *)
(*     native word), GNU_PROPERTY_NO_COPY_ON_PROTECTED 2 (no data); x86-64 *)
(*     psABI: GNU_PROPERTY_X86_FEATURE_1_AND 0xc0000002, _ISA_1_NEEDED     *)
(*     0xc0008002, _FEATURE_2_USED 0xc0010001, _ISA_1_USED 0xc0010002 (one *)
(*     4-byte word each); AArch64 ELF: GNU_PROPERTY_AARCH64_FEATURE_1_AND  *)
(*     0xc0000000 (one 4-byte word), GNU_PROPERTY_AARCH64_FEATURE_PAUTH    *)
(*     0xc0000001 (two 64-bit words: platform identifier, version);        *)
(*     x86-64 psABI GNU_PROPERTY_X86_FEATURE_2_NEEDED 0xc0008001 and       *)
(*     linux-abi GNU_PROPERTY_1_NEEDED 0xb0008000 (one 4-byte word each);  *)
(*     pr_type ranges: 0xc0000000..0xdfffffff processor specific,          *)
(*     0xe0000000..0xffffffff application specific; a property of a type   *)
(*     the reader does not know is pr_datasz bytes of data;                *)
(*   gABI ch.4 e_type: ET_NONE 0, ET_REL 1, ET_EXEC 2, ET_DYN 3, ET_CORE 4,*)
(*     ET_LOOS..ET_HIOS 0xfe00..0xfeff, ET_LOPROC..ET_HIPROC 0xff00..0xffff:*)
(*     only ET_CORE files are core files, every other e_type is "not core";*)
(*   Linux include/linux/elfcore.h + fs/binfmt_elf.c (owner "CORE" in      *)
(*     ET_CORE files: NT_PRSTATUS 1, NT_PRFPREG/NT_FPREGSET 2, NT_PRPSINFO *)
(*     3, NT_TASKSTRUCT/NT_PRXREG 4, NT_AUXV 6, NT_SIGINFO 0x53494749,     *)
(*     NT_FILE 0x46494c45; struct elf_prpsinfo; the NT_FILE layout         *)
(*     count, page_size, count x (start, end, file_ofs), count strings);   *)
(*   the stabs documentation (GDB "The stabs debug format", 'Overview'):   *)
(*     12-byte records n_strx, n_type, n_other, n_desc, n_value.           *)
(*                                                                         *)
(* (A) abstract extent = sequence of notes [name, desc, type] (+ `dec`,    *)
(*     the abstract descriptor the bytes were produced from) + a tail of   *)
(*     alignment padding shorter than one header;                          *)
(* (B) writer actions and Enc (EncNote / Extent), wrapped into an ELF image*)
(*     whose SHT_NOTE section and PT_NOTE segment designate the same bytes;*)
(* (C) the walker machine [off, end, pc]: ReadHdr / SkipName / SkipDesc /  *)
(*     Yield / Halt, run over the file bytes first for the section's extent*)
(*     and then for the segment's extent; the stab walker ReadStab;        *)
(* (D) the declarative view (NoteView) and the invariants that tie (C) to  *)
(*     (A): EveryNoteOnce, ExtentConsumed, SectionViewEqualsSegmentView,   *)
(*     NotesTile, DescRoundTrip, StabsExact, ImageCarriesExtent,           *)
(*     AlignOnlyInHeaders (mode "align", see below), the action            *)
(*     properties WalkerProgress (off' >= off + 12 per yielded note) and   *)
(*     WalkerVariant + the invariant NoStall (termination, safety form),   *)
(*     and Termination (liveness form under WF on the walker steps; cfg    *)
(*     Notes_live).  NoteWalkInd.tla restates the progress measure over    *)
(*     unbounded offsets and sizes as three obligations for Apalache.      *)
(*                                                                         *)
(* Not asserted (the standard does not fix it): the symbolic name of a type*)
(* code whose owner is not the one that defines the code (`fixed` = FALSE: *)
(* raw integer or any name some owner gives the code is acceptable); the   *)
(* decoded form (n_desc) of descriptors the specification has no layout    *)
(* for - except that a note no transcribed standard gives a meaning to     *)
(* (`opaque`: an owner other than the one that defines the type codes of   *)
(* this kind of file, or a code the owner "GNU" does not define) can only  *)
(* be handed out as its descriptor bytes: n_desc = the raw bytes; owner    *)
(* "FreeBSD" and unnamed codes of owner "CORE" in core files are left out  *)
(* of that (real layouts exist that are not transcribed here); how an      *)
(* absent name (namesz = 0) is rendered; the content of padding            *)
(* (generated as 0 and as 0xA5, never compared).  In ET_CORE files type 3  *)
(* and NT_FILE are generated with owner "CORE" only.                       *)
(* Dimensions added by the strengthening round: e_type (TypeETypes /       *)
(* DescETypes: the file kind is "core" iff e_type = ET_CORE, so every other*)
(* e_type must behave like ET_DYN), owner look-alikes x type codes (mode   *)
(* "types"), property types of the processor range with payloads of 4, 8   *)
(* and 16 bytes and property types newer than most readers' tables.        *)
(* Mode "align" (third round): the alignment the headers declare for the   *)
(* extent - p_align of the PT_NOTE entry and sh_addralign of the SHT_NOTE  *)
(* section over (8, 4), (8, 8), (4, 8), (0, 0), (1, 1), (16, 16) - x extents  *)
(* of one or two notes whose sizes tell 4-byte from 8-byte padding apart   *)
(* (header + name = 4 mod 8, descriptor = 4 mod 8, e.g. a 20-byte build id,*)
(* followed by a further note), the extent starting at a multiple of 16 in *)
(* the file.  The property fixes the 4-byte padding and "section view =    *)
(* segment view" for every extent: the walker is the same machine, and     *)
(* AlignOnlyInHeaders shows that the declared alignment changes nothing but*)
(* the two header fields.                                                  *)
(* Fourth round, two more dimensions.                                      *)
(* (1) Where a decoded descriptor lies in the file.  The linux-abi property*)
(* array is a sequence of elements pr_type, pr_datasz, pr_data, pr_padding *)
(* whose sizes are multiples of 8 (ELFCLASS64) / 4 (ELFCLASS32): the place *)
(* of the next property is the place of this one plus its padded size - a  *)
(* function of pr_datasz alone, whatever the file offset of the descriptor.*)
(* Linkers before the 8-byte .note.gnu.property alignment was settled (and *)
(* ld -r / objcopy merging note sections) leave ELFCLASS64 property notes  *)
(* behind other notes at offsets that are 4 mod 8.  A plain note in front  *)
(* (Leads, now also in the quick tier: sizes 20 and 36 - the build-id size -, *)
(* both 4 mod 8) moves the descriptor of the decoded note there; the rival *)
(* reading "every property starts at a file offset that is a multiple of the *)
(* alignment" (PropWalkAbs) is shown to differ on those cases (`propabs` in*)
(* the emitted case, counted by the driver), and PropsRelative states that *)
(* the walk relative to the descriptor recovers the abstract list at every *)
(* descriptor offset while both readings coincide on aligned descriptors.  *)
(* (2) Units of a stab section (GDB stabs, "Stab Section Basics"): the     *)
(* first stab of each compilation unit is synthetic: n_type N_UNDF (0),    *)
(* n_other 0, n_desc = the count of stabs that follow in this unit, n_value*)
(* = the size of the unit's string table fragment, n_strx = offset of the  *)
(* file name.  A section holds one unit per object file that went into the *)
(* link (ld -r, concatenated objects), so a header's count covers its own  *)
(* unit only and says nothing about where the section ends: "enumerated    *)
(* exactly" = every 12-byte record up to sh_size, headers included.  The   *)
(* writer opens units (AddUndf), the counts are derived (StabRecs), and    *)
(* UnitsTile states that the units tile the section from the first header on *)
(* while the reader (ReadStab) still yields Len(stabs) records.            *)
(* Fifth round: the name field.  gABI ch.5: "namesz, name: the first namesz*)
(* bytes in name contain a null-terminated character representation of the *)
(* entry's owner or originator".  The owner is therefore the string that   *)
(* ends at the FIRST null of the name field (OwnerStr), namesz is the size *)
(* of the field, and nothing says that the field holds one null only:      *)
(* producers exist whose namesz covers several (the Go toolchain's         *)
(* "Go\0\0" with namesz 4, owners filled up to 8 bytes inside namesz).  The*)
(* meaning of a note (which table names its type code, which layout its    *)
(* descriptor has) is a function of the owner STRING, not of the bytes of  *)
(* the field: DescKind / TypeFixed / StrictNames / Opaque go through       *)
(* OwnerStr.  Mode "owners": one note out of OwnedPool - owners "", "a",   *)
(* "ab", "GNU", "CORE", "FreeBSD", the look-alikes of "GNU" x type codes,  *)
(* and the decoded descriptors (ABI tag, build id, property lists; process *)
(* information and file map in ET_CORE) - whose name field carries 0..5    *)
(* further nulls inside namesz (ExtraNuls: every residue of namesz mod 4 for *)
(* every owner), alone or followed by a plain note whose name field is     *)
(* padded as well.  Sizes and offsets count from namesz as before (NoteSize*)
(* is untouched): OwnerUpToFirstNul states that the walker's owner is the  *)
(* prefix of the field before its first null, that only nulls follow it    *)
(* inside namesz (the writer's alphabet), that the rival reading "the owner*)
(* is the first namesz - 1 bytes" (NameSliced) differs exactly on the fields *)
(* with further nulls (`namealt` in the emitted case, counted by the       *)
(* driver), and that the meaning of the note is that of the canonical field*)
(* owner + one null.  Not generated: a null followed by non-null bytes     *)
(* inside namesz (namesz is to count the terminator of the name: such a    *)
(* field is not a well-formed input and no standard says what its owner is), *)
(* and a field without any null.                                           *)
(* Mode "multi": several note sections in one segment.  Link editors place *)
(* the SHT_NOTE sections of equal alignment next to one another and cover  *)
(* them with one PT_NOTE entry (.note.gnu.build-id + .note.ABI-tag): the   *)
(* "same bytes" of the property are then the bytes of two sections on one  *)
(* side and of one segment on the other.  The writer fills the first       *)
(* section (role "s1") and then the second ("s2"), either may stay empty;  *)
(* the walker runs over the first section, the second section and the      *)
(* segment (phases "sec", "sec2", "seg"); SectionsSplitSegment: each       *)
(* section yields its own notes and halts at its own end - which is where  *)
(* the next one begins, so that a further header would fit -, the segment  *)
(* yields the notes of both at the same offsets.                           *)
(* File maps (NT_FILE) also with 5 mappings (one file mapped twice) and the*)
(* units of file_ofs 1, 16 KiB and 64 KiB (NtFileMore).                    *)
(***************************************************************************)
EXTENDS Elf, NoteWalk, Json, CSV, IOUtils

CONSTANTS Modes,       \* subset of {"walk", "types", "desc", "stabs", "align", "owners", "multi"}
          WalkCf,      \* file configurations of the size sweep
          Sizes,       \* namesz / descsz of the last note of an extent
          FirstSizes,  \* namesz / descsz of the notes before the last one
          MaxNotes,    \* longest extent of the size sweep
          Tails,       \* trailing alignment padding (bytes) ...
          TailNotes,   \* ... explored for extents of at most this many notes
          DescPads,    \* padding byte values in "desc" mode
          MaxProps,    \* longest property list
          PropPool,    \* property kinds
          Leads, Follows,   \* <<namesz, descsz>> of plain notes before / after a decoded one
          MaxStabs,
          TypeETypes,  \* e_type values of mode "types"
          DescETypes,  \* e_type values of mode "desc" ...
          EtMaxProps   \* ... where e_types other than ET_DYN / ET_CORE get a single decoded note without neighbours
                       \*     and property lists of at most this length

VARIABLES Mode, cf, notes, props, stabs, phase, cs, ext, w, outs
vars == <<Mode, cf, notes, props, stabs, phase, cs, ext, w, outs>>

(* --------------------------- configurations ---------------------------- *)
ClsLe == {<<32, TRUE>>, <<32, FALSE>>, <<64, TRUE>>, <<64, FALSE>>}
\* et: e_type; core: the file kind (gABI: ET_CORE = 4 is the only core-file type)
\* palign / salign: p_align of the PT_NOTE entry / sh_addralign of the SHT_NOTE section; gap: bytes between the program
\* header table and the extent
CfE(cls, le, et, machine, pad) == [cls |-> cls, le |-> le, core |-> (et = 4), et |-> et, machine |-> machine, pad |-> pad,
                                   palign |-> 4, salign |-> 4, gap |-> 0]
Cf(cls, le, core, machine, pad) == CfE(cls, le, IF core THEN 4 ELSE 3, machine, pad)
ETypesAll == {0, 1, 2, 3, 4, 65025, 65280, 65535}      \* NONE REL EXEC DYN CORE LOOS+1 LOPROC HIPROC
ETypesQuick == {0, 1, 3, 4, 65025, 65535}
ETypesDescQuick == {0, 3, 4, 65280}
ETypesBase == {3, 4}
BaseEt(c) == c.et \in ETypesBase
\* EM_386 3, EM_MIPS 8, EM_PPC 20, EM_PPC64 21, EM_S390 22, EM_ARM 40, EM_X86_64 62, EM_AARCH64 183 (gABI e_machine)
DefMachine(cls, le) == IF cls = 64 THEN (IF le THEN 62 ELSE 21) ELSE IF le THEN 3 ELSE 8
WalkCfEight == {Cf(c[1], c[2], core, DefMachine(c[1], c[2]), IF core = c[2] THEN 0 ELSE 165) : c \in ClsLe, core \in BOOLEAN}
WalkCfQuick == {Cf(32, TRUE, FALSE, 3, 0), Cf(32, FALSE, TRUE, 8, 165), Cf(64, TRUE, TRUE, 62, 0), Cf(64, FALSE, FALSE, 21, 165)}
TypesCf == {CfE(c[1], c[2], et, DefMachine(c[1], c[2]), 0) : c \in ClsLe, et \in TypeETypes}
DescMachines(cls, le) == IF cls = 32 THEN (IF le THEN {3, 40, 8} ELSE {22, 20}) ELSE (IF le THEN {62, 183} ELSE {21, 22})   \* 22 in both classes: s390 (16-bit ids) vs s390x (32-bit ids)
DescCf == UNION {{CfE(c[1], c[2], et, m, pad) : m \in DescMachines(c[1], c[2]), et \in DescETypes, pad \in DescPads} : c \in ClsLe}
StabCf == {Cf(c[1], c[2], FALSE, DefMachine(c[1], c[2]), 0) : c \in ClsLe}
AllModes == {"walk", "types", "desc", "stabs"}
AllModesAlign == AllModes \cup {"align"}
AllModesOwners == AllModesAlign \cup {"owners"}
AllModesMulti == AllModesOwners \cup {"multi"}
OwnersOnly == {"owners", "multi"}
\* mode "owners": each class / byte order x ET_DYN / ET_CORE (the owner that defines the type codes differs), padding bytes as in mode "desc"
OwnersCf == {CfE(c[1], c[2], et, DefMachine(c[1], c[2]), pad) : c \in ClsLe, et \in ETypesBase, pad \in DescPads}
\* mode "align": <<p_align, sh_addralign>>; the gap puts the extent at a multiple of 16 (ELF32: 52 + 32 + 12, ELF64: 64 + 56 + 8)
AlignPairs == {<<8, 4>>, <<8, 8>>, <<4, 8>>, <<0, 0>>, <<1, 1>>, <<16, 16>>}
AlignCf == {[c EXCEPT !.palign = a[1], !.salign = a[2], !.gap = IF c.cls = 32 THEN 12 ELSE 8] : c \in WalkCf, a \in AlignPairs}
\* sizes of the first note (name x descriptor) and <<namesz, descsz>> of the note after it
AlignNames == {0, 1, 4, 5}
AlignDescs == {0, 3, 4, 8, 20}
AlignSeconds == {<<4, 4>>, <<0, 0>>, <<5, 1>>}
\* every name size of the sweep meets a descriptor size with which the 8-byte reading places the next note elsewhere
ASSUME \A ns \in AlignNames : \E ds \in AlignDescs : NoteSize8(ns, ds) # NoteSize(ns, ds)
Sizes8 == {0, 1, 2, 3, 4, 5, 8, 17}
Sizes4 == {0, 1, 4, 17}
Sizes4n == {0, 3, 5, 8}
Sizes3 == {0, 3, 5}
DescOnly == {"desc"}
WalkOnly == {"walk"}
AllProps == {"stack", "nocopy", "x86f1", "x86isan", "x86f2u", "x86isau", "a64f1", "unk0", "unk1", "unk5", "unk8", "unk12", "user",
             "a64pauth", "x86f2n", "needed1", "proc4", "proc8", "proc16"}
QuickProps == {"stack", "nocopy", "x86f1", "x86isan", "x86f2u", "x86isau", "a64f1", "unk0", "unk1", "unk5", "user",
               "a64pauth", "x86f2n", "proc4", "proc16"}
Props3 == {"stack", "nocopy", "x86f1", "x86f2u", "a64f1", "unk1", "unk5", "user", "a64pauth", "x86f2n", "proc4", "proc16"}
NoPairs == {}
Follow85 == {<<8, 5>>}
Follow00 == {<<0, 0>>, <<8, 5>>}
Lead31 == {<<3, 1>>}
\* what may follow a leading plain note in mode "desc": every decoded note (+ a following plain note), or - the quick tier, by
\* `LeadScope <- LeadScopeProps` in the cfg - property lists only, the descriptors whose elements carry padding of their own
LeadScopeAll == "all"
LeadScopeProps == "props"
LeadScope == LeadScopeAll
Lead420 == {<<4, 20>>}                    \* a note of 36 bytes: owner "GNU", a 20-byte descriptor (the build-id size)
Lead31b == {<<3, 1>>, <<4, 20>>}          \* notes of 20 and of 36 bytes
Tails0 == {0}
Tails048 == {0, 4, 8}
Tails04 == {0, 4}
Pads0 == {0}
Pads165 == {165}
PadsBoth == {0, 165}

(* ---------------------------- abstract notes --------------------------- *)
T4(a, b, c, d) == W(<<a, b, c, d>>)            \* a word by its little-endian digits
U(v, wd) == W(Digits(v, wd))                   \* canonical unsigned field value of width wd
OwnerGNU == <<71, 78, 85, 0>>                  \* "GNU\0"
OwnerCORE == <<67, 79, 82, 69, 0>>             \* "CORE\0"
OwnerFreeBSD == <<70, 114, 101, 101, 66, 83, 68, 0>>
Owner(ns) == CASE ns = 0 -> <<>>
               [] ns = 4 -> OwnerGNU
               [] ns = 5 -> OwnerCORE
               [] ns = 8 -> OwnerFreeBSD
               [] OTHER -> [i \in 1..ns |-> IF i = ns THEN 0 ELSE 96 + i]      \* "abc...\0"
\* owners of mode "types": ids below 100 are name sizes (Owner), the others look-alikes of "GNU" that no standard defines
OwnerGnuLower == <<103, 110, 117, 0>>          \* "gnu\0"
OwnerGNUX == <<71, 78, 85, 88, 0>>             \* "GNUX\0"
OwnerXGNU == <<88, 71, 78, 85, 0>>             \* "XGNU\0"
\* gABI ch.5: the first namesz bytes of the name field "contain a null-terminated character representation of the entry's owner":
\* the owner is the string that ends at the first null of the field (no field: no owner)
OwnerStr(field) == IF field = <<>> THEN <<>> ELSE CStrAt(field, 0).s
\* is the owner of the note with this name field the owner whose canonical field (string + one null) is `canon`?
OwnedBy(field, canon) == field # <<>> /\ OwnerStr(field) = OwnerStr(canon)
\* the field with k further nulls inside namesz
PadField(field, k) == field \o Rep(0, k)
\* the rival reading: the owner is whatever precedes the last byte of the field
NameSliced(field) == IF field = <<>> THEN <<>> ELSE SubSeq(field, 1, Len(field) - 1)
TOwner(o) == CASE o = 101 -> OwnerGnuLower [] o = 102 -> OwnerGNUX [] o = 103 -> OwnerXGNU [] OTHER -> Owner(o)
DescBytes(i, ds) == [j \in 1..ds |-> 128 + 16 * i + j]

NT_FILE == T4(69, 76, 73, 70)
NT_SIGINFO == T4(73, 71, 73, 83)
GnuTypes == << <<T4(1, 0, 0, 0), "NT_GNU_ABI_TAG">>, <<T4(2, 0, 0, 0), "NT_GNU_HWCAP">>, <<T4(3, 0, 0, 0), "NT_GNU_BUILD_ID">>,
               <<T4(4, 0, 0, 0), "NT_GNU_GOLD_VERSION">>, <<T4(5, 0, 0, 0), "NT_GNU_PROPERTY_TYPE_0">> >>
CoreTypes == << <<T4(1, 0, 0, 0), "NT_PRSTATUS">>, <<T4(2, 0, 0, 0), "NT_PRFPREG">>, <<T4(2, 0, 0, 0), "NT_FPREGSET">>,
                <<T4(3, 0, 0, 0), "NT_PRPSINFO">>, <<T4(4, 0, 0, 0), "NT_PRXREG">>, <<T4(4, 0, 0, 0), "NT_TASKSTRUCT">>,
                <<T4(6, 0, 0, 0), "NT_AUXV">>, <<NT_SIGINFO, "NT_SIGINFO">>, <<NT_FILE, "NT_FILE">> >>
AbiOsTab == << <<0, "ELF_NOTE_OS_LINUX">>, <<1, "ELF_NOTE_OS_GNU">>, <<2, "ELF_NOTE_OS_SOLARIS2">>, <<3, "ELF_NOTE_OS_FREEBSD">> >>
PropTab == << <<T4(1, 0, 0, 0), "GNU_PROPERTY_STACK_SIZE", "any">>, <<T4(2, 0, 0, 0), "GNU_PROPERTY_NO_COPY_ON_PROTECTED", "any">>,
              <<T4(2, 0, 0, 192), "GNU_PROPERTY_X86_FEATURE_1_AND", "x86">>, <<T4(2, 128, 0, 192), "GNU_PROPERTY_X86_ISA_1_NEEDED", "x86">>,
              <<T4(1, 0, 1, 192), "GNU_PROPERTY_X86_FEATURE_2_USED", "x86">>, <<T4(2, 0, 1, 192), "GNU_PROPERTY_X86_ISA_1_USED", "x86">>,
              <<T4(0, 0, 0, 192), "GNU_PROPERTY_AARCH64_FEATURE_1_AND", "aarch64">>,
              <<T4(1, 0, 0, 192), "GNU_PROPERTY_AARCH64_FEATURE_PAUTH", "aarch64">>,
              <<T4(1, 128, 0, 192), "GNU_PROPERTY_X86_FEATURE_2_NEEDED", "x86">>,
              <<T4(0, 128, 0, 176), "GNU_PROPERTY_1_NEEDED", "any">> >>
NamesIn(tab, t) == {tab[i][2] : i \in {j \in 1..Len(tab) : tab[j][1] = t}}
MachClass(m) == IF m \in {3, 62} THEN "x86" ELSE IF m = 183 THEN "aarch64" ELSE "other"
PropNames(t, m) == {PropTab[i][2] : i \in {j \in 1..Len(PropTab) : PropTab[j][1] = t /\ PropTab[j][3] \in {"any", MachClass(m)}}}

\* the owner that defines the meaning of the type codes in this kind of file
TypeFixed(name, core) == (OwnedBy(name, OwnerGNU) /\ ~core) \/ (OwnedBy(name, OwnerCORE) /\ core)
StrictNames(name, t, core) == IF OwnedBy(name, OwnerGNU) /\ ~core THEN NamesIn(GnuTypes, t)
                              ELSE IF OwnedBy(name, OwnerCORE) /\ core THEN NamesIn(CoreTypes, t) ELSE {}
AnyNames(t) == NamesIn(GnuTypes, t) \cup NamesIn(CoreTypes, t)
\* which descriptor layout the standards give a note
DescKind(name, t, core) ==
  IF OwnedBy(name, OwnerGNU) /\ ~core
  THEN CASE t = T4(1, 0, 0, 0) -> "abi" [] t = T4(3, 0, 0, 0) -> "buildid" [] t = T4(4, 0, 0, 0) -> "gold"
         [] t = T4(5, 0, 0, 0) -> "props" [] OTHER -> "raw"
  ELSE IF OwnedBy(name, OwnerCORE) /\ core
  THEN CASE t = T4(3, 0, 0, 0) -> "prpsinfo" [] t = NT_FILE -> "ntfile" [] OTHER -> "raw"
  ELSE "raw"
\* no transcribed standard gives the note a meaning: a reader can only hand out the descriptor bytes.  Left out: owner
\* "FreeBSD" and the unnamed codes of "CORE" in core files (real layouts exist that are not transcribed here)
Opaque(name, t, core) ==
  /\ DescKind(name, t, core) = "raw"
  /\ IF TypeFixed(name, core) THEN OwnedBy(name, OwnerGNU) /\ NamesIn(GnuTypes, t) = {} ELSE ~OwnedBy(name, OwnerFreeBSD)

\* dec = [k: layout, f: the abstract descriptor fields, nm: naming/representation hints for the view]
Note(name, desc, t, dec) == [name |-> name, desc |-> desc, type |-> t, dec |-> dec, role |-> "desc"]
RawDec == [k |-> "raw", f |-> <<>>, nm |-> <<>>]
PlainNote(name, desc, t, core) ==
  LET k == DescKind(name, t, core) IN
  [Note(name, desc, t, IF k \in {"buildid", "gold"} THEN [k |-> k, f |-> desc, nm |-> <<>>] ELSE RawDec) EXCEPT !.role = "plain"]

(* ------------------------- record layouts as data ---------------------- *)
\* <<field, width, kind>>: "u" unsigned integer in file byte order, "b" bytes, "pad" C struct padding
RECURSIVE OffL(_, _)
OffL(F, i) == IF i <= 1 THEN 0 ELSE F[i - 1][2] + OffL(F, i - 1)
SizeL(F) == OffL(F, Len(F) + 1)
IdxL(F, nm) == CHOOSE i \in 1..Len(F) : F[i][1] = nm
FieldsL(F) == {F[i][1] : i \in {j \in 1..Len(F) : F[j][3] # "pad"}}
SerL(F, rec, le) == Flat([i \in 1..Len(F) |-> CASE F[i][3] = "u" -> Fix(rec[F[i][1]], F[i][2], le)
                                                [] F[i][3] = "b" -> rec[F[i][1]]
                                                [] OTHER -> Rep(0, F[i][2])])
DeL(F, bs, le) == [nm \in FieldsL(F) |-> LET i == IdxL(F, nm)   sl == Slice(bs, OffL(F, i) + 1, F[i][2]) IN
                                         IF F[i][3] = "u" THEN W(IF le THEN sl ELSE Rev(sl)) ELSE sl]
CanonL(F, rec) == [nm \in FieldsL(F) |-> LET i == IdxL(F, nm) IN IF F[i][3] = "u" THEN U(rec[nm], F[i][2]) ELSE rec[nm]]

AbiF == << <<"abi_os", 4, "u">>, <<"abi_major", 4, "u">>, <<"abi_minor", 4, "u">>, <<"abi_tiny", 4, "u">> >>
\* struct elf_prpsinfo: `unsigned long pr_flag` is aligned to its size; __kernel_uid_t is 16 bits wide on the
\* old 32-bit ABIs (i386, arm, m68k, s390, sh, sparc, cris, frv, m32r, mn10300) and 32 bits wide elsewhere
UgidWidth(cls, m) == IF cls = 32 /\ m \in {3, 40, 4, 22, 42, 2, 76, 88, 89, 21569} THEN 2 ELSE 4
PrpsF(cls, m) ==
  << <<"pr_state", 1, "u">>, <<"pr_sname", 1, "b">>, <<"pr_zomb", 1, "u">>, <<"pr_nice", 1, "u">> >>
  \o (IF cls = 64 THEN << <<"pad0", 4, "pad">> >> ELSE <<>>)
  \o << <<"pr_flag", cls \div 8, "u">>, <<"pr_uid", UgidWidth(cls, m), "u">>, <<"pr_gid", UgidWidth(cls, m), "u">>,
        <<"pr_pid", 4, "u">>, <<"pr_ppid", 4, "u">>, <<"pr_pgrp", 4, "u">>, <<"pr_sid", 4, "u">>,
        <<"pr_fname", 16, "b">>, <<"pr_psargs", 80, "b">> >>
StabF == << <<"n_strx", 4, "u">>, <<"n_type", 1, "u">>, <<"n_other", 1, "u">>, <<"n_desc", 2, "u">>, <<"n_value", 4, "u">> >>
StabSize == SizeL(StabF)

(* ------------------------- descriptor catalogue ------------------------ *)
AbiOsCodes == {0, 1, 2, 3, 77}
AbiNote(os, c) ==
  LET rec == CanonL(AbiF, [abi_os |-> N(os), abi_major |-> N(2), abi_minor |-> N(6), abi_tiny |-> N(32 + os)]) IN
  Note(OwnerGNU, SerL(AbiF, rec, c.le), T4(1, 0, 0, 0),
       [k |-> "abi", f |-> rec, nm |-> {AbiOsTab[i][2] : i \in {j \in 1..Len(AbiOsTab) : AbiOsTab[j][1] = os}}])
BuildIdLens == {0, 1, 16, 20}
BuildIdNote(n) == LET d == [j \in 1..n |-> (37 * j) % 256] IN Note(OwnerGNU, d, T4(3, 0, 0, 0), [k |-> "buildid", f |-> d, nm |-> <<>>])
GoldNote == LET d == <<103, 111, 108, 100, 32, 49, 46, 49, 49>> IN                      \* "gold 1.11"
            Note(OwnerGNU, d, T4(4, 0, 0, 0), [k |-> "gold", f |-> d, nm |-> <<>>])

\* program properties
PropAlign(cls) == IF cls = 64 THEN 8 ELSE 4
PropKindsFor(m) == {"stack", "nocopy", "unk0", "unk1", "unk5", "unk8", "unk12", "user", "needed1", "proc4", "proc8", "proc16"}
                   \cup (IF MachClass(m) = "x86" THEN {"x86f1", "x86isan", "x86f2u", "x86isau", "x86f2n"} ELSE {})
                   \cup (IF MachClass(m) = "aarch64" THEN {"a64f1", "a64pauth"} ELSE {})
Prop(t, data, pk) == [ptype |-> t, data |-> data, pk |-> pk]
PropOf(kind, c) ==
  CASE kind = "stack" -> Prop(T4(1, 0, 0, 0), Fix(IF c.cls = 32 THEN W(<<0, 0, 32, 128>>) ELSE W(<<0, 0, 32, 0, 1, 0, 0, 128>>), c.cls \div 8, c.le), "int")
    [] kind = "nocopy" -> Prop(T4(2, 0, 0, 0), <<>>, "raw")
    [] kind = "x86f1" -> Prop(T4(2, 0, 0, 192), Fix(N(3), 4, c.le), "int")
    [] kind = "x86isan" -> Prop(T4(2, 128, 0, 192), Fix(N(15), 4, c.le), "int")
    [] kind = "x86f2u" -> Prop(T4(1, 0, 1, 192), Fix(W(<<255, 3, 0, 128>>), 4, c.le), "int")
    [] kind = "x86isau" -> Prop(T4(2, 0, 1, 192), Fix(N(1), 4, c.le), "int")
    [] kind = "a64f1" -> Prop(T4(0, 0, 0, 192), Fix(N(3), 4, c.le), "int")
    [] kind = "unk0" -> Prop(T4(69, 35, 1, 0), <<>>, "raw")
    [] kind = "unk1" -> Prop(T4(69, 35, 1, 0), <<201>>, "raw")
    [] kind = "unk5" -> Prop(T4(70, 35, 1, 0), <<211, 212, 213, 214, 215>>, "raw")
    [] kind = "unk8" -> Prop(T4(71, 35, 1, 0), <<221, 222, 223, 224, 225, 226, 227, 228>>, "raw")
    [] kind = "unk12" -> Prop(T4(72, 35, 1, 0), [j \in 1..12 |-> 230 + j], "raw")
    [] kind = "user" -> Prop(T4(1, 0, 0, 224), <<241, 242, 243, 244>>, "raw")
    \* two 64-bit words in file byte order (AArch64 ELF: PAuth ABI platform identifier, version)
    [] kind = "a64pauth" -> Prop(T4(1, 0, 0, 192), Fix(W(<<2, 0, 0, 0, 0, 0, 0, 16>>), 8, c.le) \o Fix(W(<<85, 0, 0, 0, 1, 0, 0, 128>>), 8, c.le), "u64x2")
    [] kind = "x86f2n" -> Prop(T4(1, 128, 0, 192), Fix(N(5), 4, c.le), "int")
    [] kind = "needed1" -> Prop(T4(0, 128, 0, 176), Fix(N(1), 4, c.le), "int")
    \* processor-specific types no psABI defines: whatever their size, pr_datasz bytes of data
    [] kind = "proc4" -> Prop(T4(4, 26, 254, 202), <<161, 162, 163, 164>>, "raw")
    [] kind = "proc8" -> Prop(T4(8, 26, 254, 202), [j \in 1..8 |-> 170 + j], "raw")
    [] kind = "proc16" -> Prop(T4(16, 26, 254, 223), [j \in 1..16 |-> 180 + j], "raw")
EncProp(p, c) == LET body == Fix(p.ptype, 4, c.le) \o Fix(N(Len(p.data)), 4, c.le) \o p.data IN
                 body \o Rep(c.pad, RoundUp(Len(body), PropAlign(c.cls)) - Len(body))
EncProps(ps, c) == Flat([i \in 1..Len(ps) |-> EncProp(ps[i], c)])
PropsNote(ps, c) ==
  Note(OwnerGNU, EncProps(ps, c), T4(5, 0, 0, 0),
       [k |-> "props", f |-> [i \in 1..Len(ps) |-> [ptype |-> ps[i].ptype.d, data |-> ps[i].data]],
        nm |-> [i \in 1..Len(ps) |-> [names |-> PropNames(ps[i].ptype, c.machine), pk |-> ps[i].pk,
                                       \* little-endian digits of the value (of each 8-byte word for "u64x2")
                                       val |-> CASE c.le \/ ps[i].pk = "raw" -> ps[i].data
                                                 [] ps[i].pk = "u64x2" -> Rev(SubSeq(ps[i].data, 1, 8)) \o Rev(SubSeq(ps[i].data, 9, 16))
                                                 [] OTHER -> Rev(ps[i].data)]]])

\* process information
Txt16 == [j \in 1..16 |-> 64 + j]
Txt80 == [j \in 1..80 |-> 33 + (j % 90)]
PadN(s, n) == s \o Rep(0, n - Len(s))
PrpsRec(v, c) ==
  CanonL(PrpsF(c.cls, c.machine),
    IF v = 1
    THEN [pr_state |-> N(0), pr_sname |-> <<82>>, pr_zomb |-> N(0), pr_nice |-> N(0), pr_flag |-> W(<<0, 6, 64, 0>>),
          pr_uid |-> N(1000), pr_gid |-> N(100), pr_pid |-> N(4321), pr_ppid |-> N(1), pr_pgrp |-> N(4321), pr_sid |-> N(4000),
          pr_fname |-> PadN(<<97, 46, 111, 117, 116>>, 16), pr_psargs |-> PadN(<<46, 47, 97, 46, 111, 117, 116, 32, 45, 120>>, 80)]
    ELSE [pr_state |-> N(3), pr_sname |-> <<90>>, pr_zomb |-> N(1), pr_nice |-> N(19),
          pr_flag |-> IF c.cls = 32 THEN W(<<1, 2, 3, 132>>) ELSE W(<<1, 2, 3, 4, 5, 6, 7, 136>>),
          pr_uid |-> N(65534), pr_gid |-> N(65533), pr_pid |-> W(<<255, 255, 255, 127>>), pr_ppid |-> W(<<254, 255, 255, 127>>),
          pr_pgrp |-> W(<<1, 0, 0, 64>>), pr_sid |-> W(<<2, 0, 0, 64>>), pr_fname |-> Txt16, pr_psargs |-> Txt80])
PrpsNote(v, c) == LET rec == PrpsRec(v, c) IN
  Note(OwnerCORE, SerL(PrpsF(c.cls, c.machine), rec, c.le), T4(3, 0, 0, 0), [k |-> "prpsinfo", f |-> rec, nm |-> <<>>])

\* file map
Addr(cls, i, e) == IF cls = 32 THEN W(<<0, 16 * (i + e), 4, 247>>) ELSE W(<<0, 16 * (i + e), 4, 247, 255, 127, 0, 128>>)
\* "/lib/x", "/y", then names of growing length; the fifth mapping is of the first file again
FileName(i) == CASE i \in {1, 5} -> <<47, 108, 105, 98, 47, 120>> [] i = 2 -> <<47, 121>> [] OTHER -> <<47>> \o [j \in 1..(i - 2) |-> 96 + i + j]
\* (fs/binfmt_elf.c fill_files_note: the second word is the unit of file_ofs: PAGE_SIZE of the dumping kernel - 4 KiB, 16 KiB, 64 KiB -
\* and 1 in kernels that count file_ofs in bytes)
NtFileRecP(n, pg, c) ==
  LET wz == c.cls \div 8 IN
  [count |-> U(N(n), wz), page_size |-> U(N(pg), wz),
   entries |-> [i \in 1..n |-> [vm_start |-> Addr(c.cls, i, 0), vm_end |-> Addr(c.cls, i, 1), page_offset |-> U(N(i - 1), wz)]],
   names |-> [i \in 1..n |-> FileName(i)]]
EncNtFile(r, c) ==
  LET wz == c.cls \div 8 IN
  Fix(r.count, wz, c.le) \o Fix(r.page_size, wz, c.le)
  \o Flat([i \in 1..Len(r.entries) |-> Fix(r.entries[i].vm_start, wz, c.le) \o Fix(r.entries[i].vm_end, wz, c.le)
                                        \o Fix(r.entries[i].page_offset, wz, c.le)])
  \o Flat([i \in 1..Len(r.names) |-> r.names[i] \o <<0>>])
NtFileNoteP(n, pg, c) == LET r == NtFileRecP(n, pg, c) IN Note(OwnerCORE, EncNtFile(r, c), NT_FILE, [k |-> "ntfile", f |-> r, nm |-> <<>>])
NtFileNote(n, c) == NtFileNoteP(n, 4096, c)
\* <<count, page size>> beyond the three lists of 0..2 mappings with 4 KiB pages
NtFileMore == {<<1, 1>>, <<2, 65536>>, <<5, 16384>>}

(* ------------------------------ encoding -------------------------------- *)
PadTo4(bs, pad) == bs \o Rep(pad, Pad4(Len(bs)) - Len(bs))
EncNote(n, c) == Fix(N(Len(n.name)), 4, c.le) \o Fix(N(Len(n.desc)), 4, c.le) \o Fix(n.type, 4, c.le)
                 \o PadTo4(n.name, c.pad) \o PadTo4(n.desc, c.pad)
EncNotes(ns, c) == Flat([i \in 1..Len(ns) |-> EncNote(ns[i], c)])
Extent(ns, c, tail) == EncNotes(ns, c) \o Rep(c.pad, tail)
EncStabs(ss, c) == Flat([i \in 1..Len(ss) |-> SerL(StabF, ss[i], c.le)])

\* the ELF container: one SHT_NOTE (7) section and one PT_NOTE (4) segment over the same file bytes
DotNoteX == <<46, 110, 111, 116, 101, 46, 120>>                      \* ".note.x"
DotStab == <<46, 115, 116, 97, 98>>                                  \* ".stab"
NoteIm(c, data) ==
  LET n == N(Len(data))
      im0 == [Im0 EXCEPT !.cls = c.cls, !.le = c.le, !.machine = c.machine, !.etype = N(c.et),
                         !.gap = c.gap,
                         !.secs = <<Sec(DotNoteX, N(7), N(2), N(4096), data, n, Z, Z, N(c.salign), Z)>>,
                         \* (Linux core dumps carry p_memsz = 0 in PT_NOTE: the file size alone delimits the notes)
                         !.segs = <<Seg(N(4), N(4), Z, N(4096), N(4096), n, IF c.core THEN Z ELSE n, N(c.palign))>>]
  IN [im0 EXCEPT !.segs[1].offset = N(SecOff(im0, 1))]
\* mode "multi": two adjacent SHT_NOTE sections and one PT_NOTE segment over the bytes of both
DotNoteY == <<46, 110, 111, 116, 101, 46, 121>>                      \* ".note.y"
NoteIm2(c, d1, d2) ==
  LET n == N(Len(d1) + Len(d2))
      im0 == [Im0 EXCEPT !.cls = c.cls, !.le = c.le, !.machine = c.machine, !.etype = N(c.et), !.gap = c.gap,
                         !.secs = <<Sec(DotNoteX, N(7), N(2), N(4096), d1, N(Len(d1)), Z, Z, N(c.salign), Z),
                                    Sec(DotNoteY, N(7), N(2), N(4096 + Len(d1)), d2, N(Len(d2)), Z, Z, N(c.salign), Z)>>,
                         !.segs = <<Seg(N(4), N(4), Z, N(4096), N(4096), n, IF c.core THEN Z ELSE n, N(c.palign))>>]
  IN [im0 EXCEPT !.segs[1].offset = N(SecOff(im0, 1))]
StabIm(c, data) ==
  [Im0 EXCEPT !.cls = c.cls, !.le = c.le, !.machine = c.machine, !.etype = N(1),
              !.secs = <<Sec(DotStab, N(1), Z, Z, data, N(Len(data)), Z, Z, N(4), N(StabSize))>>]

\* file bytes through the chunk list
ByteAt(chs, p) == LET hit == {i \in 1..Len(chs) : chs[i][1] <= p /\ p < chs[i][1] + Len(chs[i][2]) * chs[i][3]} IN
                  IF hit = {} THEN 0
                  ELSE LET ch == chs[CHOOSE i \in hit : TRUE] IN ch[2][((p - ch[1]) % Len(ch[2])) + 1]
Read(chs, p, n) == [i \in 1..n |-> ByteAt(chs, p + i - 1)]
Le4(bs, le) == NatOf(IF le THEN bs ELSE Rev(bs))

(* ------------------------------- writer --------------------------------- *)
NoCur == [off |-> 0, namesz |-> 0, descsz |-> 0, type |-> <<0, 0, 0, 0>>, name |-> <<>>, desc |-> <<>>]
W0 == [who |-> "none", off |-> 0, end |-> 0, pc |-> "halt", cur |-> NoCur]
Outs0 == [sec |-> <<>>, sec2 |-> <<>>, seg |-> <<>>, secoff |-> 0, sec2off |-> 0, segoff |-> 0]
Ext0 == [secstart |-> 0, secend |-> 0, sec2start |-> 0, sec2end |-> 0, segstart |-> 0, segend |-> 0, tail |-> 0]

CfOf(m) == CASE m = "walk" -> WalkCf [] m = "types" -> TypesCf [] m = "desc" -> DescCf [] m = "stabs" -> StabCf [] m = "align" -> AlignCf
            [] m = "owners" -> OwnersCf [] m = "multi" -> WalkCf
Init ==
  /\ Mode \in Modes
  /\ cf \in CfOf(Mode)
  /\ notes = <<>> /\ props = <<>> /\ stabs = <<>> /\ phase = "write" /\ cs = <<>> /\ ext = Ext0 /\ w = W0 /\ outs = Outs0

\* the size sweep pairs sizes with note types by rotation; the owner x type cross product is mode "types"
WalkTypesDyn == <<T4(2, 0, 0, 0), T4(3, 0, 0, 0), T4(4, 0, 0, 0), T4(0, 1, 0, 0), T4(126, 26, 254, 202)>>
WalkTypesCore == <<T4(1, 0, 0, 0), T4(2, 0, 0, 0), T4(6, 0, 0, 0), NT_SIGINFO, T4(52, 18, 0, 0)>>
PickType(i, ns, ds, core) == LET p == IF core THEN WalkTypesCore ELSE WalkTypesDyn IN p[((i + ns + 2 * ds) % Len(p)) + 1]
RawNote(i, ns, ds, c) == PlainNote(Owner(ns), DescBytes(i, ds), PickType(i, ns, ds, c.core), c.core)
Keep == UNCHANGED <<Mode, cf, phase, cs, ext, w, outs>>

AddRaw(ns, ds) ==
  /\ phase = "write" /\ Mode = "walk" /\ Len(notes) < MaxNotes
  /\ \A j \in 1..Len(notes) : Len(notes[j].name) \in FirstSizes /\ Len(notes[j].desc) \in FirstSizes
  /\ notes' = Append(notes, RawNote(Len(notes) + 1, ns, ds, cf))
  /\ UNCHANGED <<props, stabs>> /\ Keep

\* mode "align": one note out of AlignNames x AlignDescs, optionally followed by one out of AlignSeconds
AddAligned(ns, ds) ==
  /\ phase = "write" /\ Mode = "align" /\ Len(notes) < 2
  /\ IF notes = <<>> THEN ns \in AlignNames /\ ds \in AlignDescs ELSE <<ns, ds>> \in AlignSeconds
  /\ notes' = Append(notes, RawNote(Len(notes) + 1, ns, ds, cf))
  /\ UNCHANGED <<props, stabs>> /\ Keep

TypeSweep == {T4(0, 0, 0, 0), T4(1, 0, 0, 0), T4(2, 0, 0, 0), T4(3, 0, 0, 0), T4(4, 0, 0, 0), T4(5, 0, 0, 0), T4(6, 0, 0, 0), T4(7, 0, 0, 0),
              T4(0, 1, 0, 0), NT_SIGINFO, NT_FILE, T4(1, 0, 0, 128), T4(126, 26, 254, 202), T4(255, 255, 255, 255)}
OwnerSweep == {0, 1, 2, 4, 5, 8, 101, 102, 103}
AddTyped(ns, t) ==
  /\ phase = "write" /\ Mode = "types" /\ notes = <<>>
  /\ DescKind(TOwner(ns), t, cf.core) \in {"raw", "buildid", "gold"}
  /\ ~(cf.core /\ t \in {T4(3, 0, 0, 0), NT_FILE})              \* generated with owner "CORE" and a real descriptor only (mode "desc")
  /\ notes' = <<PlainNote(TOwner(ns), DescBytes(1, 5), t, cf.core)>>
  /\ UNCHANGED <<props, stabs>> /\ Keep

\* mode "desc": [plain note] decoded note [plain note]
OnlyLead == Len(notes) <= 1 /\ \A i \in 1..Len(notes) : notes[i].role = "lead"
DescOpen == phase = "write" /\ Mode = "desc" /\ props = <<>> /\ OnlyLead
Plain(i, sz, mark) == [RawNote(i, sz[1], sz[2], cf) EXCEPT !.role = mark]
AddLead(sz) == DescOpen /\ BaseEt(cf) /\ notes = <<>> /\ (LeadScope = "props" => ~cf.core)
               /\ notes' = <<Plain(1, sz, "lead")>> /\ UNCHANGED <<props, stabs>> /\ Keep
AddDescNote(n) == DescOpen /\ (LeadScope = "props" => notes = <<>>) /\ notes' = Append(notes, n) /\ UNCHANGED <<props, stabs>> /\ Keep
AddAbi(os) == ~cf.core /\ AddDescNote(AbiNote(os, cf))
AddBuildId(n) == ~cf.core /\ AddDescNote(BuildIdNote(n))
AddGold == ~cf.core /\ AddDescNote(GoldNote)
AddPrps(v) == cf.core /\ AddDescNote(PrpsNote(v, cf))
AddNtFile(n) == cf.core /\ AddDescNote(NtFileNote(n, cf))
AddNtFileP(np) == cf.core /\ BaseEt(cf) /\ AddDescNote(NtFileNoteP(np[1], np[2], cf))
AddProp(kind) ==
  /\ phase = "write" /\ Mode = "desc" /\ ~cf.core /\ Len(props) < (IF BaseEt(cf) THEN MaxProps ELSE Min({MaxProps, EtMaxProps}))
  /\ OnlyLead
  /\ kind \in PropPool \cap PropKindsFor(cf.machine)
  /\ props' = Append(props, PropOf(kind, cf))
  /\ UNCHANGED <<notes, stabs>> /\ Keep
CloseProps ==
  /\ phase = "write" /\ props # <<>>
  /\ notes' = Append(notes, PropsNote(props, cf)) /\ props' = <<>>
  /\ UNCHANGED stabs /\ Keep
DescDone == Len(notes) > 0 /\ notes[Len(notes)].role # "lead"
AddFollow(sz) ==
  /\ phase = "write" /\ Mode = "desc" /\ BaseEt(cf) /\ props = <<>> /\ DescDone /\ notes[Len(notes)].role # "follow"
  /\ (LeadScope = "props" => notes[1].role # "lead")
  /\ notes' = Append(notes, Plain(Len(notes) + 1, sz, "follow"))
  /\ UNCHANGED <<props, stabs>> /\ Keep

\* mode "owners": [a note of OwnedPool whose name field carries k further nulls] [a plain note, its field padded as well]
ExtraNuls == 0..5
FollowNuls == {3}                       \* owner "ab", namesz 3 + 3 = 6
FollowNulsAll == {0, 3}
OwnedOwners == {1, 2, 3, 4, 5, 8, 101, 102, 103}       \* "", "a", "ab", "GNU", "CORE", "FreeBSD", "gnu", "GNUX", "XGNU"
OwnedTypesQuick == {T4(3, 0, 0, 0), T4(4, 0, 0, 0), T4(0, 1, 0, 0)}
OwnedTypesThorough == {T4(0, 0, 0, 0), T4(2, 0, 0, 0), T4(3, 0, 0, 0), T4(4, 0, 0, 0), T4(6, 0, 0, 0), T4(0, 1, 0, 0), NT_SIGINFO,
                       T4(255, 255, 255, 255)}
OwnedTypes == OwnedTypesQuick           \* (the thorough tier: `OwnedTypes <- OwnedTypesThorough`)
OwnedPlain(c) == {PlainNote(TOwner(o), DescBytes(1, 5), t, c.core) :
                    o \in OwnedOwners, t \in {u \in OwnedTypes : ~(c.core /\ u \in {T4(3, 0, 0, 0), NT_FILE})}}
OwnedDecoded(c) == IF c.core THEN {PrpsNote(1, c), NtFileNote(0, c), NtFileNote(2, c)}
                   ELSE {AbiNote(0, c), AbiNote(77, c), BuildIdNote(20), GoldNote,
                         PropsNote(<<PropOf("stack", c)>>, c), PropsNote(<<PropOf("unk1", c), PropOf("nocopy", c), PropOf("user", c)>>, c)}
OwnedPool(c) == {n \in OwnedPlain(c) : n.dec.k = DescKind(n.name, n.type, c.core)} \cup OwnedDecoded(c)
PadName(n, k) == [n EXCEPT !.name = PadField(@, k)]
AddOwned(n, k) ==
  /\ phase = "write" /\ Mode = "owners" /\ notes = <<>>
  /\ notes' = <<PadName(n, k)>>
  /\ UNCHANGED <<props, stabs>> /\ Keep
AddOwnedFollow(k) ==
  /\ phase = "write" /\ Mode = "owners" /\ Len(notes) = 1
  /\ notes' = Append(notes, PadName(Plain(2, <<3, 1>>, "follow"), k))
  /\ UNCHANGED <<props, stabs>> /\ Keep

\* mode "multi": the notes of the first section (role "s1"), then those of the second (role "s2")
MultiNames == {0, 4, 5}                 \* no owner, "GNU", "CORE"
MultiDescs == {0, 3, 5}
MultiMaxQuick == 2
MultiMax == MultiMaxQuick               \* (the thorough tier: `MultiMax <- MultiMaxThorough`)
MultiMaxThorough == 3
InFirst(n) == n.role = "s1"
SplitAt == Cardinality({i \in 1..Len(notes) : InFirst(notes[i])})
AddMulti(ns, ds, r) ==
  /\ phase = "write" /\ Mode = "multi" /\ Len(notes) < MultiMax
  /\ (r = "s1" => \A i \in 1..Len(notes) : InFirst(notes[i]))
  /\ notes' = Append(notes, [RawNote(Len(notes) + 1, ns, ds, cf) EXCEPT !.role = r])
  /\ UNCHANGED <<props, stabs>> /\ Keep

StabVal(v) == CASE v = 1 -> [n_strx |-> N(1), n_type |-> N(100), n_other |-> N(0), n_desc |-> N(0), n_value |-> N(0)]
                [] v = 2 -> [n_strx |-> W(<<239, 190, 173, 222>>), n_type |-> N(36), n_other |-> N(255), n_desc |-> N(65535), n_value |-> W(<<0, 16, 0, 128>>)]
                [] v = 3 -> [n_strx |-> N(513), n_type |-> N(255), n_other |-> N(1), n_desc |-> N(4660), n_value |-> N(1)]
AddStab(v) ==
  /\ phase = "write" /\ Mode = "stabs" /\ Len(stabs) < MaxStabs
  /\ stabs' = Append(stabs, CanonL(StabF, StabVal(v)))
  /\ UNCHANGED <<notes, props>> /\ Keep
\* a compilation unit opens with a synthetic N_UNDF stab (GDB stabs, "Stab Section Basics"): n_strx = offset of the file name,
\* n_type = N_UNDF (0), n_other = 0, n_desc = count of the stabs that follow in this unit, n_value = size of the unit's fragment
\* of the string table.  The count is not known while the unit is open: the abstract record carries 0 and StabRecs fills it in.
N_UNDF == U(N(0), 1)
IsUndf(r) == r.n_type = N_UNDF
UndfVal(k) == [n_strx |-> N(1 + 7 * k), n_type |-> N(0), n_other |-> N(0), n_desc |-> N(0), n_value |-> N(19 + k)]
AddUndf ==
  /\ phase = "write" /\ Mode = "stabs" /\ Len(stabs) < MaxStabs
  /\ stabs' = Append(stabs, CanonL(StabF, UndfVal(Cardinality({i \in 1..Len(stabs) : IsUndf(stabs[i])}))))
  /\ UNCHANGED <<notes, props>> /\ Keep
\* the stabs of the unit that record i opens: up to the next header or the end of the section
RECURSIVE UnitLen(_, _)
UnitLen(ss, i) == IF i >= Len(ss) \/ IsUndf(ss[i + 1]) THEN 0 ELSE 1 + UnitLen(ss, i + 1)
StabRecs(ss) == [i \in 1..Len(ss) |-> IF IsUndf(ss[i]) THEN [ss[i] EXCEPT !.n_desc = U(N(UnitLen(ss, i) % 65536), 2)] ELSE ss[i]]
UnitHeads(ss) == {i \in 1..Len(ss) : IsUndf(ss[i])}

StartW(who, from, to) == [who |-> who, off |-> from, end |-> to, pc |-> "hdr", cur |-> NoCur]
Finish(tail) ==
  /\ phase = "write" /\ Mode \notin {"stabs", "multi"} /\ props = <<>>
  /\ (Mode = "types" => Len(notes) = 1) /\ (Mode = "desc" => DescDone)
  /\ (Mode \in {"align", "owners"} => notes # <<>>)
  /\ tail \in Tails /\ tail < NhdrSize /\ (tail # 0 => Mode \in {"walk", "align"} /\ Len(notes) <= TailNotes)
  \* (mode "align": the only trailing padding is the one that fills the extent up to 8 bytes)
  /\ (tail # 0 /\ Mode = "align" => tail = 4 /\ (Len(EncNotes(notes, cf)) % 8) = 4)
  /\ LET data == Extent(notes, cf, tail)
         im == NoteIm(cf, data)
         so == SecOff(im, 1)
         g == im.segs[1]
     IN /\ cs' = Chunks(im)
        /\ ext' = [Ext0 EXCEPT !.secstart = so, !.secend = so + im.secs[1].size.n, !.segstart = g.offset.n, !.segend = g.offset.n + g.filesz.n,
                                !.tail = tail]
        /\ w' = StartW("sec", so, so + im.secs[1].size.n)
  /\ phase' = "sec"
  /\ UNCHANGED <<Mode, cf, notes, props, stabs, outs>>
FinishMulti ==
  /\ phase = "write" /\ Mode = "multi"
  /\ LET k == SplitAt
         im == NoteIm2(cf, EncNotes(SubSeq(notes, 1, k), cf), EncNotes(SubSeq(notes, k + 1, Len(notes)), cf))
         s1 == SecOff(im, 1)   s2 == SecOff(im, 2)
         g == im.segs[1]
     IN /\ cs' = Chunks(im)
        /\ ext' = [Ext0 EXCEPT !.secstart = s1, !.secend = s1 + im.secs[1].size.n, !.sec2start = s2, !.sec2end = s2 + im.secs[2].size.n,
                                !.segstart = g.offset.n, !.segend = g.offset.n + g.filesz.n]
        /\ w' = StartW("sec", s1, s1 + im.secs[1].size.n)
  /\ phase' = "sec"
  /\ UNCHANGED <<Mode, cf, notes, props, stabs, outs>>
FinishStabs ==
  /\ phase = "write" /\ Mode = "stabs"
  /\ LET data == EncStabs(StabRecs(stabs), cf)
         im == StabIm(cf, data)
         so == SecOff(im, 1)
     IN /\ cs' = Chunks(im)
        /\ ext' = [Ext0 EXCEPT !.secstart = so, !.secend = so + Len(data)]
        /\ w' = StartW("stab", so, so + Len(data))
  /\ phase' = "stab"
  /\ UNCHANGED <<Mode, cf, notes, props, stabs, outs>>

(* ---------------------------- the walker -------------------------------- *)
\* (gABI ch.5: entries follow one another; each is a header, the name padded to 4, the descriptor padded to 4)
Walking == phase \in {"sec", "sec2", "seg"}
KeepW == UNCHANGED <<Mode, cf, notes, props, stabs, cs, ext>>
ReadHdr ==
  /\ Walking /\ w.pc = "hdr" /\ HdrFits(w.off, w.end)
  /\ LET h == Read(cs, w.off, NhdrSize) IN
     w' = [w EXCEPT !.pc = "name", !.off = w.off + NhdrSize,
                    !.cur = [off |-> w.off, namesz |-> Le4(Slice(h, 1, 4), cf.le), descsz |-> Le4(Slice(h, 5, 4), cf.le),
                             type |-> FixDec(Slice(h, 9, 4), cf.le, FALSE).d, name |-> <<>>, desc |-> <<>>]]
  /\ UNCHANGED <<phase, outs>> /\ KeepW
SkipName ==
  /\ Walking /\ w.pc = "name"
  /\ w' = [w EXCEPT !.pc = "desc", !.off = w.off + Pad4(w.cur.namesz), !.cur.name = Read(cs, w.off, w.cur.namesz)]
  /\ UNCHANGED <<phase, outs>> /\ KeepW
SkipDesc ==
  /\ Walking /\ w.pc = "desc"
  /\ w' = [w EXCEPT !.pc = "yield", !.off = w.off + Pad4(w.cur.descsz), !.cur.desc = Read(cs, w.off, w.cur.descsz)]
  /\ UNCHANGED <<phase, outs>> /\ KeepW
NameOf(bytes) == OwnerStr(bytes)
Yielded(c, off) == [off |-> c.off, size |-> off - c.off, namesz |-> c.namesz, descsz |-> c.descsz, type |-> c.type,
                    hasname |-> c.namesz # 0, name |-> NameOf(c.name), desc |-> c.desc]
Yield ==
  /\ Walking /\ w.pc = "yield"
  /\ outs' = [outs EXCEPT ![w.who] = Append(@, Yielded(w.cur, w.off))]
  /\ w' = [w EXCEPT !.pc = "hdr"]
  /\ UNCHANGED phase /\ KeepW
Halt ==
  /\ Walking /\ w.pc = "hdr" /\ ~HdrFits(w.off, w.end)
  /\ IF phase = "sec" /\ Mode = "multi"
     THEN phase' = "sec2" /\ w' = StartW("sec2", ext.sec2start, ext.sec2end) /\ outs' = [outs EXCEPT !.secoff = w.off]
     ELSE IF phase = "sec2"
     THEN phase' = "seg" /\ w' = StartW("seg", ext.segstart, ext.segend) /\ outs' = [outs EXCEPT !.sec2off = w.off]
     ELSE IF phase = "sec"
     THEN phase' = "seg" /\ w' = StartW("seg", ext.segstart, ext.segend) /\ outs' = [outs EXCEPT !.secoff = w.off]
     ELSE phase' = "done" /\ w' = [w EXCEPT !.pc = "halt"] /\ outs' = [outs EXCEPT !.segoff = w.off]
  /\ KeepW

\* stabs: fixed-size records up to the section end
ReadStab ==
  /\ phase = "stab" /\ w.off + StabSize <= w.end
  /\ outs' = [outs EXCEPT !.sec = Append(@, [off |-> w.off, f |-> DeL(StabF, Read(cs, w.off, StabSize), cf.le)])]
  /\ w' = [w EXCEPT !.off = w.off + StabSize]
  /\ UNCHANGED phase /\ KeepW
HaltStab ==
  /\ phase = "stab" /\ ~(w.off + StabSize <= w.end)
  /\ phase' = "done" /\ w' = [w EXCEPT !.pc = "halt"] /\ outs' = [outs EXCEPT !.secoff = w.off]
  /\ KeepW

WalkStep == ReadHdr \/ SkipName \/ SkipDesc \/ Yield \/ Halt \/ ReadStab \/ HaltStab
Next ==
  \/ \E ns \in Sizes, ds \in Sizes : AddRaw(ns, ds)
  \/ \E ns \in AlignNames \cup {4, 0, 5}, ds \in AlignDescs \cup {4, 0, 1} : AddAligned(ns, ds)
  \/ \E ns \in OwnerSweep, t \in TypeSweep : AddTyped(ns, t)
  \/ \E sz \in Leads : AddLead(sz)
  \/ \E os \in AbiOsCodes : AddAbi(os)
  \/ \E n \in BuildIdLens : AddBuildId(n)
  \/ AddGold
  \/ \E v \in {1, 2} : AddPrps(v)
  \/ \E n \in {0, 1, 2} : AddNtFile(n)
  \/ \E np \in NtFileMore : AddNtFileP(np)
  \/ \E k \in AllProps : AddProp(k)
  \/ CloseProps
  \/ \E sz \in Follows : AddFollow(sz)
  \/ (Mode = "owners" /\ \E n \in OwnedPool(cf), k \in ExtraNuls : AddOwned(n, k))
  \/ \E k \in FollowNuls : AddOwnedFollow(k)
  \/ \E ns \in MultiNames, ds \in MultiDescs, r \in {"s1", "s2"} : AddMulti(ns, ds, r)
  \/ FinishMulti
  \/ \E v \in {1, 2, 3} : AddStab(v)
  \/ AddUndf
  \/ \E t \in Tails : Finish(t)
  \/ FinishStabs
  \/ WalkStep
Spec == Init /\ [][Next]_vars /\ WF_vars(WalkStep)

(* -------------------------- declarative view ---------------------------- *)
RECURSIVE NoteOff(_, _, _)
NoteOff(ns, i, base) == IF i <= 1 THEN base ELSE NoteOff(ns, i - 1, base) + NoteSize(Len(ns[i - 1].name), Len(ns[i - 1].desc))
CoreView(n, off) == [off |-> off, size |-> NoteSize(Len(n.name), Len(n.desc)), namesz |-> Len(n.name), descsz |-> Len(n.desc),
                     type |-> n.type.d, hasname |-> n.name # <<>>, name |-> NameOf(n.name), desc |-> n.desc]
CoreViews(base) == [i \in 1..Len(notes) |-> CoreView(notes[i], NoteOff(notes, i, base))]
NoteView(n, off, c) ==
  [off |-> off, size |-> NoteSize(Len(n.name), Len(n.desc)), namesz |-> Len(n.name), descsz |-> Len(n.desc),
   type |-> n.type.d, hasname |-> n.name # <<>>, name |-> NameOf(n.name), desc |-> n.desc,
   fixed |-> TypeFixed(n.name, c.core), strict |-> StrictNames(n.name, n.type, c.core), anyn |-> AnyNames(n.type),
   opaque |-> Opaque(n.name, n.type, c.core),
   dk |-> n.dec.k, df |-> n.dec.f, dn |-> n.dec.nm]
NotesView(base) == [i \in 1..Len(notes) |-> NoteView(notes[i], NoteOff(notes, i, base), cf)]
StabView(base) == LET rs == StabRecs(stabs) IN [i \in 1..Len(stabs) |-> [off |-> base + StabSize * (i - 1), f |-> rs[i]]]

\* descriptor decoders (what a reader that knows the layouts recovers from the descriptor bytes)
RECURSIVE PropWalk(_, _, _, _)
PropWalk(bs, pos, cls, le) ==
  IF pos + 8 > Len(bs) THEN <<>>
  ELSE LET n == Le4(Slice(bs, pos + 5, 4), le) IN
       <<[ptype |-> FixDec(Slice(bs, pos + 1, 4), le, FALSE).d, data |-> Slice(bs, pos + 9, n)]>>
       \o PropWalk(bs, pos + RoundUp(8 + n, PropAlign(cls)), cls, le)
\* where property i of a list starts, counted from the start of the descriptor, when the descriptor lies at file offset b and
\* every property is taken to start at a FILE offset that is a multiple of A.  b = 0: the linux-abi reading (each element is
\* pr_type, pr_datasz, pr_data, pr_padding up to a multiple of A: the place of the next one depends on pr_datasz alone)
RECURSIVE PropPos(_, _, _, _)
PropPos(ps, i, A, b) == IF i <= 1 THEN 0 ELSE RoundUp(b + PropPos(ps, i - 1, A, b) + 8 + Len(ps[i - 1].data), A) - b
\* the file offset of the descriptor of a yielded note
DescOff(o) == o.off + NhdrSize + Pad4(o.namesz)
PropAbsDiffersAt(n, o) == n.dec.k = "props" /\ \E j \in 2..(Len(n.dec.f) + 1) :
                             PropPos(n.dec.f, j, PropAlign(cf.cls), DescOff(o)) # PropPos(n.dec.f, j, PropAlign(cf.cls), 0)
RECURSIVE CStrs(_, _, _)
CStrs(bs, pos, k) == IF k = 0 THEN <<>> ELSE LET s == CStrAt(bs, pos) IN <<s.s>> \o CStrs(bs, pos + s.used, k - 1)
DecNtFile(bs, c) ==
  LET wz == c.cls \div 8
      Fld(p) == W(IF c.le THEN Slice(bs, p + 1, wz) ELSE Rev(Slice(bs, p + 1, wz)))
      n == Le4(Slice(bs, IF c.le THEN 1 ELSE wz - 3, 4), c.le)
  IN [count |-> Fld(0), page_size |-> Fld(wz),
      entries |-> [i \in 1..n |-> [vm_start |-> Fld(wz * (3 * i - 1)), vm_end |-> Fld(wz * (3 * i)), page_offset |-> Fld(wz * (3 * i + 1))]],
      names |-> CStrs(bs, wz * (2 + 3 * n), n)]
DecodeDesc(k, bs, c) ==
  CASE k = "raw" -> <<>>
    [] k \in {"buildid", "gold"} -> bs
    [] k = "abi" -> DeL(AbiF, bs, c.le)
    [] k = "props" -> PropWalk(bs, 0, c.cls, c.le)
    [] k = "prpsinfo" -> DeL(PrpsF(c.cls, c.machine), bs, c.le)
    [] k = "ntfile" -> DecNtFile(bs, c)

(* ------------------------------ emission ------------------------------- *)
BareFinal == notes # <<>> /\ notes[Len(notes)].name = <<>> /\ notes[Len(notes)].desc = <<>> /\ ext.tail = 0
\* does the reading "properties start at aligned file offsets" walk some property list of this extent differently?
PropAbsDiffers == LET vs == CoreViews(ext.secstart) IN \E i \in 1..Len(notes) : PropAbsDiffersAt(notes[i], vs[i])
\* does the reading "the owner is the first namesz - 1 bytes of the field" name some note of this extent differently?
NameAltDiffers == \E i \in 1..Len(notes) : NameSliced(notes[i].name) # OwnerStr(notes[i].name)
StabUnits == Cardinality(UnitHeads(stabs))
\* ("stabs/units": some header's unit ends before the section does, i.e. a further header follows)
Tag == IF Mode = "stabs" THEN (IF StabUnits >= 2 THEN "stabs/units" ELSE "stabs")
       ELSE IF Mode = "desc" /\ PropAbsDiffers THEN "desc/props-off-alignment"
       ELSE IF Mode = "owners" THEN (IF NameAltDiffers THEN "owners/nulls-inside-namesz" ELSE "owners")
       ELSE IF Mode = "multi" THEN "multi/" \o ToString(SplitAt) \o "+" \o ToString(Len(notes) - SplitAt)
       ELSE IF Mode = "align" THEN "align/p_align=" \o ToString(cf.palign) \o "/sh_addralign=" \o ToString(cf.salign)
       ELSE IF BareFinal THEN "bare-final" ELSE Mode
\* does the 8-byte reading walk this extent differently (another place for some note, or for the end)?
RECURSIVE Sum8(_, _)
Sum8(ns, i) == IF i = 0 THEN 0 ELSE Sum8(ns, i - 1) + NoteSize8(Len(ns[i].name), Len(ns[i].desc))
Alt8Differs == \E i \in 1..Len(notes) : Sum8(notes, i) # NoteOff(notes, i + 1, 0)
Tables == [gnu |-> [i \in 1..Len(GnuTypes) |-> <<GnuTypes[i][1].d, GnuTypes[i][2]>>],
           core |-> [i \in 1..Len(CoreTypes) |-> <<CoreTypes[i][1].d, CoreTypes[i][2]>>],
           abi_os |-> [i \in 1..Len(AbiOsTab) |-> <<LEn(AbiOsTab[i][1], 4), AbiOsTab[i][2]>>],
           prop |-> [i \in 1..Len(PropTab) |-> <<PropTab[i][1].d, PropTab[i][2]>>]]
Case == IF Mode = "stabs"
        THEN [mode |-> Mode, tag |-> Tag, cls |-> cf.cls, le |-> cf.le, chunks |-> cs, sec |-> 1, stabs |-> StabView(ext.secstart),
              units |-> StabUnits]
        ELSE IF Mode = "multi"
        THEN [mode |-> Mode, tag |-> Tag, cls |-> cf.cls, le |-> cf.le, core |-> cf.core, etype |-> cf.et, machine |-> cf.machine, chunks |-> cs,
              sec |-> 1, sec2 |-> 2, seg |-> 0, ext |-> <<ext.secstart, ext.secend>>, ext2 |-> <<ext.sec2start, ext.sec2end>>,
              segext |-> <<ext.segstart, ext.segend>>, split |-> SplitAt, notes |-> NotesView(ext.secstart),
              palign |-> cf.palign, salign |-> cf.salign, alt8 |-> Alt8Differs, propabs |-> PropAbsDiffers, namealt |-> NameAltDiffers]
        ELSE [mode |-> Mode, tag |-> Tag, cls |-> cf.cls, le |-> cf.le, core |-> cf.core, etype |-> cf.et, machine |-> cf.machine, chunks |-> cs,
              sec |-> 1, seg |-> 0, ext |-> <<ext.secstart, ext.secend>>, notes |-> NotesView(ext.secstart),
              palign |-> cf.palign, salign |-> cf.salign, alt8 |-> Alt8Differs, propabs |-> PropAbsDiffers, namealt |-> NameAltDiffers]
Emit == /\ (phase = "done" => CSVWrite("%1$s", <<ToJson(Case)>>, IOEnv.OUT))
        /\ (phase = "write" /\ notes = <<>> /\ props = <<>> /\ stabs = <<>> /\ cf.cls = 32 /\ cf.le =>
              CSVWrite("%1$s", <<ToJson([tables |-> Tables])>>, IOEnv.OUT))

(* ------------------------------ properties ----------------------------- *)
Done == phase = "done"
NotesMode == Mode # "stabs"
\* the walker yields exactly the encoded notes, in order, each once
\* (what the section walks yielded, in file order: one section, or the two of mode "multi")
SecOuts == outs.sec \o outs.sec2
ExtEnd == IF Mode = "multi" THEN ext.sec2end ELSE ext.secend
LastSecOff == IF Mode = "multi" THEN outs.sec2off ELSE outs.secoff
EveryNoteOnce == Done /\ NotesMode => SecOuts = CoreViews(ext.secstart)
\* ... and stops at the end of the last note, with less than one header of padding left
ExtentConsumed ==
  Done /\ NotesMode => /\ LastSecOff = ext.secstart + Len(EncNotes(notes, cf))
                       /\ ExtEnd - LastSecOff = ext.tail /\ ext.tail < NhdrSize
                       /\ outs.segoff = LastSecOff
SectionViewEqualsSegmentView == Done /\ NotesMode => outs.seg = SecOuts
\* several note sections in one segment: each section yields its own notes and stops at its own end (where the next one begins),
\* the segment yields those of all of them, at the same offsets
SectionsSplitSegment ==
  Done /\ Mode = "multi" =>
      LET vs == CoreViews(ext.secstart)   k == SplitAt IN
      /\ outs.sec = SubSeq(vs, 1, k) /\ outs.sec2 = SubSeq(vs, k + 1, Len(vs)) /\ outs.seg = vs
      /\ outs.secoff = ext.secend /\ ext.secend = ext.sec2start /\ outs.sec2off = ext.sec2end
      /\ ext.segstart = ext.secstart /\ ext.segend = ext.sec2end /\ outs.segoff = ext.segend
\* yielded notes tile the extent: each is at least a header long and starts where the previous one ended
NotesTile ==
  NotesMode => \A who \in {"sec", "sec2", "seg"} : LET o == outs[who] IN
      \A i \in 1..Len(o) : /\ o[i].size >= NhdrSize
                           /\ o[i].off = IF i = 1 THEN (IF who = "sec2" THEN ext.sec2start ELSE ext.secstart) ELSE o[i - 1].off + o[i - 1].size
\* the descriptor bytes the walker hands out decode to the abstract descriptor they were made from
DescRoundTrip ==
  Done /\ NotesMode => \A i \in 1..Len(notes) :
      LET k == DescKind(notes[i].name, notes[i].type, cf.core) IN
      /\ k = notes[i].dec.k
      /\ DecodeDesc(k, SecOuts[i].desc, cf) = notes[i].dec.f
\* only notes of the owner that defines the type codes of this kind of file are ever decoded; what nobody defines is opaque
OnlyDefiningOwnerDecodes ==
  NotesMode => \A i \in 1..Len(notes) :
      LET n == notes[i]   k == DescKind(n.name, n.type, cf.core) IN
      /\ (k # "raw" => TypeFixed(n.name, cf.core) /\ StrictNames(n.name, n.type, cf.core) # {} /\ ~Opaque(n.name, n.type, cf.core))
      /\ (Opaque(n.name, n.type, cf.core) => n.dec = RawDec /\ StrictNames(n.name, n.type, cf.core) = {})
      /\ (~TypeFixed(n.name, cf.core) /\ ~OwnedBy(n.name, OwnerFreeBSD) => Opaque(n.name, n.type, cf.core))
\* the owner is the part of the name field before its first null - whatever else namesz covers -, sizes and offsets count from
\* namesz, and the meaning of the note is that of the canonical field (owner + one null)
OwnerUpToFirstNul ==
  Done /\ NotesMode => \A i \in 1..Len(notes) :
      LET n == notes[i]   o == SecOuts[i]   s == o.name   l == Len(o.name) IN
      /\ o.hasname = (n.name # <<>>) /\ o.namesz = Len(n.name)
      /\ (~o.hasname => s = <<>>)
      /\ (o.hasname => /\ l < o.namesz /\ n.name[l + 1] = 0
                       /\ \A j \in 1..l : s[j] # 0 /\ s[j] = n.name[j]
                       /\ \A j \in (l + 1)..o.namesz : n.name[j] = 0              \* the writer's alphabet: nothing but nulls behind the owner
                       /\ (NameSliced(n.name) = s) = (o.namesz = l + 1))
      /\ o.size = NoteSize(o.namesz, o.descsz)
      /\ (o.hasname => LET canon == s \o <<0>> IN
                         /\ DescKind(n.name, n.type, cf.core) = DescKind(canon, n.type, cf.core)
                         /\ TypeFixed(n.name, cf.core) = TypeFixed(canon, cf.core)
                         /\ StrictNames(n.name, n.type, cf.core) = StrictNames(canon, n.type, cf.core)
                         /\ Opaque(n.name, n.type, cf.core) = Opaque(canon, n.type, cf.core))
StabsExact == Done /\ ~NotesMode => outs.sec = StabView(ext.secstart) /\ outs.secoff = ext.secend /\ Len(outs.sec) = Len(stabs)
\* units tile the section from the first header on: each header's count reaches exactly to the next header (or the end of
\* the section), so no header but a last one covers the rest of the section; the count of the encoded header is the derived one
UnitsTile ==
  Done /\ ~NotesMode =>
      LET rs == StabRecs(stabs)   hs == UnitHeads(stabs) IN
      /\ \A i \in hs : LET n == NatOf(outs.sec[i].f.n_desc.d) IN
            /\ n = NatOf(rs[i].n_desc.d)
            /\ i + n <= Len(stabs) /\ (i + n < Len(stabs) => i + n + 1 \in hs)
            /\ \A j \in (i + 1)..(i + n) : j \notin hs
\* property lists are walked relative to the descriptor: the elements tile the descriptor whatever its file offset; the reading
\* by aligned file offsets coincides on descriptors that lie at a multiple of the alignment and differs on every other one
PropsRelative ==
  Done /\ NotesMode => \A i \in 1..Len(notes) : notes[i].dec.k = "props" =>
      LET o == SecOuts[i]   ps == notes[i].dec.f   A == PropAlign(cf.cls)   b == DescOff(o) IN
      /\ PropWalk(o.desc, 0, cf.cls, cf.le) = ps
      /\ PropPos(ps, Len(ps) + 1, A, 0) = o.descsz
      /\ Read(cs, b, o.descsz) = o.desc
      /\ ((b % A) = 0 => \A j \in 1..(Len(ps) + 1) : PropPos(ps, j, A, b) = PropPos(ps, j, A, 0))
      /\ ((b % A) # 0 /\ ps # <<>> => PropAbsDiffersAt(notes[i], o))
\* section header and program header designate the same file bytes, and those are the encoded extent
ImageCarriesExtent ==
  phase = "sec" /\ w.pc = "hdr" /\ w.off = ext.secstart =>
      /\ ext.segstart = ext.secstart /\ ext.segend = ExtEnd
      /\ Read(cs, ext.secstart, ExtEnd - ext.secstart) = Extent(notes, cf, ext.tail)
      /\ (NotesMode => Read(cs, 16, 2) = Fix(N(cf.et), 2, cf.le) /\ cf.core = (cf.et = 4))       \* e_type (gABI: offset 16 in both classes)
      /\ \A i, j \in 1..Len(cs) : i < j => \/ Len(cs[i][2]) = 0 \/ Len(cs[j][2]) = 0
                                           \/ cs[i][1] + Len(cs[i][2]) * cs[i][3] <= cs[j][1]
                                           \/ cs[j][1] + Len(cs[j][2]) * cs[j][3] <= cs[i][1]
\* the alignment the headers declare changes two header fields and nothing else: the same chunks at the same places but for
\* the program header and the section header of the extent (the file is that of p_align = sh_addralign = 4, so the extent, the
\* walk over it and the view are the same); the extent starts at a multiple of 16, so every declared alignment holds
AlignOnlyInHeaders ==
  Mode = "align" /\ phase = "sec" /\ w.pc = "hdr" /\ w.off = ext.secstart =>
      LET data == Extent(notes, cf, ext.tail)
          im == NoteIm(cf, data)
          b == Chunks(NoteIm([cf EXCEPT !.palign = 4, !.salign = 4], data)) IN
      /\ cs = Chunks(im) /\ Len(b) = Len(cs)
      /\ \A i \in 1..Len(cs) : /\ cs[i][1] = b[i][1] /\ Len(cs[i][2]) = Len(b[i][2]) /\ cs[i][3] = b[i][3]
                                /\ (cs[i] # b[i] => cs[i][1] = PhOff(im) \/ cs[i][1] = ShOff(im) + UserIndex(im, 1) * ShEnt(im))
      /\ (ext.secstart % 16) = 0 /\ (4096 % 16) = 0
      /\ (<<cf.palign, cf.salign>> # <<4, 4>> => cs # b)
\* progress: no walker step moves backwards, and a yielded note advanced the cursor by at least a header
WalkerProgress ==
  [][(Walking /\ phase' = phase) => /\ w'.off >= w.off
                                    /\ (w.pc = "yield" => w'.off >= w.cur.off + NhdrSize)
                                    /\ (w.pc = "hdr" => w'.off = w.off + NhdrSize)]_vars
\* termination, safety form: a walker that is not done can take a step (NoStall), and every walker step
\* strictly decreases a natural-valued variant (WalkerVariant)
NoStall == phase \in {"sec", "sec2", "seg", "stab"} => ENABLED WalkStep
PcRank(pc) == CASE pc = "hdr" -> 0 [] pc = "yield" -> 1 [] pc = "desc" -> 2 [] pc = "name" -> 3 [] OTHER -> 0
Rank == (CASE phase = "sec" -> 3 [] phase = "sec2" -> 2 [] phase \in {"seg", "stab"} -> 1 [] OTHER -> 0) * 1048576
        + (IF phase \in {"sec", "sec2", "seg", "stab"} THEN (w.end - w.off) + PcRank(w.pc) ELSE 0)
WalkerVariant == [][WalkStep => Rank' < Rank /\ Rank' >= 0]_vars
\* termination, liveness form (checked in the small configuration Notes_live)
Termination == (phase # "write") ~> Done
=============================================================================
