------------------------------ MODULE HashWalk ------------------------------
(***************************************************************************)
(* C03 - the hash functions and the byte-level reader machines of the two   *)
(* ELF symbol hash tables, shared by SymHash.tla (model) and                *)
(* trace/SymHashTrace.tla (trace validation).  No state, no ELF container.  *)
(*                                                                         *)
(* Transcribed from                                                        *)
(*  - System V gABI ch.5 "Hash Table" (figures 5-12 layout, 5-13 hashing    *)
(*    function): words nbucket, nchain, bucket[nbucket], chain[nchain];     *)
(*    bucket[hash % nbucket] starts a chain of symbol indices, chain[i] is  *)
(*    the next index, STN_UNDEF (0) ends the chain; nchain equals the       *)
(*    number of symbol table entries.                                      *)
(*  - the GNU hash section as defined by binutils/glibc (elf/dl-lookup.c,   *)
(*    do_lookup_x; Drepper, "How To Write Shared Libraries" 1.5.3; the      *)
(*    sourceware "GNU Hash ELF Sections" note of 2006): words nbuckets,     *)
(*    symoffset, bloom_size, bloom_shift; bloom_size words of the class     *)
(*    size C (32 / 64 bits); nbuckets words; one chain word per symbol at   *)
(*    index >= symoffset.  h = dl_new_hash(name) = h*33 + c from 5381,      *)
(*    32 bits.  Bloom word (h / C) % bloom_size must have bits h % C and    *)
(*    (h >> shift) % C.  bucket[h % nbuckets] is the lowest symbol index of *)
(*    the bucket, 0 when the bucket is empty.  The chain word of symbol i   *)
(*    is its hash with bit 0 replaced by "last of its bucket".              *)
(*                                                                         *)
(* 32-bit words are pairs <<lo, hi>> of 16-bit limbs: TLC integers are      *)
(* 32-bit signed, no product below exceeds 2^30.                            *)
(*                                                                         *)
(* A reader works on a memory m = [cls, le, h (hash section bytes), sym     *)
(* (symbol table bytes), str (string table bytes), ent (sh_entsize of the   *)
(* symbol table)].  Every read is guarded: a table that sends the reader    *)
(* outside its section, past the symbol table, or into a cycle makes the    *)
(* machine stop in "fault" (such a table is not well formed).               *)
(***************************************************************************)
EXTENDS Integers, Sequences
LOCAL INSTANCE SequencesExt

HL == 65536
RECURSIVE HPow2(_)
HPow2(n) == IF n = 0 THEN 1 ELSE 2 * HPow2(n - 1)

(* ------------------------------- words --------------------------------- *)
WNum(w) == IF w[2] < 16384 THEN w[2] * HL + w[1] ELSE -1      \* -1: beyond the model's integers
WMod(w, n) == (((w[2] % n) * (HL % n)) + (w[1] % n)) % n       \* n < 32768
WDivC(w, c) == w[2] * (HL \div c) + (w[1] \div c)              \* c in {32, 64}
WBit(w, i) == IF i < 16 THEN (w[1] \div HPow2(i)) % 2 ELSE IF i < 32 THEN (w[2] \div HPow2(i - 16)) % 2 ELSE 0
RECURSIVE WBits(_, _, _)
WBits(w, s, k) == IF k = 0 THEN 0 ELSE WBit(w, s) + 2 * WBits(w, s + 1, k - 1)     \* (w >> s) % 2^k
SameButBit0(a, b) == a[2] = b[2] /\ (a[1] \div 2) = (b[1] \div 2)

RECURSIVE HXor(_, _, _)
HXor(a, b, k) == IF k = 0 THEN 0 ELSE ((a + b) % 2) + 2 * HXor(a \div 2, b \div 2, k - 1)

(* ---------------------------- hash functions --------------------------- *)
\* dl_new_hash: h = h * 33 + c, modulo 2^32
GnuStepH(h, c) == LET lo == h[1] * 33 + c
                      hi == h[2] * 33 + (lo \div HL)
                  IN <<lo % HL, hi % HL>>
\* (FoldLeft of the community modules is evaluated strictly, in Java: a recursive operator would nest one
\* lazy accumulator per byte and exhaust the evaluator's stack on long names)
GnuHash(s) == FoldLeft(GnuStepH, <<5381, 0>>, s)

\* gABI figure 5-13:  h = (h << 4) + c;  if (g = h & 0xf0000000) h ^= g >> 24;  h &= ~g
\* (h stays below 2^28 between steps)
ElfStepH(h, c) ==
  LET lo1 == h[1] * 16 + c
      hi1 == (h[2] * 16 + (lo1 \div HL)) % HL
      lo2 == lo1 % HL
      g == hi1 \div 4096
      nib == (lo2 \div 16) % 16
      lo3 == IF g = 0 THEN lo2 ELSE lo2 - nib * 16 + HXor(nib, g, 4) * 16
  IN <<lo3, hi1 % 4096>>
\* the figure computes in `unsigned long`: where (h << 4) + c leaves 32 bits (h = 0x0fffffff, c >= 16) the
\* value depends on the width of that type; such names are not judged
ElfStepWraps(h, c) == h[2] * 16 + ((h[1] * 16 + c) \div HL) >= HL
\* the fold carries <<lo, hi, wrapped>>
ElfFoldStep(h, c) == LET n == ElfStepH(h, c) IN <<n[1], n[2], h[3] \/ ElfStepWraps(h, c)>>
ElfFold(s) == FoldLeft(ElfFoldStep, <<0, 0, FALSE>>, s)
ElfHash(s) == LET r == ElfFold(s) IN <<r[1], r[2]>>
ElfAmbiguous(s) == ElfFold(s)[3]

(* ------------------------------- memory -------------------------------- *)
CanRd4(bs, off) == off >= 0 /\ off + 4 <= Len(bs)
Rd4(bs, off, le) == LET a == bs[off + 1]   b == bs[off + 2]   c == bs[off + 3]   d == bs[off + 4] IN
                    IF le THEN <<a + 256 * b, c + 256 * d>> ELSE <<d + 256 * c, b + 256 * a>>
NSyms(m) == Len(m.sym) \div m.ent
\* st_name is the first word of a symbol entry in both classes (gABI figure 4-16); the name is the
\* NUL-terminated string at that offset of the linked string table
NameIs(m, i, q) ==
  LET o == WNum(Rd4(m.sym, i * m.ent, m.le)) IN
  /\ o >= 0 /\ o + Len(q) + 1 <= Len(m.str)
  /\ \A j \in 1..Len(q) : m.str[o + j] = q[j]
  /\ m.str[o + Len(q) + 1] = 0

\* reader state: pc, the symbol index under the cursor, the result (-1: none), a flag, a step count
RS(pc, idx, res, flag, steps) == [pc |-> pc, idx |-> idx, res |-> res, flag |-> flag, steps |-> steps]
Fault(rs) == [rs EXCEPT !.pc = "fault"]

(* ------------------------------ GNU hash ------------------------------- *)
GnuHdr(m) == [nb |-> WNum(Rd4(m.h, 0, m.le)), so |-> WNum(Rd4(m.h, 4, m.le)),
              bs |-> WNum(Rd4(m.h, 8, m.le)), sh |-> WNum(Rd4(m.h, 12, m.le))]
GnuHdrOK(m) ==
  /\ Len(m.h) >= 16
  /\ LET hd == GnuHdr(m) IN
     /\ hd.nb >= 1 /\ hd.nb < 32768 /\ hd.so >= 0 /\ hd.bs >= 1 /\ hd.bs <= Len(m.h) /\ hd.sh >= 0 /\ hd.sh < 32
     /\ 16 + hd.bs * (m.cls \div 8) + 4 * hd.nb <= Len(m.h)
GnuBloomOff(m, wi) == 16 + wi * (m.cls \div 8)
GnuBucketOff(m, hd, b) == 16 + hd.bs * (m.cls \div 8) + 4 * b
GnuChainOff(m, hd, i) == 16 + hd.bs * (m.cls \div 8) + 4 * hd.nb + 4 * (i - hd.so)

\* bit b of the bloom word (an integer of C bits in the file's byte order) at byte offset bo
BloomBit(m, bo, b) == LET k == b \div 8
                          byte == m.h[bo + 1 + (IF m.le THEN k ELSE (m.cls \div 8) - 1 - k)]
                      IN (byte \div HPow2(b % 8)) % 2
GnuBloomPass(m, hd, hv) ==
  LET bo == GnuBloomOff(m, WDivC(hv, m.cls) % hd.bs) IN
  /\ BloomBit(m, bo, hv[1] % m.cls) = 1
  /\ BloomBit(m, bo, WBits(hv, hd.sh, IF m.cls = 32 THEN 5 ELSE 6)) = 1

GnuStart == RS("bloom", 0, -1, FALSE, 0)
\* flag: the walk passed a chain word equal to the hash in all bits but bit 0 whose symbol has another name
GnuStep(m, hd, hv, q, rs) ==
  CASE rs.pc = "bloom" -> IF GnuBloomPass(m, hd, hv) THEN [rs EXCEPT !.pc = "bucket"] ELSE [rs EXCEPT !.pc = "done"]
    [] rs.pc = "bucket" ->
         LET i == WNum(Rd4(m.h, GnuBucketOff(m, hd, WMod(hv, hd.nb)), m.le)) IN
         IF i = 0 THEN [rs EXCEPT !.pc = "done"]                                      \* empty bucket
         ELSE IF i < hd.so THEN Fault(rs) ELSE [rs EXCEPT !.pc = "chain", !.idx = i]
    [] rs.pc = "chain" ->
         IF ~CanRd4(m.h, GnuChainOff(m, hd, rs.idx)) THEN Fault(rs)
         ELSE LET w == Rd4(m.h, GnuChainOff(m, hd, rs.idx), m.le)
                  eq == SameButBit0(w, hv) IN
              IF eq /\ rs.idx >= NSyms(m) THEN Fault(rs)
              ELSE IF eq /\ NameIs(m, rs.idx, q) THEN [rs EXCEPT !.pc = "done", !.res = rs.idx]
              ELSE IF w[1] % 2 = 1 THEN [rs EXCEPT !.pc = "done", !.flag = @ \/ eq]  \* end of the bucket's chain
              ELSE [rs EXCEPT !.idx = @ + 1, !.flag = @ \/ eq, !.steps = @ + 1]
    [] OTHER -> rs
RECURSIVE GnuRunFrom(_, _, _, _, _)
GnuRunFrom(m, hd, hv, q, rs) == IF rs.pc \in {"done", "fault"} THEN rs ELSE GnuRunFrom(m, hd, hv, q, GnuStep(m, hd, hv, q, rs))
GnuLookup(m, q) == IF GnuHdrOK(m) THEN GnuRunFrom(m, GnuHdr(m), GnuHash(q), q, GnuStart) ELSE Fault(GnuStart)

\* count recovery: the highest bucket value starts the last chain of the table; its end is the last symbol.
\* A table without a populated bucket carries no chain: it determines the count only through
\* symoffset = table length (flag = FALSE: "not determined by a chain").
RECURSIVE GnuMaxBucket(_, _, _, _)
GnuMaxBucket(m, hd, i, j) ==                                   \* the highest of bucket words i..j
  IF i = j THEN WNum(Rd4(m.h, GnuBucketOff(m, hd, i), m.le))
  ELSE LET mid == (i + j) \div 2   a == GnuMaxBucket(m, hd, i, mid)   b == GnuMaxBucket(m, hd, mid + 1, j) IN IF a > b THEN a ELSE b
GnuCountStart == RS("max", 0, -1, FALSE, 0)
GnuCountStep(m, hd, cs) ==
  CASE cs.pc = "max" ->
         LET mx == GnuMaxBucket(m, hd, 0, hd.nb - 1) IN
         IF mx = 0 THEN [cs EXCEPT !.pc = "done", !.res = hd.so]
         ELSE IF mx < hd.so THEN Fault(cs) ELSE [cs EXCEPT !.pc = "walk", !.idx = mx]
    [] cs.pc = "walk" ->
         IF ~CanRd4(m.h, GnuChainOff(m, hd, cs.idx)) THEN Fault(cs)
         ELSE IF Rd4(m.h, GnuChainOff(m, hd, cs.idx), m.le)[1] % 2 = 1
              THEN [cs EXCEPT !.pc = "done", !.res = cs.idx + 1, !.flag = TRUE]
              ELSE [cs EXCEPT !.idx = @ + 1, !.steps = @ + 1]
    [] OTHER -> cs
RECURSIVE GnuCountFrom(_, _, _)
GnuCountFrom(m, hd, cs) == IF cs.pc \in {"done", "fault"} THEN cs ELSE GnuCountFrom(m, hd, GnuCountStep(m, hd, cs))
GnuCount(m) == IF GnuHdrOK(m) THEN GnuCountFrom(m, GnuHdr(m), GnuCountStart) ELSE Fault(GnuCountStart)

(* ------------------------------ SysV hash ------------------------------ *)
SysVHdr(m) == [nb |-> WNum(Rd4(m.h, 0, m.le)), nc |-> WNum(Rd4(m.h, 4, m.le))]
SysVHdrOK(m) ==
  /\ Len(m.h) >= 8
  /\ LET hd == SysVHdr(m) IN
     /\ hd.nb >= 1 /\ hd.nb < 32768 /\ hd.nc >= 0 /\ hd.nc <= Len(m.h)
     /\ 8 + 4 * (hd.nb + hd.nc) <= Len(m.h)
SysVStart == RS("bucket", 0, -1, FALSE, 0)
SysVStep(m, hd, hv, q, rs) ==
  CASE rs.pc = "bucket" ->
         LET i == WNum(Rd4(m.h, 8 + 4 * WMod(hv, hd.nb), m.le)) IN
         IF i < 0 THEN Fault(rs) ELSE [rs EXCEPT !.pc = "chain", !.idx = i]
    [] rs.pc = "chain" ->
         IF rs.idx = 0 THEN [rs EXCEPT !.pc = "done"]                                  \* STN_UNDEF ends the chain
         ELSE IF rs.idx >= hd.nc \/ rs.idx >= NSyms(m) \/ rs.steps > hd.nc THEN Fault(rs)
         ELSE IF NameIs(m, rs.idx, q) THEN [rs EXCEPT !.pc = "done", !.res = rs.idx]
         ELSE LET nx == WNum(Rd4(m.h, 8 + 4 * hd.nb + 4 * rs.idx, m.le)) IN
              IF nx < 0 THEN Fault(rs) ELSE [rs EXCEPT !.idx = nx, !.steps = @ + 1]
    [] OTHER -> rs
RECURSIVE SysVRunFrom(_, _, _, _, _)
SysVRunFrom(m, hd, hv, q, rs) == IF rs.pc \in {"done", "fault"} THEN rs ELSE SysVRunFrom(m, hd, hv, q, SysVStep(m, hd, hv, q, rs))
SysVLookup(m, q) == IF SysVHdrOK(m) THEN SysVRunFrom(m, SysVHdr(m), ElfHash(q), q, SysVStart) ELSE Fault(SysVStart)
SysVCount(m) == IF SysVHdrOK(m) THEN SysVHdr(m).nc ELSE -1
=============================================================================
