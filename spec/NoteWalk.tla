------------------------------ MODULE NoteWalk ------------------------------
(***************************************************************************)
(* C14 - the arithmetic of the note walk, shared by Notes.tla (model) and   *)
(* trace/NotesTrace.tla (trace validation).  No state, no ELF container.    *)
(*                                                                         *)
(* System V gABI ch.5 "Note Section": a note is a header of three 4-byte    *)
(* words (namesz, descsz, type) in the byte order of the file, followed by  *)
(* namesz bytes of name and descsz bytes of descriptor; "padding is         *)
(* present, if necessary, to ensure 4-byte alignment" of the descriptor and *)
(* of the next entry; "such padding is not included in namesz / descsz".    *)
(* (The gABI text asks for 8-byte words in ELFCLASS64 files; every system   *)
(* the property names - Linux, GNU tools - uses the 4-byte form in both     *)
(* classes, and so does the property text: "standard 4-byte padding".)      *)
(***************************************************************************)
EXTENDS Integers

NhdrSize == 12
Pad4(n) == ((n + 3) \div 4) * 4
NoteSize(namesz, descsz) == NhdrSize + Pad4(namesz) + Pad4(descsz)

\* The rival reading the property rules out: name and descriptor padded to 8 bytes (what GNU binutils applies to extents
\* whose p_align / sh_addralign is 8).  Used only to show that the generated extents tell the two readings apart.
Pad8(n) == ((n + 7) \div 8) * 8
NoteSize8(namesz, descsz) == Pad8(NhdrSize + namesz) + Pad8(descsz)

\* A note is present at `off` whenever a whole header lies inside the extent.
HdrFits(off, end) == off + NhdrSize <= end
=============================================================================
