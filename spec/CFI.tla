-------------------------------- MODULE CFI --------------------------------
(***************************************************************************)
(* C06 - call-frame information is parsed and interpreted per DWARF /      *)
(* .eh_frame rules.                                                        *)
(*                                                                         *)
(* Transcribed: DWARF 2-5 section 6.4 (6.4.1 CIE/FDE structure, 6.4.2 call *)
(* frame instructions, 6.4.3 usage), section 7.24 (opcode encoding, table  *)
(* 7.29), section 7.4 (initial length); LSB Core 5.0 section 10.6          *)
(* (.eh_frame: CIE id 0, CIE pointer = distance back from the pointer      *)
(* field, augmentation string z/R/L/P/S, DW_EH_PE pointer encodings,       *)
(* terminator).                                                            *)
(*                                                                         *)
(* (A) abstract section = parameters + sequence of CIE / FDE / ZERO        *)
(* (B) Enc : abstract section -> bytes (layout in two passes: sizes do not *)
(*     depend on offsets because pointers are kept as their raw encoded    *)
(*     values)                                                             *)
(* (C) reader machine on bytes: ReadEntry (length, ClassifyById, ParseCIE, *)
(*     ParseFDE with the CIE fetched on demand at the designated offset -  *)
(*     an FDE may precede its CIE), InsDec (one instruction), Scan          *)
(* (D) View: what a correct reader reports, computed from the abstract     *)
(*     object; section 6.4 interpreter, one operator Do_<opcode> per        *)
(*     DW_CFA opcode, Exec dispatching on the opcode name.  The same Exec  *)
(*     is used by spec/trace/CFITrace.tla (single source of truth).        *)
(*                                                                         *)
(* Checked by TLC on the specification itself (cfg files):                 *)
(*   ReaderEqView        Scan(Enc(sec)) = ViewScan(sec): implies            *)
(*   EntriesInOrder      kinds/offsets in section order, entries tile       *)
(*   FDELinkedToDesignatedCIE  also when the FDE precedes its CIE           *)
(*   SplitExact          Dec(Enc(instrs)) = instrs and the cursor ends at   *)
(*                       the entry end                                      *)
(*   StackDiscipline     restore_state undoes everything since the matching *)
(*                       remember_state except the location                *)
(*   RestoreUsesInitial  after DW_CFA_restore(r) the rule of r is the CIE's *)
(*                       initial rule, or absent when there is none         *)
(*   TableMonotone       rows are created at strictly increasing locations  *)
(*   PersRoundTrip       personality pointer: decode(encode(v)) = v in      *)
(*                       every encoding, negative iff signed format and     *)
(*                       sign bit set, all admissible reports = one address *)
(*                                                                         *)
(* Configurations (spec/cfg): CFI_scan_* (Mode "scan": whole entries are   *)
(* added; all sections of <= 3 entries + terminator over the scan          *)
(* alphabets), CFI_prog1/2/3/4_* (Mode "prog": the program of one FDE      *)
(* grows one instruction at a time from every CIE pre-state; every prefix  *)
(* is a case), CFI_pers_* (Mode "pers", see below), CFI_sim* (Mode "sim": random long programs, -simulate).     *)
(* Every reachable state that is Complete, WellFormed and whose programs   *)
(* satisfy Pre is emitted as one case: bytes, ViewScan, ViewTables, the    *)
(* tables under the known deviation C06.def_cfa_sf (`alt`, only when they  *)
(* differ) and spec-computed input classes (`flags`) used to tag           *)
(* disagreements.                                                          *)
(*                                                                         *)
(* Terminators that are not the last record (Mode "scanz", cfg CFI_scanz):   *)
(* LSB 10.6.1 is of two minds.  "The number of records present shall be    *)
(* determined by size of the section as contained in the section header"   *)
(* (so every record up to the section size is an entry: what binutils'     *)
(* readelf and this library do, reporting each zero length word as a ZERO  *)
(* entry and going on), but 10.6.1.1, field Length: "If Length contains    *)
(* the value 0, then this CIE shall be considered a terminator and         *)
(* processing shall end" (so a reader that reports the entries up to and   *)
(* including the FIRST terminator follows the letter of the LSB; GNU ld    *)
(* likewise treats records after a terminator as an error in .eh_frame).   *)
(* Records after a terminator are therefore outside what the standard      *)
(* fixes, and the expectation is SET-VALUED: the reported entries are      *)
(* either all records in section order (reader machine Scan) or the        *)
(* records up to and including the first terminator (reader machine        *)
(* ScanLsb); `term` carries the length of that prefix.  Whatever IS        *)
(* reported must be right field for field (offsets after a 4-byte          *)
(* terminator, FDE -> CIE links across a terminator, tables).  TLC checks  *)
(* TerminatorPrefix: ScanLsb(Enc(sec)) is that prefix of the view.         *)
(*                                                                         *)
(* Personality routine pointer (Mode "pers", cfgs CFI_pers_quick and       *)
(* CFI_pers_thorough): the pointer                                          *)
(* of a 'P' CIE ranges over all 18 encodings x the value classes of the     *)
(* format (PersRaws: extremes of the field, negative values, values whose   *)
(* byte order shows).  LSB 10.5.1 fixes the number a format denotes         *)
(* (DW_EH_PE_sdata2/4/8, sleb128: "a signed value"; udata*, uleb128,        *)
(* absptr unsigned) and, for the absolute application, that it is "used     *)
(* with no modification".  A value outside [0, 2^(8*address size)) - a      *)
(* negative one, or an 8-byte one on a 4-byte target - is no address of the *)
(* target: a reader reports the number itself (this library) or the address *)
(* it designates modulo 2^(8*address size) (what a GNU unwinder computes in *)
(* a pointer-sized word); PersDen is that set, a singleton for values       *)
(* inside the address space, and `persv` carries it.  A reader that drops   *)
(* the signedness of the format is outside it for every signed format under *)
(* at least one address size.                                               *)
(*                                                                         *)
(* Not asserted (the standards do not fix them): the key under which 'S'   *)
(* appears in augmentation_dict; the personality pointer value under pcrel *)
(* (the library reports the raw value); DW_CFA_set_loc under a non-absptr  *)
(* FDE encoding (GNU consumers read it with the FDE encoding, DWARF says   *)
(* target address: generated only with absptr); pointer results outside    *)
(* [0, 2^(8*address size)) and raw value 0 under pcrel (GNU: null stays    *)
(* null); location wrap-around; empty rows (no CFA rule, no register rule) *)
(* may be omitted from a table; the pc column of a CIE's own table;        *)
(* reg_order is accepted in two readings (first mention by any instruction *)
(* / by a rule-setting instruction).  CIE v4 address_size always equals    *)
(* the address size handed to the reader; segment_size is 0.  64-bit       *)
(* .eh_frame lengths and DW_EH_PE_indirect/textrel/datarel/funcrel/aligned *)
(* are outside the property's quantifier.                                  *)
(***************************************************************************)
EXTENDS Bytes, TLC, Json, CSV, IOUtils

CONSTANTS Mode,        \* "scan" | "scanz" | "pers" | "prog" | "sim"
          Pars,        \* set of section parameter records (scan) / the one used by prog
          MaxEnts,     \* scan: entries per section
          Letters,     \* prog/sim: instruction alphabet of the FDE program
          CieProgs,    \* prog/sim: initial-instruction programs of the CIE (pre-states)
          CafDaf,      \* prog/sim: <<code alignment, data alignment>> pairs
          MaxProg      \* prog: longest FDE program; sim: exact length emitted

VARIABLES par, sec, ist, dv     \* dv: values derived from <<par, sec>> once per transition (TLC does not memoise)
vars == <<par, sec, ist, dv>>

Range(s) == {s[i] : i \in DOMAIN s}
B(bs) == [b |-> bs]                       \* a block operand
IsBlock(v) == "b" \in DOMAIN v

(* ---------------------------------------------------------------------- *)
(* (b) Instruction table: DWARF5 table 7.29 + GNU_args_size (0x2e) and     *)
(* 0x2d (GNU_window_save / AArch64 negate_ra_state, no operands).          *)
(* Operand kinds: low6 (in the opcode byte), uleb, sleb, addr (target      *)
(* address), u1/u2/u4 (fixed-size deltas), block (ULEB length + bytes).    *)
(* ---------------------------------------------------------------------- *)
Ops == <<
  [n |-> "DW_CFA_advance_loc",        c |-> 64,  k |-> <<"low6">>],
  [n |-> "DW_CFA_offset",             c |-> 128, k |-> <<"low6", "uleb">>],
  [n |-> "DW_CFA_restore",            c |-> 192, k |-> <<"low6">>],
  [n |-> "DW_CFA_nop",                c |-> 0,   k |-> <<>>],
  [n |-> "DW_CFA_set_loc",            c |-> 1,   k |-> <<"addr">>],
  [n |-> "DW_CFA_advance_loc1",       c |-> 2,   k |-> <<"u1">>],
  [n |-> "DW_CFA_advance_loc2",       c |-> 3,   k |-> <<"u2">>],
  [n |-> "DW_CFA_advance_loc4",       c |-> 4,   k |-> <<"u4">>],
  [n |-> "DW_CFA_offset_extended",    c |-> 5,   k |-> <<"uleb", "uleb">>],
  [n |-> "DW_CFA_restore_extended",   c |-> 6,   k |-> <<"uleb">>],
  [n |-> "DW_CFA_undefined",          c |-> 7,   k |-> <<"uleb">>],
  [n |-> "DW_CFA_same_value",         c |-> 8,   k |-> <<"uleb">>],
  [n |-> "DW_CFA_register",           c |-> 9,   k |-> <<"uleb", "uleb">>],
  [n |-> "DW_CFA_remember_state",     c |-> 10,  k |-> <<>>],
  [n |-> "DW_CFA_restore_state",      c |-> 11,  k |-> <<>>],
  [n |-> "DW_CFA_def_cfa",            c |-> 12,  k |-> <<"uleb", "uleb">>],
  [n |-> "DW_CFA_def_cfa_register",   c |-> 13,  k |-> <<"uleb">>],
  [n |-> "DW_CFA_def_cfa_offset",     c |-> 14,  k |-> <<"uleb">>],
  [n |-> "DW_CFA_def_cfa_expression", c |-> 15,  k |-> <<"block">>],
  [n |-> "DW_CFA_expression",         c |-> 16,  k |-> <<"uleb", "block">>],
  [n |-> "DW_CFA_offset_extended_sf", c |-> 17,  k |-> <<"uleb", "sleb">>],
  [n |-> "DW_CFA_def_cfa_sf",         c |-> 18,  k |-> <<"uleb", "sleb">>],
  [n |-> "DW_CFA_def_cfa_offset_sf",  c |-> 19,  k |-> <<"sleb">>],
  [n |-> "DW_CFA_val_offset",         c |-> 20,  k |-> <<"uleb", "uleb">>],
  [n |-> "DW_CFA_val_offset_sf",      c |-> 21,  k |-> <<"uleb", "sleb">>],
  [n |-> "DW_CFA_val_expression",     c |-> 22,  k |-> <<"uleb", "block">>],
  [n |-> "DW_CFA_0x2d",               c |-> 45,  k |-> <<>>],
  [n |-> "DW_CFA_GNU_args_size",      c |-> 46,  k |-> <<"uleb">>] >>

OpNames == {Ops[i].n : i \in DOMAIN Ops}
OpByName == TLCEval([n \in OpNames |-> Ops[CHOOSE i \in DOMAIN Ops : Ops[i].n = n]])
\* opcode byte -> table entry (high two bits select a primary opcode, 7.24)
ExtCodes == {Ops[i].c : i \in 4..Len(Ops)}
OpByByte == TLCEval([b \in 0..255 |->
               IF b >= 64 THEN Ops[b \div 64]
               ELSE IF b \in ExtCodes THEN Ops[CHOOSE i \in 4..Len(Ops) : Ops[i].c = b]
               ELSE [n |-> "unknown", c |-> b, k |-> <<>>]])
IsPrimary(o) == o.c >= 64
AdvOps == {"DW_CFA_advance_loc", "DW_CFA_advance_loc1", "DW_CFA_advance_loc2", "DW_CFA_advance_loc4"}
LocOps == AdvOps \cup {"DW_CFA_set_loc"}
RestoreOps == {"DW_CFA_restore", "DW_CFA_restore_extended"}
RuleOps == {"DW_CFA_offset", "DW_CFA_offset_extended", "DW_CFA_offset_extended_sf", "DW_CFA_undefined",
            "DW_CFA_same_value", "DW_CFA_register", "DW_CFA_expression", "DW_CFA_val_expression",
            "DW_CFA_val_offset", "DW_CFA_val_offset_sf"}

\* an abstract instruction: opcode name, operand values (N(n) Small | W(digits) | B(bytes)), LEB padding groups
I(op, a) == [op |-> op, a |-> a, p |-> 0]
IP(op, a, p) == [op |-> op, a |-> a, p |-> p]

(* ----- encoding of one instruction (7.24) ----- *)
OperandEnc(kind, v, pad, asz, le) ==
  CASE kind = "uleb"  -> UlebPadded(v.n, pad)
    [] kind = "sleb"  -> SlebPadded(v.n, pad)
    [] kind = "addr"  -> Fix(v, asz, le)
    [] kind = "u1"    -> Fix(v, 1, le)
    [] kind = "u2"    -> Fix(v, 2, le)
    [] kind = "u4"    -> Fix(v, 4, le)
    [] kind = "block" -> UlebPadded(Len(v.b), pad) \o v.b
    [] kind = "low6"  -> <<>>
InsEnc(ins, asz, le) ==
  LET o == OpByName[ins.op]
      first == IF IsPrimary(o) THEN <<o.c + ins.a[1].n>> ELSE <<o.c>>
  IN first \o Flat([i \in 1..Len(o.k) |-> OperandEnc(o.k[i], ins.a[i], ins.p, asz, le)])
InsEncAll(inss, asz, le) == Flat([i \in 1..Len(inss) |-> InsEnc(inss[i], asz, le)])
OpcodeByte(ins) == LET o == OpByName[ins.op] IN IF IsPrimary(o) THEN o.c + ins.a[1].n ELSE o.c

(* ----- decoding of one instruction at 0-based position pos ----- *)
\* value of a LEB128 that is known to be short (<= 4 groups) as a Small
LebAt(bs, pos, signed) ==
  LET d == LebDec(SubSeq(bs, pos + 1, Min({Len(bs), pos + 6})), signed) IN
  [v |-> N(GroupsInt(d.val.g, signed)), used |-> d.used]
NormLE(ds, le) == IF le THEN ds ELSE Rev(ds)
OperandDec(kind, bs, pos, first, asz, le) ==
  CASE kind = "low6"  -> [v |-> N(first % 64), used |-> 0]
    [] kind = "uleb"  -> LebAt(bs, pos, FALSE)
    [] kind = "sleb"  -> LebAt(bs, pos, TRUE)
    [] kind = "addr"  -> [v |-> W(NormLE(Slice(bs, pos + 1, asz), le)), used |-> asz]
    [] kind = "u1"    -> [v |-> N(bs[pos + 1]), used |-> 1]
    [] kind = "u2"    -> [v |-> N(NatOf(NormLE(Slice(bs, pos + 1, 2), le))), used |-> 2]
    [] kind = "u4"    -> [v |-> W(NormLE(Slice(bs, pos + 1, 4), le)), used |-> 4]
    [] kind = "block" -> LET l == LebAt(bs, pos, FALSE) IN
                         [v |-> B(Slice(bs, pos + l.used + 1, l.v.n)), used |-> l.used + l.v.n]
RECURSIVE OperandsDec(_, _, _, _, _, _, _)
OperandsDec(ks, i, bs, pos, first, asz, le) ==
  IF i > Len(ks) THEN [a |-> <<>>, next |-> pos]
  ELSE LET d == OperandDec(ks[i], bs, pos, first, asz, le)
           r == OperandsDec(ks, i + 1, bs, pos + d.used, first, asz, le)
       IN [a |-> <<d.v>> \o r.a, next |-> r.next]
InsDec(bs, pos, asz, le) ==
  LET first == bs[pos + 1]
      o == OpByByte[first]
      r == OperandsDec(o.k, 1, bs, pos + 1, first, asz, le)
  IN [op |-> o.n, byte |-> first, a |-> r.a, next |-> r.next]
\* SplitInstrs: decode from pos up to (not including) end; the cursor must land on end exactly
RECURSIVE SplitInstrs(_, _, _, _, _)
SplitInstrs(bs, pos, end, asz, le) ==
  IF pos >= end THEN [ins |-> <<>>, stop |-> pos]
  ELSE LET d == InsDec(bs, pos, asz, le)
           r == SplitInstrs(bs, d.next, end, asz, le)
       IN [ins |-> <<[op |-> d.op, byte |-> d.byte, a |-> d.a]>> \o r.ins, stop |-> r.stop]

(* ---------------------------------------------------------------------- *)
(* (c) Section 6.4 interpreter.                                            *)
(* State: loc (8 LE digits), cfa rule, register rules (set of              *)
(* <<reg, type, number, block>>; a register without a tuple has no rule),  *)
(* stack of <<cfa, rules>> (6.4.2.4), order of first mention.              *)
(* Context: code/data alignment factors of the CIE, the CIE's initial      *)
(* rules, whether the program belongs to an FDE, and `dev`: evaluate under *)
(* deviation C06.def_cfa_sf (factored CFA offset scaled by the code        *)
(* alignment factor) - used only to recognise that known deviation.        *)
(* ---------------------------------------------------------------------- *)
CfaNone == [k |-> "none", reg |-> 0, off |-> 0, expr |-> <<>>]
CfaRO(r, o) == [k |-> "regoff", reg |-> r, off |-> o, expr |-> <<>>]
CfaExpr(b) == [k |-> "expr", reg |-> 0, off |-> 0, expr |-> b]

SetRule(rs, r, t, n, b) == {x \in rs : x[1] # r} \cup {<<r, t, n, b>>}
DelRule(rs, r) == {x \in rs : x[1] # r}
RuleOf(rs, r) == {x \in rs : x[1] = r}
InSeq(s, x) == \E i \in DOMAIN s : s[i] = x
Mention(st, r, sets) == [st EXCEPT !.ord = IF InSeq(@, r) THEN @ ELSE Append(@, r),
                                   !.ords = IF sets /\ ~InSeq(@, r) THEN Append(@, r) ELSE @]

RECURSIVE MulC(_, _, _)
MulC(d, k, c) == IF d = <<>> THEN <<>> ELSE LET p == Head(d) * k + c IN <<p % 256>> \o MulC(Tail(d), k, p \div 256)
DW(v, w) == IF IsSmall(v) THEN LEn(v.n, w) ELSE DTrunc(v.d, w)     \* unsigned operand as w digits
RECURSIVE DLtR(_, _)
DLtR(a, b) == IF a = <<>> THEN FALSE                                 \* most significant digit first
              ELSE IF Head(a) # Head(b) THEN Head(a) < Head(b) ELSE DLtR(Tail(a), Tail(b))
DLt(a, b) == DLtR(Rev(a), Rev(b))
AdvTo(loc, delta, caf, w) == DAdd(DTrunc(loc, w), MulC(DW(delta, w), caf, 0))

St0(loc) == [loc |-> loc, cfa |-> CfaNone, rules |-> {}, stack |-> <<>>, ord |-> <<>>, ords |-> <<>>]
Ctx(caf, daf, init, fde, dev) == [caf |-> caf, daf |-> daf, init |-> init, fde |-> fde, dev |-> dev]

\* 6.4.2.1 row creation instructions: only the location changes
Do_advance_loc(st, delta, ctx)  == [st EXCEPT !.loc = AdvTo(@, delta, ctx.caf, 8)]
Do_advance_loc1(st, delta, ctx) == [st EXCEPT !.loc = AdvTo(@, delta, ctx.caf, 8)]
Do_advance_loc2(st, delta, ctx) == [st EXCEPT !.loc = AdvTo(@, delta, ctx.caf, 8)]
Do_advance_loc4(st, delta, ctx) == [st EXCEPT !.loc = AdvTo(@, delta, ctx.caf, 8)]
Do_set_loc(st, addr, ctx)       == [st EXCEPT !.loc = DW(addr, 8)]
\* 6.4.2.2 CFA definition instructions
Do_def_cfa(st, r, o, ctx)            == [st EXCEPT !.cfa = CfaRO(r, o)]
Do_def_cfa_sf(st, r, o, ctx)         == [st EXCEPT !.cfa = CfaRO(r, o * (IF ctx.dev THEN ctx.caf ELSE ctx.daf))]
Do_def_cfa_register(st, r, ctx)      == [st EXCEPT !.cfa = CfaRO(r, @.off)]
Do_def_cfa_offset(st, o, ctx)        == [st EXCEPT !.cfa = CfaRO(@.reg, o)]
Do_def_cfa_offset_sf(st, o, ctx)     == [st EXCEPT !.cfa = CfaRO(@.reg, o * ctx.daf)]
Do_def_cfa_expression(st, b, ctx)    == [st EXCEPT !.cfa = CfaExpr(b)]
\* 6.4.2.3 register rule instructions
SetR(st, r, t, n, b) == [Mention(st, r, TRUE) EXCEPT !.rules = SetRule(@, r, t, n, b)]
Do_undefined(st, r, ctx)             == SetR(st, r, "UNDEFINED", 0, <<>>)
Do_same_value(st, r, ctx)            == SetR(st, r, "SAME_VALUE", 0, <<>>)
Do_offset(st, r, n, ctx)             == SetR(st, r, "OFFSET", n * ctx.daf, <<>>)
Do_offset_extended(st, r, n, ctx)    == SetR(st, r, "OFFSET", n * ctx.daf, <<>>)
Do_offset_extended_sf(st, r, n, ctx) == SetR(st, r, "OFFSET", n * ctx.daf, <<>>)
Do_val_offset(st, r, n, ctx)         == SetR(st, r, "VAL_OFFSET", n * ctx.daf, <<>>)
Do_val_offset_sf(st, r, n, ctx)      == SetR(st, r, "VAL_OFFSET", n * ctx.daf, <<>>)
Do_register(st, r, r2, ctx)          == SetR(st, r, "REGISTER", r2, <<>>)
Do_expression(st, r, b, ctx)         == SetR(st, r, "EXPRESSION", 0, b)
Do_val_expression(st, r, b, ctx)     == SetR(st, r, "VAL_EXPRESSION", 0, b)
RestoreR(st, r, ctx) == [Mention(st, r, FALSE) EXCEPT !.rules = DelRule(@, r) \cup RuleOf(ctx.init, r)]
Do_restore(st, r, ctx)               == RestoreR(st, r, ctx)
Do_restore_extended(st, r, ctx)      == RestoreR(st, r, ctx)
\* 6.4.2.4 row state instructions
Do_remember_state(st, ctx) == [st EXCEPT !.stack = Append(@, <<st.cfa, st.rules>>)]
Do_restore_state(st, ctx)  == [st EXCEPT !.cfa = st.stack[Len(st.stack)][1], !.rules = st.stack[Len(st.stack)][2],
                                         !.stack = SubSeq(@, 1, Len(@) - 1)]
\* 6.4.2.5 padding; GNU_args_size and 0x2d do not touch the CFA or register-rule columns
Do_nop(st, ctx) == st
Do_GNU_args_size(st, n, ctx) == st
Do_0x2d(st, ctx) == st

Exec(st, ins, ctx) ==
  LET op == ins.op   a == ins.a IN
  CASE op = "DW_CFA_advance_loc"        -> Do_advance_loc(st, a[1], ctx)
    [] op = "DW_CFA_advance_loc1"       -> Do_advance_loc1(st, a[1], ctx)
    [] op = "DW_CFA_advance_loc2"       -> Do_advance_loc2(st, a[1], ctx)
    [] op = "DW_CFA_advance_loc4"       -> Do_advance_loc4(st, a[1], ctx)
    [] op = "DW_CFA_set_loc"            -> Do_set_loc(st, a[1], ctx)
    [] op = "DW_CFA_def_cfa"            -> Do_def_cfa(st, a[1].n, a[2].n, ctx)
    [] op = "DW_CFA_def_cfa_sf"         -> Do_def_cfa_sf(st, a[1].n, a[2].n, ctx)
    [] op = "DW_CFA_def_cfa_register"   -> Do_def_cfa_register(st, a[1].n, ctx)
    [] op = "DW_CFA_def_cfa_offset"     -> Do_def_cfa_offset(st, a[1].n, ctx)
    [] op = "DW_CFA_def_cfa_offset_sf"  -> Do_def_cfa_offset_sf(st, a[1].n, ctx)
    [] op = "DW_CFA_def_cfa_expression" -> Do_def_cfa_expression(st, a[1].b, ctx)
    [] op = "DW_CFA_undefined"          -> Do_undefined(st, a[1].n, ctx)
    [] op = "DW_CFA_same_value"         -> Do_same_value(st, a[1].n, ctx)
    [] op = "DW_CFA_offset"             -> Do_offset(st, a[1].n, a[2].n, ctx)
    [] op = "DW_CFA_offset_extended"    -> Do_offset_extended(st, a[1].n, a[2].n, ctx)
    [] op = "DW_CFA_offset_extended_sf" -> Do_offset_extended_sf(st, a[1].n, a[2].n, ctx)
    [] op = "DW_CFA_val_offset"         -> Do_val_offset(st, a[1].n, a[2].n, ctx)
    [] op = "DW_CFA_val_offset_sf"      -> Do_val_offset_sf(st, a[1].n, a[2].n, ctx)
    [] op = "DW_CFA_register"           -> Do_register(st, a[1].n, a[2].n, ctx)
    [] op = "DW_CFA_expression"         -> Do_expression(st, a[1].n, a[2].b, ctx)
    [] op = "DW_CFA_val_expression"     -> Do_val_expression(st, a[1].n, a[2].b, ctx)
    [] op = "DW_CFA_restore"            -> Do_restore(st, a[1].n, ctx)
    [] op = "DW_CFA_restore_extended"   -> Do_restore_extended(st, a[1].n, ctx)
    [] op = "DW_CFA_remember_state"     -> Do_remember_state(st, ctx)
    [] op = "DW_CFA_restore_state"      -> Do_restore_state(st, ctx)
    [] op = "DW_CFA_nop"                -> Do_nop(st, ctx)
    [] op = "DW_CFA_GNU_args_size"      -> Do_GNU_args_size(st, a[1].n, ctx)
    [] op = "DW_CFA_0x2d"               -> Do_0x2d(st, ctx)

\* Well-formedness of an instruction in a state (what 6.4.2 requires of the producer):
\* restore_state needs a remembered state; def_cfa_register/offset/offset_sf need a register+offset
\* CFA rule; set_loc must move forward; location instructions and restore only in FDEs;
\* the location stays inside the address space (asz bytes).
Fits(d9, asz) == \A i \in (asz + 1)..Len(d9) : d9[i] = 0
Pre(st, ins, ctx, asz) ==
  LET op == ins.op IN
  /\ op = "DW_CFA_restore_state" => st.stack # <<>>
  /\ op \in {"DW_CFA_def_cfa_register", "DW_CFA_def_cfa_offset", "DW_CFA_def_cfa_offset_sf"} => st.cfa.k = "regoff"
  /\ op \in (LocOps \cup RestoreOps) => ctx.fde
  /\ op = "DW_CFA_set_loc" => DLt(st.loc, DW(ins.a[1], 8)) /\ Fits(DW(ins.a[1], 8), asz)
  /\ op \in AdvOps => Fits(AdvTo(st.loc, ins.a[1], ctx.caf, 9), asz)

RowOfSt(st) == [loc |-> st.loc, cfa |-> st.cfa, rules |-> st.rules, e |-> (st.cfa.k = "none" /\ st.rules = {})]
\* One program step on <<state, rows>>: a row is created when the location moves (6.4.2.1); a delta of 0
\* leaves a row of empty extent, which is no row of the function location -> rules.
StepRows(sr, ins, ctx) ==
  LET n == Exec(sr.st, ins, ctx) IN
  [st |-> n, rows |-> IF n.loc # sr.st.loc THEN Append(sr.rows, RowOfSt(sr.st)) ELSE sr.rows]
RECURSIVE RunFrom(_, _, _, _)
RunFrom(prog, i, sr, ctx) == IF i > Len(prog) THEN sr ELSE RunFrom(prog, i + 1, StepRows(sr, prog[i], ctx), ctx)
RunProg(prog, st0, ctx) == RunFrom(prog, 1, [st |-> st0, rows |-> <<>>], ctx)
\* the finished table: the last row extends to the end of the FDE's range
Table(sr) == Append(sr.rows, RowOfSt(sr.st))
\* the sequence of states a program goes through (for the interpreter invariants)
RECURSIVE StatesFrom(_, _, _, _)
StatesFrom(prog, i, st, ctx) == IF i > Len(prog) THEN <<st>> ELSE <<st>> \o StatesFrom(prog, i + 1, Exec(st, prog[i], ctx), ctx)
RECURSIVE ProgOK(_, _, _, _, _)
ProgOK(prog, i, st, ctx, asz) == IF i > Len(prog) THEN TRUE
                                 ELSE Pre(st, prog[i], ctx, asz) /\ ProgOK(prog, i + 1, Exec(st, prog[i], ctx), ctx, asz)

(* ---------------------------------------------------------------------- *)
(* (A) abstract sections                                                   *)
(* par: sk "debug"|"eh", le, fmt 32|64 (debug only), asz 4|8, addr =       *)
(* section address (8 digits), sweep (scan alphabets: full encoding sweep) *)
(* Pointers are kept as their raw encoded values (N(n) for LEB formats,    *)
(* W(w digits) for fixed formats); what they denote is computed by View.   *)
(* ---------------------------------------------------------------------- *)
Par(sk, le, fmt, asz, addr, sweep) == [sk |-> sk, le |-> le, fmt |-> fmt, asz |-> asz, addr |-> addr, sweep |-> sweep]
Cie(ver, aug, caf, daf, rar, fenc, lenc, penc, pers, ins, pad) ==
  [k |-> "CIE", ver |-> ver, aug |-> aug, caf |-> caf, daf |-> daf, rar |-> rar, fenc |-> fenc, lenc |-> lenc,
   penc |-> penc, pers |-> pers, cie |-> 0, loc |-> N(0), range |-> N(0), lsda |-> N(0), ins |-> ins, pad |-> pad]
Fde(cie, loc, range, lsda, ins, pad) ==
  [k |-> "FDE", ver |-> 0, aug |-> <<>>, caf |-> 0, daf |-> 0, rar |-> 0, fenc |-> 0, lenc |-> 0,
   penc |-> 0, pers |-> N(0), cie |-> cie, loc |-> loc, range |-> range, lsda |-> lsda, ins |-> ins, pad |-> pad]
Zero == [Fde(0, N(0), N(0), N(0), <<>>, 0) EXCEPT !.k = "ZERO"]

cz == 122  cR == 82  cL == 76  cP == 80  cS == 83          \* 'z' 'R' 'L' 'P' 'S'
HasZ(aug) == Len(aug) > 0 /\ aug[1] = cz
Has(aug, c) == HasZ(aug) /\ \E i \in 2..Len(aug) : aug[i] = c
\* LSB 10.6: without 'R' pointers are DW_EH_PE_absptr; without 'L' there is no LSDA pointer
EffFenc(c) == IF Has(c.aug, cR) THEN c.fenc ELSE 0
\* DW_EH_PE_*: low 4 bits = format, bits 4..6 = application (0 absolute, 1 pcrel)
EncFmt(e) == e % 16
EncPcrel(e) == (e \div 16) % 8 = 1
FmtLeb(f) == f \in {1, 9}
FmtSigned(f) == f >= 8
FmtWidth(f, asz) == CASE f = 0 -> asz [] f \in {2, 10} -> 2 [] f \in {3, 11} -> 4 [] f \in {4, 12} -> 8 [] OTHER -> 0
PtrEnc(p, f, v) == IF f = 1 THEN UlebOfNat(v.n) ELSE IF f = 9 THEN SlebOfInt(v.n) ELSE Fix(v, FmtWidth(f, p.asz), p.le)

HdrLen(p) == IF p.fmt = 64 THEN 12 ELSE 4
OffW(p) == IF p.fmt = 64 THEN 8 ELSE 4

RECURSIVE AugData(_, _, _)
AugData(p, c, i) ==
  IF i > Len(c.aug) THEN <<>>
  ELSE (CASE c.aug[i] = cR -> <<c.fenc>>
          [] c.aug[i] = cL -> <<c.lenc>>
          [] c.aug[i] = cP -> <<c.penc>> \o PtrEnc(p, EncFmt(c.penc), c.pers)
          [] OTHER -> <<>>) \o AugData(p, c, i + 1)

CieBody(p, c) ==
  LET id == IF p.sk = "debug" THEN Rep(255, OffW(p)) ELSE Rep(0, 4)
      v4 == IF c.ver >= 4 THEN <<p.asz, 0>> ELSE <<>>
      rar == IF c.ver = 1 THEN <<c.rar>> ELSE UlebOfNat(c.rar)
      ad == AugData(p, c, 2)
      augpart == IF HasZ(c.aug) THEN UlebOfNat(Len(ad)) \o ad ELSE <<>>
  IN id \o <<c.ver>> \o c.aug \o <<0>> \o v4 \o UlebOfNat(c.caf) \o SlebOfInt(c.daf) \o rar \o augpart
        \o InsEncAll(c.ins, p.asz, p.le) \o Rep(0, c.pad)

FdeAugData(p, c, f) == IF Has(c.aug, cL) THEN PtrEnc(p, EncFmt(c.lenc), f.lsda) ELSE <<>>
FdeBody(p, c, f, off, cieoff) ==
  LET ptr == IF p.sk = "debug" THEN Fix(N(cieoff), OffW(p), p.le) ELSE Fix(N(off + 4 - cieoff), 4, p.le)
      fm == EncFmt(EffFenc(c))
      locb == IF p.sk = "debug" THEN Fix(f.loc, p.asz, p.le) ELSE PtrEnc(p, fm, f.loc)
      rngb == IF p.sk = "debug" THEN Fix(f.range, p.asz, p.le) ELSE PtrEnc(p, fm, f.range)
      ad == FdeAugData(p, c, f)
      augpart == IF p.sk = "eh" /\ HasZ(c.aug) THEN UlebOfNat(Len(ad)) \o ad ELSE <<>>
  IN ptr \o locb \o rngb \o augpart \o InsEncAll(f.ins, p.asz, p.le) \o Rep(0, f.pad)

Body(p, s, i, off, cieoff) == IF s[i].k = "CIE" THEN CieBody(p, s[i]) ELSE FdeBody(p, s[s[i].cie], s[i], off, cieoff)
EntSize(p, s, i) == IF s[i].k = "ZERO" THEN 4 ELSE HdrLen(p) + Len(Body(p, s, i, 0, 0))
RECURSIVE OffsFrom(_, _, _, _)
OffsFrom(p, s, i, off) == IF i > Len(s) THEN <<off>> ELSE <<off>> \o OffsFrom(p, s, i + 1, off + EntSize(p, s, i))
Offs(p, s) == OffsFrom(p, s, 1, 0)               \* offsets of the entries, then the section size
CieOffOf(s, i, o) == IF s[i].k = "FDE" THEN o[s[i].cie] ELSE 0
EntEnc(p, s, i, o) ==
  IF s[i].k = "ZERO" THEN <<0, 0, 0, 0>>
  ELSE LET b == Body(p, s, i, o[i], CieOffOf(s, i, o)) IN
       (IF p.fmt = 64 THEN Rep(255, 4) \o Fix(N(Len(b)), 8, p.le) ELSE Fix(N(Len(b)), 4, p.le)) \o b
EncO(p, s, o) == Flat([i \in 1..Len(s) |-> EntEnc(p, s, i, o)])
Enc(p, s) == EncO(p, s, Offs(p, s))

\* every FDE designates a CIE of the section; in .eh_frame the distance back is positive
Complete(p, s) ==
  /\ s # <<>>
  /\ \A i \in 1..Len(s) : s[i].k = "FDE" =>
        /\ s[i].cie \in 1..Len(s) /\ s[s[i].cie].k = "CIE"
        /\ p.sk = "eh" => s[i].cie < i

(* ---------------------------------------------------------------------- *)
(* (D) View: what the entries denote                                       *)
(* ---------------------------------------------------------------------- *)
Ext9(v, signed) == IF IsSmall(v) THEN LEs(v.n, 9) ELSE IF signed THEN DSext(v.d, 9) ELSE DTrunc(v.d, 9)
\* value of an encoded pointer: raw value, plus the address of the field itself under pcrel
PtrVal9(p, enc, v, fieldoff) ==
  LET raw == Ext9(v, FmtSigned(EncFmt(enc))) IN
  IF EncPcrel(enc) THEN DAdd(raw, DAdd(DTrunc(p.addr, 9), LEn(fieldoff, 9))) ELSE raw
RawZero(v) == IF IsSmall(v) THEN v.n = 0 ELSE \A i \in DOMAIN v.d : v.d[i] = 0
PtrOK(p, enc, v, fieldoff) == Fits(PtrVal9(p, enc, v, fieldoff), p.asz) /\ (EncPcrel(enc) => ~RawZero(v))
W8(d9) == W(DTrunc(d9, 8))

\* What a reader may report for the personality routine pointer of a 'P' CIE, given the stored value as 9
\* sign/zero-extended digits (module header, "Personality routine pointer"): the number the DW_EH_PE format denotes
\* (LSB 10.5.1: udata*/uleb128/absptr unsigned, sdata*/sleb128 "a signed value": negative when the sign bit of
\* the stored field is set), or the address that number designates in the address space of asz bytes.  For a
\* value inside [0, 2^(8*asz)) the two coincide.
PersNeg(enc, s9) == FmtSigned(EncFmt(enc)) /\ s9[9] = 255
PersDen(asz, enc, s9) == {IF PersNeg(enc, s9) THEN WS(DTrunc(s9, 8)) ELSE W(DTrunc(s9, 8)), W(DTrunc(DTrunc(s9, asz), 8))}
PersCls(enc, s9) == IF EncPcrel(enc) THEN "pcrel" ELSE IF PersNeg(enc, s9) THEN "abs_signed_negative"
                    ELSE IF FmtSigned(EncFmt(enc)) THEN "abs_signed_nonneg" ELSE "abs_unsigned"
NoPers == [v |-> {}, cls |-> "none"]

InsView(ins) == [op |-> ins.op, byte |-> OpcodeByte(ins), a |-> ins.a]
NopView == [op |-> "DW_CFA_nop", byte |-> 0, a |-> <<>>]
InsListView(e) == TLCEval([i \in 1..(Len(e.ins) + e.pad) |-> IF i <= Len(e.ins) THEN InsView(e.ins[i]) ELSE NopView])

\* offsets (within the entry body) of the FDE's pointer fields
FdeLocOff(p, o, i) == o[i] + HdrLen(p) + OffW(p)
ViewCie(p, c, off, len) ==
  LET ad == AugData(p, c, 2) IN
  [k |-> "CIE", off |-> off, len |-> len, ver |-> c.ver, aug |-> c.aug,
   id |-> W(DTrunc(IF p.sk = "debug" THEN Rep(255, OffW(p)) ELSE <<>>, 8)),
   persabs |-> ~(Has(c.aug, cP) /\ EncPcrel(c.penc)),
   asz |-> IF c.ver >= 4 THEN p.asz ELSE -1, seg |-> IF c.ver >= 4 THEN 0 ELSE -1,
   caf |-> c.caf, daf |-> c.daf, rar |-> c.rar, hasz |-> HasZ(c.aug), augb |-> ad,
   fenc |-> IF Has(c.aug, cR) THEN c.fenc ELSE -1, lenc |-> IF Has(c.aug, cL) THEN c.lenc ELSE -1,
   penc |-> IF Has(c.aug, cP) THEN c.penc ELSE -1,
   pers |-> IF Has(c.aug, cP) THEN W8(Ext9(c.pers, FmtSigned(EncFmt(c.penc)))) ELSE W8(LEn(0, 9)),
   persv |-> IF Has(c.aug, cP) THEN LET s9 == Ext9(c.pers, FmtSigned(EncFmt(c.penc))) IN
                                    [v |-> PersDen(p.asz, c.penc, s9), cls |-> PersCls(c.penc, s9)]
             ELSE NoPers,
   ins |-> InsListView(c)]
ViewFde(p, s, i, o) ==
  LET f == s[i]   c == s[f.cie]
      fenc == IF p.sk = "eh" THEN EffFenc(c) ELSE 0
      l0 == FdeLocOff(p, o, i)
      locw == IF p.sk = "debug" THEN p.asz ELSE Len(PtrEnc(p, EncFmt(fenc), f.loc))
      rngw == IF p.sk = "debug" THEN p.asz ELSE Len(PtrEnc(p, EncFmt(fenc), f.range))
      ad == IF p.sk = "eh" THEN FdeAugData(p, c, f) ELSE <<>>
      hasz == p.sk = "eh" /\ HasZ(c.aug)
      a0 == l0 + locw + rngw + (IF hasz THEN Len(UlebOfNat(Len(ad))) ELSE 0)
      hasl == p.sk = "eh" /\ Has(c.aug, cL)
  IN [k |-> "FDE", off |-> o[i], len |-> o[i + 1] - o[i] - HdrLen(p),
      ptr |-> IF p.sk = "debug" THEN o[f.cie] ELSE o[i] + 4 - o[f.cie], cieoff |-> o[f.cie],
      loc |-> W8(PtrVal9(p, fenc, f.loc, l0)),
      range |-> W8(PtrVal9(p, EncFmt(fenc), f.range, 0)),          \* the range takes the format, never the application
      augb |-> ad, haslsda |-> hasl,
      lsda |-> IF hasl THEN W8(PtrVal9(p, c.lenc, f.lsda, a0)) ELSE W8(LEn(0, 9)),
      ins |-> InsListView(f)]
ViewZero(off) == [k |-> "ZERO", off |-> off]
ViewScanO(p, s, o) ==
  TLCEval([i \in 1..Len(s) |-> CASE s[i].k = "CIE" -> ViewCie(p, s[i], o[i], o[i + 1] - o[i] - HdrLen(p))
                                 [] s[i].k = "FDE" -> ViewFde(p, s, i, o)
                                 [] OTHER -> ViewZero(o[i])])
ViewScan(p, s) == ViewScanO(p, s, Offs(p, s))
\* producer obligations on pointers (see header): results inside the address space, no null under pcrel
WellFormedO(p, s, o) ==
  \A i \in 1..Len(s) : s[i].k = "FDE" /\ p.sk = "eh" =>
     LET f == s[i]  c == s[f.cie]  fenc == EffFenc(c)  l0 == FdeLocOff(p, o, i)
         a0 == l0 + Len(PtrEnc(p, EncFmt(fenc), f.loc)) + Len(PtrEnc(p, EncFmt(fenc), f.range)) + 1
     IN /\ PtrOK(p, fenc, f.loc, l0)
        /\ Fits(PtrVal9(p, EncFmt(fenc), f.range, 0), p.asz)
        /\ Has(c.aug, cL) => PtrOK(p, c.lenc, f.lsda, a0)

\* tables: CIE -> final state; FDE -> rows from the CIE's final state at the FDE's initial location
CieRun(c, dev) == RunProg(c.ins, St0(LEn(0, 8)), Ctx(c.caf, c.daf, {}, FALSE, dev))
FdeSt0(cs, loc8) == [cs EXCEPT !.loc = loc8, !.stack = <<>>]
FdeRun(c, f, loc8, dev) == LET cs == CieRun(c, dev).st IN
  RunProg(f.ins, FdeSt0(cs, loc8), Ctx(c.caf, c.daf, cs.rules, TRUE, dev))
RowJ(r) == <<r.loc, <<r.cfa.k, r.cfa.reg, r.cfa.off, r.cfa.expr>>, r.rules, r.e>>
TableJ(sr) == LET t == Table(sr) IN [ord |-> sr.st.ord, ords |-> sr.st.ords, rows |-> TLCEval([j \in 1..Len(t) |-> RowJ(t[j])])]
ViewTables(p, s, vs, dev) ==
  TLCEval([i \in 1..Len(s) |-> CASE s[i].k = "CIE" -> TableJ(CieRun(s[i], dev))
                                 [] s[i].k = "FDE" -> TableJ(FdeRun(s[s[i].cie], s[i], vs[i].loc.d, dev))
                                 [] OTHER -> [ord |-> <<>>, ords |-> <<>>, rows |-> <<>>]])
ProgsOK(p, s, vs) ==
  \A i \in 1..Len(s) :
     CASE s[i].k = "CIE" -> ProgOK(s[i].ins, 1, St0(LEn(0, 8)), Ctx(s[i].caf, s[i].daf, {}, FALSE, FALSE), p.asz)
       [] s[i].k = "FDE" -> LET c == s[s[i].cie]  cs == CieRun(c, FALSE).st IN
                            ProgOK(s[i].ins, 1, FdeSt0(cs, vs[i].loc.d), Ctx(c.caf, c.daf, cs.rules, TRUE, FALSE), p.asz)
       [] OTHER -> TRUE

\* everything derived from <<par, sec>> that emission and the invariants share
Derive(p, s) ==
  IF ~Complete(p, s) THEN [good |-> FALSE, o |-> <<>>, bs |-> <<>>, vs |-> <<>>]
  ELSE LET o == Offs(p, s)
           vs == ViewScanO(p, s, o)
           good == WellFormedO(p, s, o) /\ ProgsOK(p, s, vs)
       IN [good |-> good, o |-> o, bs |-> IF good THEN EncO(p, s, o) ELSE <<>>, vs |-> vs]
NotYet == [good |-> FALSE, o |-> <<>>, bs |-> <<>>, vs |-> <<>>]
Good == dv.good

(* ---------------------------------------------------------------------- *)
(* (C) Reader machine on bytes (offsets 0-based)                           *)
(* ---------------------------------------------------------------------- *)
AllAre(ds, x) == \A i \in DOMAIN ds : ds[i] = x
\* ReadLength (7.4): 0xffffffff escapes to a 64-bit length
ReadLength(bs, off, le) ==
  LET l4 == NormLE(Slice(bs, off + 1, 4), le)
      is64 == AllAre(l4, 255)
  IN [zero |-> AllAre(l4, 0), is64 |-> is64, hdr |-> IF is64 THEN 12 ELSE 4,
      len |-> IF is64 THEN NatOf(NormLE(Slice(bs, off + 5, 8), le)) ELSE NatOf(l4)]
\* ClassifyById: .debug_frame CIE_id = all ones of the format's width; .eh_frame CIE id = 0
ClassifyById(sk, idd) == IF sk = "eh" THEN AllAre(idd, 0) ELSE AllAre(idd, 255)
\* the CIE an FDE designates: .debug_frame: section offset; .eh_frame: distance back from the pointer field
DesignatedCie(sk, ptrfieldoff, ptr) == IF sk = "eh" THEN ptrfieldoff - ptr ELSE ptr

\* raw value of an encoded pointer as 9 sign/zero-extended digits
PtrDec(bs, pos, f, asz, le) ==
  IF FmtLeb(f) THEN LET l == LebAt(bs, pos, f = 9) IN [v |-> LEs(l.v.n, 9), used |-> l.used]
  ELSE LET w == FmtWidth(f, asz)   ds == NormLE(Slice(bs, pos + 1, w), le) IN
       [v |-> IF FmtSigned(f) THEN DSext(ds, 9) ELSE DTrunc(ds, 9), used |-> w]
Pcrel9(p, enc, raw9, fieldoff) == IF EncPcrel(enc) THEN DAdd(raw9, DAdd(DTrunc(p.addr, 9), LEn(fieldoff, 9))) ELSE raw9

\* ReadAug: augmentation data is interpreted letter by letter; an unknown letter stops the interpretation
RECURSIVE ReadAug(_, _, _, _, _, _, _)
ReadAug(bs, aug, i, pos, asz, le, acc) ==
  IF i > Len(aug) THEN acc
  ELSE CASE aug[i] = cR -> ReadAug(bs, aug, i + 1, pos + 1, asz, le, [acc EXCEPT !.fenc = bs[pos + 1]])
         [] aug[i] = cL -> ReadAug(bs, aug, i + 1, pos + 1, asz, le, [acc EXCEPT !.lenc = bs[pos + 1]])
         [] aug[i] = cP -> LET e == bs[pos + 1]   d == PtrDec(bs, pos + 1, EncFmt(e), asz, le) IN
                           ReadAug(bs, aug, i + 1, pos + 1 + d.used, asz, le,
                                   [acc EXCEPT !.penc = e, !.pers = W8(d.v),
                                               !.persv = [v |-> PersDen(asz, e, d.v), cls |-> PersCls(e, d.v)]])
         [] aug[i] = cS -> ReadAug(bs, aug, i + 1, pos, asz, le, acc)
         [] OTHER -> acc

ParseCIE(bs, off, p) ==
  LET rl == ReadLength(bs, off, p.le)
      ow == IF rl.is64 THEN 8 ELSE 4
      end == off + rl.hdr + rl.len
      p0 == off + rl.hdr + ow
      ver == bs[p0 + 1]
      cs == CStrAt(bs, p0 + 1)
      p1 == p0 + 1 + cs.used
      v4 == ver >= 4
      p2 == IF v4 THEN p1 + 2 ELSE p1
      asz == IF v4 THEN bs[p1 + 1] ELSE p.asz          \* DWARF4: the CIE's own address size
      caf == LebAt(bs, p2, FALSE)
      p3 == p2 + caf.used
      daf == LebAt(bs, p3, TRUE)
      p4 == p3 + daf.used
      rar == IF ver = 1 THEN [v |-> N(bs[p4 + 1]), used |-> 1] ELSE LebAt(bs, p4, FALSE)
      p5 == p4 + rar.used
      hasz == HasZ(cs.s)
      al == IF hasz THEN LebAt(bs, p5, FALSE) ELSE [v |-> N(0), used |-> 0]
      p6 == p5 + al.used
      ad == ReadAug(bs, cs.s, 2, p6, asz, p.le, [fenc |-> -1, lenc |-> -1, penc |-> -1, pers |-> W8(LEn(0, 9)), persv |-> NoPers])
      sp == SplitInstrs(bs, p6 + al.v.n, end, asz, p.le)    \* instructions start after the augmentation data
  IN [k |-> "CIE", off |-> off, len |-> rl.len, ver |-> ver, aug |-> cs.s,
      id |-> W(DTrunc(NormLE(Slice(bs, off + rl.hdr + 1, ow), p.le), 8)),
      persabs |-> ~(ad.penc # -1 /\ EncPcrel(ad.penc)),
      asz |-> IF v4 THEN bs[p1 + 1] ELSE -1, seg |-> IF v4 THEN bs[p1 + 2] ELSE -1,
      caf |-> caf.v.n, daf |-> daf.v.n, rar |-> rar.v.n, hasz |-> hasz, augb |-> Slice(bs, p6 + 1, al.v.n),
      fenc |-> ad.fenc, lenc |-> ad.lenc, penc |-> ad.penc, pers |-> ad.pers, persv |-> ad.persv, ins |-> sp.ins, stop |-> sp.stop, end |-> end]

\* ParseFDE with FetchCIE: the CIE is parsed at the designated offset, wherever it lies relative to the FDE
ParseFDE(bs, off, p) ==
  LET rl == ReadLength(bs, off, p.le)
      ow == IF rl.is64 THEN 8 ELSE 4
      end == off + rl.hdr + rl.len
      ptr == NatOf(NormLE(Slice(bs, off + rl.hdr + 1, ow), p.le))
      cieoff == DesignatedCie(p.sk, off + rl.hdr, ptr)
      cie == ParseCIE(bs, cieoff, p)
      asz == IF cie.asz # -1 THEN cie.asz ELSE p.asz
      fenc == IF p.sk = "eh" /\ cie.fenc # -1 THEN cie.fenc ELSE 0
      p0 == off + rl.hdr + ow
      ld == PtrDec(bs, p0, EncFmt(fenc), asz, p.le)
      rd == PtrDec(bs, p0 + ld.used, EncFmt(fenc), asz, p.le)
      p2 == p0 + ld.used + rd.used
      hasz == p.sk = "eh" /\ cie.hasz
      al == IF hasz THEN LebAt(bs, p2, FALSE) ELSE [v |-> N(0), used |-> 0]
      p3 == p2 + al.used
      hasl == p.sk = "eh" /\ cie.lenc # -1
      ls == IF hasl THEN PtrDec(bs, p3, EncFmt(cie.lenc), asz, p.le) ELSE [v |-> LEn(0, 9), used |-> 0]
      sp == SplitInstrs(bs, p3 + al.v.n, end, asz, p.le)
  IN [k |-> "FDE", off |-> off, len |-> rl.len, ptr |-> ptr, cieoff |-> cieoff,
      loc |-> W8(Pcrel9(p, fenc, ld.v, p0)), range |-> W8(rd.v),
      augb |-> Slice(bs, p3 + 1, al.v.n), haslsda |-> hasl,
      lsda |-> IF hasl THEN W8(Pcrel9(p, cie.lenc, ls.v, p3)) ELSE W8(LEn(0, 9)),
      ins |-> sp.ins, stop |-> sp.stop, end |-> end]

ReadEntry(bs, off, p) ==
  LET rl == ReadLength(bs, off, p.le) IN
  IF p.sk = "eh" /\ rl.zero THEN [k |-> "ZERO", off |-> off, stop |-> off + 4, end |-> off + 4]
  ELSE LET ow == IF rl.is64 THEN 8 ELSE 4 IN
       IF ClassifyById(p.sk, Slice(bs, off + rl.hdr + 1, ow)) THEN ParseCIE(bs, off, p) ELSE ParseFDE(bs, off, p)
\* NextEntry: the next entry starts where this one ends
RECURSIVE ScanFrom(_, _, _)
ScanFrom(bs, off, p) == IF off >= Len(bs) THEN <<>>
                        ELSE LET e == ReadEntry(bs, off, p) IN <<e>> \o ScanFrom(bs, e.end, p)
Scan(bs, p) == ScanFrom(bs, 0, p)
\* the other admissible reading of LSB 10.6.1.1 ("processing shall end"): stop after the first terminator
RECURSIVE ScanLsbFrom(_, _, _)
ScanLsbFrom(bs, off, p) == IF off >= Len(bs) THEN <<>>
                           ELSE LET e == ReadEntry(bs, off, p) IN
                                IF e.k = "ZERO" THEN <<e>> ELSE <<e>> \o ScanLsbFrom(bs, e.end, p)
ScanLsb(bs, p) == ScanLsbFrom(bs, 0, p)
Zeros(s) == {i \in 1..Len(s) : s[i].k = "ZERO"}
\* number of records up to and including the first terminator (all of them when there is none)
FirstTerm(s) == IF Zeros(s) = {} THEN Len(s) ELSE Min(Zeros(s))
\* a terminator that is not the last record
MidTerm(s) == Zeros(s) \ {Len(s)} # {}
DropCursor(e) == [f \in (DOMAIN e) \ {"stop", "end"} |-> e[f]]

(* ---------------------------------------------------------------------- *)
(* Alphabets                                                               *)
(* ---------------------------------------------------------------------- *)
Addr0 == LEn(0, 8)
Addr400000 == LEn(4194304, 8)
AddrHi8 == <<0, 0, 0, 0, 255, 127, 0, 0>>           \* 0x7fff00000000
AddrHi4 == <<0, 0, 0, 240, 0, 0, 0, 0>>             \* 0xf0000000
Blk1 == <<119, 8>>                                  \* DW_OP_breg7 8
Blk2 == <<145, 112>>                                \* DW_OP_fbreg -16
BlkLong == Rep(150, 130)                            \* 130 x DW_OP_nop: two-byte block length

\* scan mode: instruction bundles that together use every operand kind
BundleC1 == <<I("DW_CFA_def_cfa", <<N(7), N(8)>>), I("DW_CFA_offset", <<N(16), N(1)>>)>>
BundleC2 == <<IP("DW_CFA_def_cfa", <<N(200), N(8192)>>, 1), I("DW_CFA_offset_extended", <<N(200), N(1)>>),
              I("DW_CFA_val_offset_sf", <<N(3), N(-1)>>), I("DW_CFA_register", <<N(3), N(5)>>),
              I("DW_CFA_expression", <<N(5), B(Blk1)>>), I("DW_CFA_same_value", <<N(6)>>),
              I("DW_CFA_undefined", <<N(8)>>), I("DW_CFA_GNU_args_size", <<N(16)>>), I("DW_CFA_0x2d", <<>>),
              I("DW_CFA_remember_state", <<>>), I("DW_CFA_restore_state", <<>>)>>
BundleF1 == <<I("DW_CFA_advance_loc", <<N(1)>>), I("DW_CFA_def_cfa_offset", <<N(16)>>),
              I("DW_CFA_advance_loc1", <<N(2)>>), I("DW_CFA_offset", <<N(3), N(2)>>),
              I("DW_CFA_advance_loc2", <<N(258)>>), I("DW_CFA_restore", <<N(3)>>),
              I("DW_CFA_advance_loc4", <<W(<<0, 1, 0, 0>>)>>), I("DW_CFA_def_cfa_register", <<N(6)>>)>>
BundleF2(first) == <<first, I("DW_CFA_val_expression", <<N(3), B(Blk1)>>),
              IP("DW_CFA_def_cfa_offset_sf", <<N(-2)>>, 1), I("DW_CFA_offset_extended_sf", <<N(3), N(-3)>>),
              I("DW_CFA_val_offset", <<N(5), N(2)>>), I("DW_CFA_restore_extended", <<N(200)>>),
              I("DW_CFA_remember_state", <<>>), I("DW_CFA_advance_loc", <<N(4)>>),
              I("DW_CFA_def_cfa_expression", <<B(Blk2)>>), I("DW_CFA_restore_state", <<>>), I("DW_CFA_nop", <<>>)>>

ScanParsDebug == {Par("debug", TRUE, 32, 4, Addr0, FALSE), Par("debug", TRUE, 32, 8, Addr0, FALSE),
                  Par("debug", TRUE, 64, 4, Addr0, FALSE), Par("debug", TRUE, 64, 8, Addr0, FALSE),
                  Par("debug", FALSE, 32, 8, Addr0, FALSE)}
ScanParsEh(all) == {Par("eh", TRUE, 32, 8, Addr400000, TRUE), Par("eh", TRUE, 32, 8, Addr0, all),
                    Par("eh", TRUE, 32, 8, AddrHi8, all), Par("eh", TRUE, 32, 4, Addr0, all),
                    Par("eh", TRUE, 32, 4, Addr400000, all), Par("eh", TRUE, 32, 4, AddrHi4, all),
                    Par("eh", FALSE, 32, 8, Addr400000, all)}
ScanParsQuick == ScanParsDebug \cup ScanParsEh(FALSE)
ScanParsThorough == ScanParsDebug \cup {[q EXCEPT !.le = FALSE] : q \in ScanParsDebug} \cup ScanParsEh(TRUE)

PtrRaw(f, asz, cls) ==
  IF FmtLeb(f) THEN (IF cls = "lo" THEN N(4112) ELSE IF f = 9 THEN N(-16) ELSE N(8192))
  ELSE LET w == FmtWidth(f, asz) IN
       IF cls = "lo" THEN W(LEn(4112, w))
       ELSE IF FmtSigned(f) THEN W(LEs(-16, w)) ELSE W([i \in 1..w |-> IF i = w THEN 144 ELSE 0])
RangeRaw(f, asz) == IF FmtLeb(f) THEN N(291) ELSE W(LEn(291, FmtWidth(f, asz)))

Enc18 == {m + f : m \in {0, 16}, f \in {0, 1, 2, 3, 4, 9, 10, 11, 12}}
EhCie(p, ver, aug, fe, le, pe, cd, ins, pad) ==
  Cie(ver, aug, cd[1], cd[2], cd[3], fe, le, pe, PtrRaw(EncFmt(pe), p.asz, "lo"), ins, pad)
CdA == <<1, -8, 16>>
CdB == <<4, -128, 200>>                    \* two-byte SLEB; 200 separates ubyte (v1) from ULEB (v3, v4)
EhCiesFirst(p) ==
  LET E == IF p.sweep THEN Enc18 ELSE {0, 27}
      E1 == IF p.sweep THEN Enc18 ELSE {27} IN
       {EhCie(p, 1, <<cz, cR>>, e, 0, 0, CdA, BundleC1, 0) : e \in E}
  \cup {EhCie(p, 1, <<cz, cP, cL, cR>>, 27, e, 27, CdB, BundleC2, 3) : e \in E1}
  \cup {EhCie(p, 3, <<cz, cP, cR>>, 3, 0, e, CdB, BundleC1, 1) : e \in E1}
  \cup {EhCie(p, 1, <<>>, 0, 0, 0, CdA, BundleC1, 0), EhCie(p, 1, <<cz>>, 0, 0, 0, CdA, BundleC1, 2),
        EhCie(p, 1, <<cz, cS>>, 0, 0, 0, CdA, BundleC1, 0), EhCie(p, 1, <<cz, cL>>, 0, 27, 0, CdA, BundleC1, 0),
        EhCie(p, 1, <<cz, cP>>, 0, 0, 27, CdA, BundleC1, 0), EhCie(p, 1, <<cz, cR, cS>>, 27, 0, 0, CdA, <<>>, 0),
        EhCie(p, 3, <<cz, cP, cL, cR, cS>>, 27, 27, 3, CdB, BundleC1, 0),
        EhCie(p, 1, <<cz, cR, cL, cP>>, 11, 3, 0, CdA, BundleC1, 5),
        EhCie(p, 1, <<cz, cS, cR>>, 16, 0, 0, CdA, BundleC2, 0)}
EhCiesMore(p) == {EhCie(p, 1, <<cz, cP, cL, cR>>, 0, 27, 0, CdB, <<>>, 3)}
\* scanz mode: few record shapes (their variety is scan mode's business), any arrangement of terminators
EhCiesZFirst(p) == {EhCie(p, 1, <<cz, cR>>, 27, 0, 0, CdA, BundleC1, 0),
                    EhCie(p, 1, <<cz, cP, cL, cR>>, 27, 27, 27, CdB, BundleC2, 3),
                    EhCie(p, 1, <<>>, 0, 0, 0, CdA, BundleC1, 0)}
EhCiesZMore(p) == {EhCie(p, 1, <<cz, cR>>, 27, 0, 0, CdB, <<>>, 1)}
ScanParsZ == {Par("eh", TRUE, 32, 8, Addr400000, FALSE), Par("eh", TRUE, 32, 4, Addr0, FALSE),
              Par("eh", FALSE, 32, 8, Addr400000, FALSE)}
\* pers mode (cfg CFI_pers_*): the personality routine pointer of the first CIE ranges over every pointer encoding
\* x the value classes of its format: a value whose byte order shows (0x1234), the extremes of the field (all ones
\* = -1 / largest unsigned, sign bit only = most negative / top bit, largest positive), a negative value whose byte
\* order shows (-0x1234); LEB128: values whose last group has bit 6 set (read differently by the other LEB
\* format) on either side of one- and two-group boundaries.  'R' (and 'L') follow 'P' in the augmentation so
\* that the width consumed by the pointer is checked as well.
PersRaws(f, asz) ==
  IF f = 1 THEN {N(4660), N(64), N(127), N(128), N(8192)}
  ELSE IF f = 9 THEN {N(4660), N(64), N(-1), N(-65), N(-300), N(-4660)}
  ELSE LET w == FmtWidth(f, asz) IN
       {W(LEn(4660, w)), W(Rep(255, w)), W([i \in 1..w |-> IF i = w THEN 128 ELSE 0]),
        W([i \in 1..w |-> IF i = w THEN 127 ELSE 255]), W(LEs(-4660, w))}
EhCiesPers(p) ==
  UNION {       {Cie(1, <<cz, cP, cR>>, 1, -8, 16, 27, 0, e, v, BundleC1, 0) : v \in PersRaws(EncFmt(e), p.asz)}
          \cup {Cie(3, <<cz, cP, cL, cR>>, 4, -128, 200, 3, 27, e, v, BundleC1, 1) : v \in PersRaws(EncFmt(e), p.asz)}
         : e \in Enc18}
PersParsQuick == {Par("eh", TRUE, 32, 8, Addr400000, FALSE), Par("eh", TRUE, 32, 4, Addr400000, FALSE),
                  Par("eh", FALSE, 32, 8, Addr400000, FALSE), Par("eh", FALSE, 32, 4, Addr400000, FALSE)}
PersParsThorough == PersParsQuick \cup ScanParsEh(FALSE) \cup {[q EXCEPT !.le = FALSE] : q \in ScanParsEh(FALSE)}
DebugCies(p) == {Cie(1, <<>>, 1, -8, 16, 0, 0, 0, N(0), BundleC1, 0), Cie(3, <<>>, 4, -128, 200, 0, 0, 0, N(0), BundleC2, 3),
                 Cie(4, <<>>, 1, -8, 16, 0, 0, 0, N(0), <<>>, 0), Cie(4, <<>>, 4, -4, 200, 0, 0, 0, N(0), BundleC1, 1)}
HiLoc(p) == IF p.asz = 4 THEN W(<<0, 240, 255, 255>>) ELSE W(<<0, 16, 0, 0, 255, 127, 0, 0>>)
DebugFde(p, ci, cls) ==
  IF cls = "lo" THEN Fde(ci, W(LEn(4096, p.asz)), W(LEn(291, p.asz)), N(0),
                         BundleF2(I("DW_CFA_set_loc", <<W(LEn(8192, p.asz))>>)), 0)
  ELSE Fde(ci, HiLoc(p), W(LEn(3840, p.asz)), N(0), BundleF1, 2)
EhFde(p, ci, c, cls) ==
  LET fm == EncFmt(EffFenc(c))   lm == EncFmt(c.lenc) IN
  Fde(ci, PtrRaw(fm, p.asz, cls), RangeRaw(fm, p.asz), PtrRaw(lm, p.asz, cls),
      IF cls = "lo" THEN BundleF1 ELSE BundleF2(I("DW_CFA_advance_loc", <<N(5)>>)), IF cls = "lo" THEN 0 ELSE 2)

\* prog / sim mode: the FDE program alphabet
R3 == N(3)
Letters1 ==          \* every opcode x operand classes (programs of length 1)
       {I("DW_CFA_advance_loc", <<N(d)>>) : d \in {0, 1, 63}}
  \cup {I("DW_CFA_advance_loc1", <<N(d)>>) : d \in {0, 1, 255}}
  \cup {I("DW_CFA_advance_loc2", <<N(d)>>) : d \in {1, 32768, 65535}}
  \cup {I("DW_CFA_advance_loc4", <<W(d)>>) : d \in {<<1, 0, 0, 0>>, <<0, 0, 0, 128>>, <<255, 255, 255, 255>>}}
  \cup {I("DW_CFA_set_loc", <<W(d)>>) : d \in {LEn(8192, 8), <<0, 0, 0, 0, 0, 0, 0, 144>>}}
  \cup {I("DW_CFA_offset", <<N(r), N(n)>>) : r \in {0, 3, 63}, n \in {0, 1, 64, 8192}}
  \cup {IP("DW_CFA_offset_extended", <<N(r), N(n)>>, q) : r \in {3, 200}, n \in {1, 64}, q \in {0, 2}}
  \cup {I("DW_CFA_offset_extended_sf", <<N(r), N(n)>>) : r \in {3, 200}, n \in {0, 1, -1, 63, 64, -64, -65}}
  \cup {I("DW_CFA_restore", <<N(r)>>) : r \in {3, 16, 63}}
  \cup {I("DW_CFA_restore_extended", <<N(r)>>) : r \in {3, 16, 200}}
  \cup {I("DW_CFA_undefined", <<N(r)>>) : r \in {3, 200}}
  \cup {I("DW_CFA_same_value", <<N(r)>>) : r \in {3, 200}}
  \cup {I("DW_CFA_register", <<N(3), N(5)>>), I("DW_CFA_register", <<N(200), N(130)>>)}
  \cup {I("DW_CFA_remember_state", <<>>), I("DW_CFA_restore_state", <<>>), I("DW_CFA_nop", <<>>), I("DW_CFA_0x2d", <<>>)}
  \cup {I("DW_CFA_def_cfa", <<N(7), N(8)>>), I("DW_CFA_def_cfa", <<N(200), N(8192)>>)}
  \cup {I("DW_CFA_def_cfa_register", <<N(r)>>) : r \in {6, 200}}
  \cup {I("DW_CFA_def_cfa_offset", <<N(n)>>) : n \in {0, 16, 64, 8192}}
  \cup {I("DW_CFA_def_cfa_expression", <<B(b)>>) : b \in {<<>>, Blk1, BlkLong}}
  \cup {I("DW_CFA_expression", <<N(r), B(Blk1)>>) : r \in {3, 200}}
  \cup {I("DW_CFA_val_expression", <<N(r), B(b)>>) : r \in {3}, b \in {Blk2, BlkLong}}
  \cup {IP("DW_CFA_def_cfa_sf", <<N(7), N(n)>>, q) : n \in {0, 2, -2, 64}, q \in {0, 1}}
  \cup {I("DW_CFA_def_cfa_offset_sf", <<N(n)>>) : n \in {0, 2, -2, 64, -64}}
  \cup {I("DW_CFA_val_offset", <<N(r), N(n)>>) : r \in {3, 200}, n \in {1, 64}}
  \cup {I("DW_CFA_val_offset_sf", <<N(3), N(n)>>) : n \in {1, -1, -65}}
  \cup {I("DW_CFA_GNU_args_size", <<N(n)>>) : n \in {0, 16, 8192}}
Letters3 ==          \* programs of length <= 3 (4 in the thorough tier)
  {I("DW_CFA_advance_loc", <<N(1)>>), I("DW_CFA_advance_loc1", <<N(0)>>), I("DW_CFA_set_loc", <<W(LEn(8192, 8))>>),
   I("DW_CFA_offset", <<N(3), N(1)>>), I("DW_CFA_offset", <<N(16), N(2)>>), I("DW_CFA_offset_extended_sf", <<N(3), N(-2)>>),
   I("DW_CFA_restore", <<N(3)>>), I("DW_CFA_restore", <<N(16)>>), I("DW_CFA_restore_extended", <<N(5)>>),
   I("DW_CFA_undefined", <<N(3)>>), I("DW_CFA_same_value", <<N(16)>>), I("DW_CFA_register", <<N(3), N(5)>>),
   I("DW_CFA_remember_state", <<>>), I("DW_CFA_restore_state", <<>>), I("DW_CFA_def_cfa", <<N(6), N(16)>>),
   I("DW_CFA_def_cfa_register", <<N(6)>>), I("DW_CFA_def_cfa_offset", <<N(24)>>), I("DW_CFA_def_cfa_offset_sf", <<N(-2)>>),
   I("DW_CFA_def_cfa_sf", <<N(7), N(-2)>>), I("DW_CFA_def_cfa_expression", <<B(Blk2)>>),
   I("DW_CFA_expression", <<N(3), B(Blk1)>>), I("DW_CFA_val_offset", <<N(3), N(1)>>),
   I("DW_CFA_val_expression", <<N(16), B(Blk1)>>), I("DW_CFA_nop", <<>>), I("DW_CFA_GNU_args_size", <<N(16)>>)}
Letters4 == {x \in Letters3 : ~(x.op \in {"DW_CFA_nop", "DW_CFA_GNU_args_size", "DW_CFA_val_expression", "DW_CFA_same_value",
                                           "DW_CFA_advance_loc1"})}
LettersSim ==        \* long programs with nested remember/restore
  {I("DW_CFA_advance_loc", <<N(1)>>), I("DW_CFA_advance_loc2", <<N(300)>>), I("DW_CFA_offset", <<N(3), N(1)>>),
   I("DW_CFA_offset", <<N(6), N(2)>>), I("DW_CFA_restore", <<N(3)>>), I("DW_CFA_restore", <<N(6)>>),
   I("DW_CFA_restore_extended", <<N(16)>>), I("DW_CFA_same_value", <<N(3)>>), I("DW_CFA_remember_state", <<>>),
   I("DW_CFA_restore_state", <<>>), I("DW_CFA_def_cfa", <<N(6), N(16)>>), I("DW_CFA_def_cfa_offset", <<N(24)>>),
   I("DW_CFA_def_cfa_offset_sf", <<N(-3)>>), I("DW_CFA_def_cfa_register", <<N(7)>>), I("DW_CFA_def_cfa_expression", <<B(Blk2)>>),
   I("DW_CFA_val_offset_sf", <<N(6), N(-1)>>), I("DW_CFA_register", <<N(16), N(3)>>)}

CieProgs6 == {<<>>,
              <<I("DW_CFA_def_cfa", <<N(7), N(8)>>), I("DW_CFA_offset", <<N(16), N(1)>>)>>,
              <<I("DW_CFA_def_cfa", <<N(7), N(8)>>), I("DW_CFA_offset", <<N(16), N(1)>>), I("DW_CFA_offset", <<N(3), N(2)>>),
                I("DW_CFA_same_value", <<N(6)>>)>>,
              <<I("DW_CFA_def_cfa_expression", <<B(Blk1)>>)>>,
              <<I("DW_CFA_def_cfa_sf", <<N(7), N(-2)>>), I("DW_CFA_register", <<N(3), N(5)>>), I("DW_CFA_val_offset", <<N(16), N(1)>>)>>,
              <<I("DW_CFA_def_cfa", <<N(7), N(8)>>), I("DW_CFA_remember_state", <<>>), I("DW_CFA_offset", <<N(3), N(2)>>),
                I("DW_CFA_restore_state", <<>>), I("DW_CFA_undefined", <<N(16)>>)>>}
CieProgs2 == {<<I("DW_CFA_def_cfa", <<N(7), N(8)>>), I("DW_CFA_offset", <<N(16), N(1)>>), I("DW_CFA_offset", <<N(3), N(2)>>)>>,
              <<I("DW_CFA_def_cfa", <<N(7), N(8)>>)>>}
CieProgs1 == {<<I("DW_CFA_def_cfa", <<N(7), N(8)>>), I("DW_CFA_offset", <<N(16), N(1)>>), I("DW_CFA_offset", <<N(3), N(2)>>)>>}
CafDaf8 == {<<c, d>> : c \in {1, 4}, d \in {-8, -4, 1, 8}}
CafDaf1 == {<<4, -8>>}
CafDaf2 == {<<4, -8>>, <<1, 8>>}
ProgParsDebug == {Par("debug", TRUE, 32, 8, Addr0, FALSE)}
ProgParsBoth == {Par("debug", TRUE, 32, 8, Addr0, FALSE), Par("eh", TRUE, 32, 8, Addr400000, FALSE)}
NoLetters == {}
NoProgs == {}
NoCafDaf == {}

(* ---------------------------------------------------------------------- *)
(* Writer: scan mode adds whole entries; prog/sim mode grows the program   *)
(* of one FDE one instruction at a time, the interpreter state `ist`       *)
(* following it step by step (Exec).                                       *)
(* ---------------------------------------------------------------------- *)
Scanning == Mode \in {"scan", "scanz", "pers"}
NoIst == [st |-> St0(Addr0), rows |-> <<>>, ctx |-> Ctx(1, 1, {}, FALSE, FALSE)]
ProgCie(p, cp, cd) == IF p.sk = "debug" THEN Cie(3, <<>>, cd[1], cd[2], 16, 0, 0, 0, N(0), cp, 0)
                      ELSE Cie(1, <<cz, cR>>, cd[1], cd[2], 16, 0, 0, 0, N(0), cp, 0)
ProgLoc(p) == W(LEn(4096, p.asz))
ProgInit(p, cp, cd) ==
  LET c == ProgCie(p, cp, cd)   cs == CieRun(c, FALSE).st IN
  /\ ProgOK(cp, 1, St0(Addr0), Ctx(cd[1], cd[2], {}, FALSE, FALSE), p.asz)
  /\ sec = <<c, Fde(1, ProgLoc(p), W(LEn(1048576, p.asz)), N(0), <<>>, 0)>>
  /\ ist = [st |-> FdeSt0(cs, DTrunc(ProgLoc(p).d, 8)), rows |-> <<>>, ctx |-> Ctx(cd[1], cd[2], cs.rules, TRUE, FALSE)]

Init == /\ par \in Pars
        /\ IF Scanning THEN sec = <<>> /\ ist = NoIst
           ELSE \E cp \in CieProgs, cd \in CafDaf : ProgInit(par, cp, cd)
        /\ dv = IF Mode = "sim" THEN NotYet ELSE Derive(par, sec)

\* scan: a terminator closes the section; scanz: records (and further terminators) may follow one, and a
\* terminator may come first
Open == IF Mode = "scanz" \/ sec = <<>> THEN TRUE ELSE sec[Len(sec)].k # "ZERO"
CieIxs == {i \in 1..Len(sec) : sec[i].k = "CIE"}
AddCIE(c) == /\ Scanning /\ Len(sec) < MaxEnts /\ Open
             /\ sec' = Append(sec, c) /\ dv' = Derive(par, sec') /\ UNCHANGED <<par, ist>>
AddFDE(f) == /\ Scanning /\ Len(sec) < MaxEnts /\ Open
             /\ sec' = Append(sec, f) /\ dv' = Derive(par, sec') /\ UNCHANGED <<par, ist>>
AddZero == /\ Scanning /\ Mode # "pers" /\ par.sk = "eh" /\ Open
           /\ IF Mode = "scan" THEN Len(sec) >= 1 /\ Len(sec) <= MaxEnts ELSE Len(sec) < MaxEnts
           /\ sec' = Append(sec, Zero) /\ dv' = Derive(par, sec') /\ UNCHANGED <<par, ist>>
AppendIns(l) == /\ Mode \in {"prog", "sim"} /\ Len(sec[2].ins) < MaxProg
                /\ (Mode = "sim" /\ Len(sec[2].ins) = MaxProg - 1) => l.op = "DW_CFA_nop"
                /\ Pre(ist.st, l, ist.ctx, par.asz)
                /\ sec' = [sec EXCEPT ![2].ins = Append(@, l)]
                /\ ist' = [ist EXCEPT !.st = Exec(ist.st, l, ist.ctx),
                                      !.rows = StepRows([st |-> ist.st, rows |-> ist.rows], l, ist.ctx).rows]
                \* sim mode: only complete programs are cases; do not derive views of the intermediate ones
                /\ dv' = IF Mode = "sim" /\ Len(sec'[2].ins) < MaxProg THEN NotYet ELSE Derive(par, sec')
                /\ UNCHANGED par
SimLetters == IF Mode = "sim" THEN Letters \cup {I("DW_CFA_nop", <<>>)} ELSE Letters

Next ==
  \/ \E c \in (IF par.sk = "debug" THEN DebugCies(par)
               ELSE IF Mode = "pers" THEN (IF CieIxs = {} THEN EhCiesPers(par) ELSE {})
               ELSE IF Mode = "scanz" THEN (IF CieIxs = {} THEN EhCiesZFirst(par) ELSE EhCiesZMore(par))
               ELSE IF CieIxs = {} THEN EhCiesFirst(par) ELSE EhCiesMore(par)) : AddCIE(c)
  \/ /\ par.sk = "debug"
     /\ \E ci \in 1..MaxEnts, cls \in {"lo", "hi"} :
           /\ ci # Len(sec) + 1 /\ (ci <= Len(sec) => sec[ci].k = "CIE")
           /\ AddFDE(DebugFde(par, ci, cls))
  \/ /\ par.sk = "eh"
     /\ \E ci \in CieIxs, cls \in (IF Mode = "pers" THEN {"hi"} ELSE {"lo", "hi"}) : AddFDE(EhFde(par, ci, sec[ci], cls))
  \/ AddZero
  \/ \E l \in SimLetters : AppendIns(l)
Spec == Init /\ [][Next]_vars

(* ---------------------------------------------------------------------- *)
(* Emission                                                                *)
(* ---------------------------------------------------------------------- *)
ArgJ(v) == IF IsBlock(v) THEN <<1, v.b>> ELSE IF IsSmall(v) THEN v.n ELSE <<0, v.d>>
InsJ(iv) == <<iv.byte, [j \in 1..Len(iv.a) |-> ArgJ(iv.a[j])]>>
EntJ(e) == IF e.k = "ZERO" THEN e ELSE [e EXCEPT !.ins = [j \in 1..Len(e.ins) |-> InsJ(e.ins[j])]]
HasOp(e, ops) == \E j \in 1..Len(e.ins) : e.ins[j].op \in ops
FinalSt(s, i) == IF s[i].k = "CIE" THEN CieRun(s[i], FALSE).st
                 ELSE FdeRun(s[s[i].cie], s[i], Addr0, FALSE).st
\* spec-computed input classes used to tag disagreements (one tag per known deviation)
Flags(p, s) ==
     (IF p.sk = "debug" /\ p.fmt = 64 THEN {"debug64"} ELSE {})
  \cup (IF p.sk = "eh" /\ \E i \in 1..Len(s) : s[i].k = "FDE" /\ ~HasZ(s[s[i].cie].aug) THEN {"eh_noz"} ELSE {})
  \cup (IF p.sk = "eh" /\ \E i \in 1..Len(s) : s[i].k = "FDE" /\ HasZ(s[s[i].cie].aug) /\ ~Has(s[s[i].cie].aug, cR)
        THEN {"eh_noR"} ELSE {})
  \cup (IF \E i \in 1..Len(s) : s[i].k = "FDE" /\ HasOp(s[i], RestoreOps)
                                /\ LET cs == CieRun(s[s[i].cie], FALSE).st IN cs.cfa.k # "regoff" /\ cs.rules = {}
        THEN {"restore_without_initial_rules"} ELSE {})
  \cup (IF \E i \in 1..Len(s) : s[i].k # "ZERO" /\ LET fs == FinalSt(s, i) IN fs.cfa.k = "expr" /\ fs.rules = {}
        THEN {"cfa_expression_only"} ELSE {})
  \cup (IF \E i \in 1..Len(s) : s[i].k # "ZERO" /\ HasOp(s[i], {"DW_CFA_def_cfa_sf"}) THEN {"def_cfa_sf"} ELSE {})
  \cup (IF MidTerm(s) THEN {"mid_terminator"} ELSE {})
Case ==
  LET bs == dv.bs
      vs == dv.vs
      tabs == ViewTables(par, sec, vs, FALSE)
      fl == Flags(par, sec)
      alt == IF "def_cfa_sf" \in fl THEN ViewTables(par, sec, vs, TRUE) ELSE <<>>
  IN [m |-> Mode, sk |-> par.sk, le |-> par.le, fmt |-> par.fmt, asz |-> par.asz, addr |-> W(par.addr),
      bytes |-> bs, ents |-> [i \in 1..Len(vs) |-> EntJ(vs[i])], tabs |-> tabs,
      alt |-> IF alt = tabs THEN <<>> ELSE alt, flags |-> fl,
      \* set-valued expectation (module header): 0, or the number of records up to and including the first
      \* terminator when records follow it - a reader may report exactly that prefix instead of all of `ents`
      term |-> IF MidTerm(sec) THEN FirstTerm(sec) ELSE 0]
\* scanz emits only what scan mode does not reach
Emit == (Good /\ (Mode = "sim" => Len(sec[2].ins) = MaxProg) /\ (Mode = "scanz" => MidTerm(sec))) => CSVWrite("%1$s", <<ToJson(Case)>>, IOEnv.OUT)

(* ---------------------------------------------------------------------- *)
(* Invariants.  The named properties take the shared intermediate values   *)
(* (offsets o, bytes bs, reader result sc, view vs, programs) as           *)
(* parameters so that one evaluation per state serves all of them          *)
(* (TLC does not memoise); `Named` prints which one failed.                *)
(* ---------------------------------------------------------------------- *)
Named(name, ok) == IF ok THEN TRUE ELSE PrintT(<<"INVARIANT VIOLATED", name>>) /\ FALSE
\* the operational reader recovers the declarative view, entry by entry
ReaderEqView(vs, sc) ==
  /\ Len(sc) = Len(vs)
  /\ \A i \in 1..Len(vs) : DropCursor(sc[i]) = vs[i]
\* kinds and offsets in section order; entries tile the section
EntriesInOrder(o, bs, sc) ==
  /\ Len(sc) = Len(sec)
  /\ \A i \in 1..Len(sec) : sc[i].k = sec[i].k /\ sc[i].off = o[i] /\ sc[i].end = o[i + 1]
  /\ o[Len(sec) + 1] = Len(bs)
\* each FDE is linked to the CIE its pointer designates (also when the CIE comes later)
FDELinkedToDesignatedCIE(o, bs, sc) ==
  \A i \in 1..Len(sec) : sec[i].k = "FDE" =>
     /\ sc[i].cieoff = o[sec[i].cie]
     /\ ReadEntry(bs, sc[i].cieoff, par).k = "CIE"
     /\ DropCursor(ParseCIE(bs, sc[i].cieoff, par)) = dv.vs[sec[i].cie]
\* the reader that ends processing at the first terminator reports exactly the view's records up to and
\* including that terminator; every FDE among them designates a CIE among them
TerminatorPrefix(vs, bs) ==
  LET sl == ScanLsb(bs, par)   n == FirstTerm(sec) IN
  /\ Len(sl) = n
  /\ \A i \in 1..n : DropCursor(sl[i]) = vs[i]
  /\ \A i \in 1..n : sec[i].k = "FDE" => sec[i].cie < n
  /\ (Zeros(sec) # {} => sl[n].k = "ZERO" /\ \A i \in 1..(n - 1) : sl[i].k # "ZERO")
\* Dec(Enc(instrs)) = instrs, and the cursor stops exactly at the entry end
SplitExact(sc) ==
  \A i \in 1..Len(sec) : sec[i].k # "ZERO" =>
     /\ sc[i].stop = sc[i].end
     /\ LET bs == InsEncAll(sec[i].ins, par.asz, par.le) \o Rep(0, sec[i].pad)
            sp == SplitInstrs(bs, 0, Len(bs), par.asz, par.le)
        IN sp.stop = Len(bs) /\ sp.ins = InsListView(sec[i])
\* Personality routine pointer: for every 'P' CIE of the section, decoding the encoded pointer consumes exactly
\* the encoded bytes and recovers the stored value (decode(encode(v)) = v); re-encoding the decoded value gives the
\* same bytes; the value is negative exactly when the format is signed and the sign bit of the stored field (of
\* the last LEB group) is set; the signed number is among the admissible reports exactly then, and every
\* admissible report designates the same address of the address space.
PersRoundTrip ==
  \A i \in 1..Len(sec) : (sec[i].k = "CIE" /\ Has(sec[i].aug, cP)) =>
     LET c == sec[i]   f == EncFmt(c.penc)
         bs == PtrEnc(par, f, c.pers)
         d == PtrDec(bs, 0, f, par.asz, par.le)
         back == IF FmtLeb(f) THEN N(GroupsInt(LebDec(bs, f = 9).val.g, f = 9)) ELSE W(DTrunc(d.v, FmtWidth(f, par.asz)))
         signbit == IF FmtLeb(f) THEN bs[Len(bs)] >= 64 ELSE (IF par.le THEN bs[Len(bs)] ELSE bs[1]) >= 128
         den == PersDen(par.asz, c.penc, d.v)
     IN /\ d.used = Len(bs)
        /\ d.v = Ext9(c.pers, FmtSigned(f))
        /\ PtrEnc(par, f, back) = bs
        /\ PersNeg(c.penc, d.v) = (FmtSigned(f) /\ signbit)
        /\ d.v[9] \in {0, 255} /\ (~FmtSigned(f) => d.v[9] = 0)
        /\ (WS(DTrunc(d.v, 8)) \in den) = PersNeg(c.penc, d.v)
        /\ \A x \in den : DTrunc(x.d, par.asz) = DTrunc(d.v, par.asz)
\* programs of the section with their start state and context
Progs(vs) ==
  {IF sec[i].k = "CIE" THEN <<sec[i].ins, St0(Addr0), Ctx(sec[i].caf, sec[i].daf, {}, FALSE, FALSE)>>
   ELSE LET c == sec[sec[i].cie]   cs == CieRun(c, FALSE).st IN
        <<sec[i].ins, FdeSt0(cs, vs[i].loc.d), Ctx(c.caf, c.daf, cs.rules, TRUE, FALSE)>>
   : i \in {j \in 1..Len(sec) : sec[j].k # "ZERO"}}
\* restore_state re-installs the CFA and register rules in force at the matching remember_state and
\* leaves the location alone
StackDiscipline(prog, ss) ==
  \A i \in 1..Len(prog) : prog[i].op = "DW_CFA_restore_state" =>
     LET M == {j \in 1..(i - 1) : prog[j].op = "DW_CFA_remember_state" /\ Len(ss[j].stack) = Len(ss[i + 1].stack)} IN
     /\ M # {}
     /\ LET j == Max(M) IN /\ ss[i + 1].cfa = ss[j].cfa /\ ss[i + 1].rules = ss[j].rules
                           /\ ss[i + 1].stack = ss[j].stack /\ ss[i + 1].loc = ss[i].loc
\* DW_CFA_restore(_extended): the register gets the CIE's initial rule, or none; nothing else changes
RestoreUsesInitial(prog, ss, ctx) ==
  \A i \in 1..Len(prog) : prog[i].op \in RestoreOps =>
     LET r == prog[i].a[1].n IN
     /\ RuleOf(ss[i + 1].rules, r) = RuleOf(ctx.init, r)
     /\ DelRule(ss[i + 1].rules, r) = DelRule(ss[i].rules, r)
     /\ ss[i + 1].cfa = ss[i].cfa /\ ss[i + 1].loc = ss[i].loc /\ ss[i + 1].stack = ss[i].stack
\* rows are created at strictly increasing locations, so the table is a function of the location;
\* only location instructions move the location, by delta * code alignment factor
TableMonotone(prog, ss, ctx) ==
  /\ LET t == Table(RunProg(prog, ss[1], ctx)) IN \A j \in 1..(Len(t) - 1) : DLt(t[j].loc, t[j + 1].loc)
  /\ \A i \in 1..Len(prog) : prog[i].op \notin LocOps => ss[i + 1].loc = ss[i].loc
\* the step-by-step interpreter state equals the batch run of the whole program
IncrementalEqBatch ==
  Mode \in {"prog", "sim"} =>
     LET r == FdeRun(sec[1], sec[2], DTrunc(sec[2].loc.d, 8), FALSE) IN r.st = ist.st /\ r.rows = ist.rows

ScanInvariants ==
  Good => LET o == dv.o   bs == dv.bs   vs == dv.vs   sc == Scan(bs, par) IN
          /\ Named("ReaderEqView", ReaderEqView(vs, sc))
          /\ Named("EntriesInOrder", EntriesInOrder(o, bs, sc))
          /\ Named("FDELinkedToDesignatedCIE", FDELinkedToDesignatedCIE(o, bs, sc))
          /\ Named("SplitExact", SplitExact(sc))
          /\ Named("PersRoundTrip", PersRoundTrip)
          /\ Named("TerminatorPrefix", par.sk = "eh" => TerminatorPrefix(vs, bs))
InterpInvariants ==
  Good => /\ \A pr \in Progs(dv.vs) :
               LET ss == StatesFrom(pr[1], 1, pr[2], pr[3]) IN
               /\ Named("StackDiscipline", StackDiscipline(pr[1], ss))
               /\ Named("RestoreUsesInitial", RestoreUsesInitial(pr[1], ss, pr[3]))
               /\ Named("TableMonotone", TableMonotone(pr[1], ss, pr[3]))
          /\ Named("IncrementalEqBatch", IncrementalEqBatch)
=============================================================================
