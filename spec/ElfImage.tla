------------------------------ MODULE ElfImage ------------------------------
(***************************************************************************)
(* C01 - ELF file, section and program headers are decoded exactly.         *)
(*                                                                         *)
(* The environment is an abstract writer: it chooses class, byte order and  *)
(* machine, then adds sections and segments one action at a time, sets      *)
(* placement options, and finishes.  Every finished image is emitted with   *)
(* its bytes (Elf!Chunks) and with the view a correct reader must report    *)
(* (Elf!View).  `Mode` selects which part of the quantifier a configuration *)
(* explores (see the cfg files); sweeps enumerate one image per code.       *)
(*                                                                         *)
(* Checked by TLC on the specification itself: chunks never overlap, the    *)
(* gABI reader procedure for counts and the name-table index (extended      *)
(* numbering escapes included) recovers what the writer meant, header       *)
(* tables tile, every section name is a string of the name table, and       *)
(* lookup by name agrees with enumeration.                                  *)
(*                                                                         *)
(* Machine-scoped names (Elf!Scoped): an aliased code means what the        *)
(* machine at hand says it means.  EI_OSABI codes 64..255 are architecture  *)
(* specific (gABI): on EM_ARM 64 is ELFOSABI_ARM_AEABI and nothing else, on  *)
(* EM_AMDGPU ELFOSABI_AMDGPU_HSA, on EM_TI_C6000 ELFOSABI_C6000_ELFABI; on a *)
(* machine that owns no name of the code every registered name (or the raw  *)
(* integer) stays admissible - a flat OS ABI table is not faulted there.    *)
(* The sweep crosses OS ABI codes with machines; sh_type/p_type codes that a *)
(* processor names are scoped the same way against the generic LOPROC       *)
(* marker.  `scope` in the emitted case carries the scoped sets; TLC checks  *)
(* ScopeSound and the overlay table against the registry (ASSUME).          *)
(* Extended numbering: section counts 0xfeff, 0xff00, 0xff01, 0x10000,      *)
(* 0x10001, 70003 - real headers AT the reserved indices 0xff00..0xffff     *)
(* (name table at 0xff00 / 0xffff / 0x10000); `probes` names the filler     *)
(* indices around the reserved range every reader must still resolve.       *)
(***************************************************************************)
EXTENDS Elf, TLC, Json, CSV, IOUtils

CONSTANTS Modes        \* subset of {"sections", "pairs", "segments", "placement", "nosht", "sweep", "xnum"}

VARIABLES Mode, im, done, tag
vars == <<Mode, im, done, tag>>
MaxSecs == IF Mode = "pairs" THEN 2 ELSE IF Mode = "triples" THEN 3 ELSE 1
MaxSegs == IF Mode = "segments3" THEN 3 ELSE 2
AllModes == {"sections", "pairs", "segments", "placement", "nosht", "sweep", "xnum"}
\* thorough tier: every sequence of up to three section kinds / three segment kinds as well
AllModesDeep == AllModes \cup {"triples", "segments3"}

ClsLe == {<<32, TRUE>>, <<32, FALSE>>, <<64, TRUE>>, <<64, FALSE>>}
AllMachines == {Code("EM_386"), Code("EM_X86_64"), Code("EM_ARM"), Code("EM_AARCH64"), Code("EM_MIPS"),
                Code("EM_RISCV"), Code("EM_PPC64"), Code("EM_S390"), 4660}      \* 4660: unassigned code

TwoMachines == {Code("EM_X86_64"), Code("EM_ARM")}

Str(s) == s   \* byte strings are written as tuples below
DotText == <<46, 116, 101, 120, 116>>
DotData == <<46, 100, 97, 116, 97>>
DotBss == <<46, 98, 115, 115>>
DotSymtab == <<46, 115, 121, 109, 116, 97, 98>>
DotNote == <<46, 110, 111, 116, 101>>
DotStrtab == <<46, 115, 116, 114, 116, 97, 98>>
DotRela == <<46, 114, 101, 108, 97, 46, 116, 101, 120, 116>>
DotAttr == <<46, 65, 82, 77, 46, 97, 116, 116, 114, 105, 98, 117, 116, 101, 115>>
DotStab == <<46, 115, 116, 97, 98>>
DotDyn == <<46, 100, 121, 110, 97, 109, 105, 99>>
Utf8 == <<46, 195, 169, 226, 130, 172>>                \* ".é€" - a non-ASCII section name

W32(a, b, c, d) == W(<<a, b, c, d>>)
\* an address that needs all the bits its class has
BigAddr(cls) == IF cls = 32 THEN W(<<0, 16, 0, 128>>) ELSE W(<<0, 16, 0, 0, 1, 0, 0, 128>>)
BigFlags(cls) == IF cls = 32 THEN W(<<6, 0, 0, 128>>) ELSE W(<<6, 0, 0, 128, 0, 0, 0, 16>>)
SymSize(cls) == IF cls = 32 THEN 16 ELSE 24

\* section kinds the writer can add; `strix` is the index the name table will have
SecKinds == {"text", "bss", "proc", "unknown", "symtab", "note", "strtab", "rela", "rel", "relr", "attrs", "stab", "dynamic", "utf8"}
MkSec(kind, cls, strix) ==
  CASE kind = "text" -> Sec(DotText, N(1), N(6), BigAddr(cls), <<144, 144, 144, 195>>, N(4), Z, Z, N(16), Z)
    [] kind = "bss" -> Sec(DotBss, N(8), N(3), N(8192), <<>>, N(70000), Z, Z, N(32), Z)
    [] kind = "proc" -> Sec(DotText, W32(1, 0, 0, 112), BigFlags(cls), Z, <<>>, Z, N(1), Z, N(4), Z)
    [] kind = "unknown" -> Sec(DotData, W32(120, 86, 52, 18), Z, N(1), <<1>>, N(1), W32(255, 255, 255, 255), W32(0, 0, 0, 128), N(1), N(1))
    [] kind = "symtab" -> Sec(DotSymtab, N(2), Z, Z, Rep(0, SymSize(cls)), N(SymSize(cls)), N(strix), N(1), N(8), N(SymSize(cls)))
    [] kind = "note" -> Sec(DotNote, N(7), N(2), N(512), <<>>, Z, Z, Z, N(4), Z)
    [] kind = "strtab" -> Sec(DotStrtab, N(3), Z, Z, <<0>>, N(1), Z, Z, N(1), Z)
    [] kind = "rela" -> Sec(DotRela, N(4), N(64), Z, <<>>, Z, N(strix), N(1), N(8), N(IF cls = 32 THEN 12 ELSE 24))
    [] kind = "rel" -> Sec(DotRela, N(9), N(64), Z, <<>>, Z, N(strix), N(1), N(4), N(IF cls = 32 THEN 8 ELSE 16))
    [] kind = "relr" -> Sec(DotData, N(19), N(2), Z, <<>>, Z, Z, Z, N(8), N(cls \div 8))
    [] kind = "attrs" -> Sec(DotAttr, W32(3, 0, 0, 112), Z, Z, <<65>>, N(1), Z, Z, N(1), Z)
    [] kind = "stab" -> Sec(DotStab, N(1), Z, Z, <<>>, Z, Z, Z, N(4), N(12))
    [] kind = "dynamic" -> Sec(DotDyn, N(6), N(3), N(4096), <<>>, Z, N(strix), Z, N(8), N(IF cls = 32 THEN 8 ELSE 16))
    [] kind = "utf8" -> Sec(Utf8, N(1), Z, Z, <<>>, Z, Z, Z, Z, Z)

SegKinds == {"load", "interp", "note", "proc", "gnu", "big"}
MkSeg(kind, cls) ==
  CASE kind = "load" -> Seg(N(1), N(5), N(0), N(4194304), N(4194304), N(1000), N(2000), N(4096))
    [] kind = "interp" -> Seg(N(3), N(4), N(64), N(64), N(64), N(0), N(0), N(1))
    [] kind = "note" -> Seg(N(4), N(4), N(64), N(64), Z, Z, Z, N(4))
    [] kind = "proc" -> Seg(W32(1, 0, 0, 112), W32(0, 0, 0, 240), Z, BigAddr(cls), BigAddr(cls), N(1), N(1), Z)
    [] kind = "gnu" -> Seg(W32(81, 229, 116, 100), N(6), Z, Z, Z, Z, Z, N(16))
    [] kind = "big" -> Seg(W32(255, 255, 255, 255), W32(255, 255, 255, 255), BigAddr(cls), BigAddr(cls), BigAddr(cls),
                           BigAddr(cls), BigAddr(cls), BigAddr(cls))

Base(cl, m) == [Im0 EXCEPT !.cls = cl[1], !.le = cl[2], !.machine = m]

(* ------------------------------- sweeps -------------------------------- *)
\* one image per code of each enumerated header field
RegCodes(fam) == {Reg[n] : n \in fam}                       \* digit strings
Boundary32 == {<<0>>, <<1>>, <<255, 255, 255, 95>>, <<0, 0, 0, 96>>, <<255, 255, 255, 111>>, <<0, 0, 0, 112>>, <<2, 0, 0, 112>>,
               <<255, 255, 255, 127>>, <<0, 0, 0, 128>>, <<255, 255, 255, 255>>, <<20>>, <<13>>, <<120, 86, 52, 18>>}
OneSec(t) == Sec(DotData, t, Z, Z, <<>>, Z, Z, Z, Z, Z)
OneSeg(t) == Seg(t, Z, Z, Z, Z, Z, Z, Z)
PlainType(d) == ~(\E n \in {"SHT_STRTAB", "SHT_SYMTAB", "SHT_DYNSYM", "SHT_SUNW_LDYNSYM", "SHT_SYMTAB_SHNDX", "SHT_SUNW_syminfo",
                             "SHT_GNU_verneed", "SHT_GNU_verdef", "SHT_GNU_versym", "SHT_DYNAMIC", "SHT_HASH", "SHT_GNU_HASH",
                             "SHT_ARM_ATTRIBUTES", "SHT_REL", "SHT_RELA", "SHT_RELR"} : Reg[n] = d)
AllShtNames == UNION {RegFam["SHT"][f] : f \in DOMAIN RegFam["SHT"]}
AllPtNames == UNION {RegFam["PT"][f] : f \in DOMAIN RegFam["PT"]}
SweepMachines == {Code("EM_X86_64"), Code("EM_ARM"), Code("EM_AARCH64"), Code("EM_MIPS"), Code("EM_RISCV"), Code("EM_386")}
NumVals(cls) == {Z, N(1), W(<<0, 0, 0, 128>>), W(<<255, 255, 255, 255>>)} \cup
                (IF cls = 64 THEN {W(<<0, 0, 0, 0, 0, 0, 0, 128>>), W(<<255, 255, 255, 255, 255, 255, 255, 255>>)} ELSE {})
OsabiMachines == {OsabiOverlay[i][1] : i \in 1..Len(OsabiOverlay)} \cup {Code("EM_386"), Code("EM_X86_64"), Code("EM_AARCH64"), Code("EM_MIPS"), 4660}
OsabiCodes == {o \in {NatOf(d) : d \in RegCodes(Fam("ELFOSABI", "BASE"))} : o >= 64} \cup {67, 96, 98, 200, 254} \cup {0, 3, 9}
SweepSet ==
  \* e_machine: every registry machine (values fit a half)
  {<<"e_machine", [Base(<<64, TRUE>>, NatOf(d)) EXCEPT !.secs = <<OneSec(N(1))>>]>> : d \in RegCodes(Fam("EM", "BASE"))}
  \cup {<<"e_machine", [Base(<<32, FALSE>>, m) EXCEPT !.secs = <<OneSec(N(1))>>]>> : m \in {0, 255, 65535, 4660}}
  \* OS ABI and ABI version
  \cup {<<"osabi", [Base(<<32, TRUE>>, 3) EXCEPT !.osabi = o, !.abiver = (o * 7) % 256]>> : o \in {NatOf(d) : d \in RegCodes(Fam("ELFOSABI", "BASE"))} \cup {5, 200}}
  \* OS ABI x machine: codes of the architecture-specific range 64..255 (every registry code there, neighbours, unassigned ones; three
  \* generic codes as controls) under the machines that own names there, machines that own none, and an unassigned machine code
  \cup {<<"osabi", [Base(cl, m) EXCEPT !.osabi = o, !.abiver = (o * 3) % 256]>> : cl \in ClsLe, m \in OsabiMachines, o \in OsabiCodes}
  \* e_type incl. OS/processor ranges and unassigned codes
  \cup {<<"e_type", [Base(cl, 62) EXCEPT !.etype = N(t)]>> : cl \in ClsLe, t \in {0, 1, 2, 3, 4, 5, 65024, 65279, 65280, 65535, 4660}}
  \* e_version / entry / flags
  \cup {<<"e_misc", [Base(cl, 40) EXCEPT !.eversion = v, !.eflags = W32(2, 2, 0, 5), !.entry = BigAddr(cl[1])]>> :
           cl \in ClsLe, v \in {Z, N(1), N(2), W32(255, 255, 255, 255)}}
  \* sh_type: every registry code of the machine's overlay, plus range boundaries and unassigned codes
  \* (the codes of EVERY machine's overlay under each machine: a code another processor names is a raw integer here)
  \cup UNION {{<<"sh_type", [Base(<<64, TRUE>>, m) EXCEPT !.secs = <<OneSec(W(DTrunc(d, 4)))>>]>> :
                  d \in {x \in RegCodes(AllShtNames) \cup Boundary32 : PlainType(x)}} : m \in SweepMachines}
  \cup UNION {{<<"sh_type", [Base(<<32, FALSE>>, m) EXCEPT !.secs = <<OneSec(W(DTrunc(d, 4)))>>]>> :
                  d \in {x \in RegCodes(ShtNames(m)) : PlainType(x)}} : m \in {Code("EM_ARM"), Code("EM_MIPS")}}
  \* section types that call for a specialised object and are not among the writer's section kinds: minimal valid content (zeros: one
  \* null symbol / an empty hash table), under several OS ABIs (the type names do not depend on the OS ABI)
  \* (user section 1 is a dynamic symbol table; the special section links to it)
  \cup {<<"sh_special", [Base(cl, m) EXCEPT !.osabi = o, !.secs = <<Sec(DotSymtab, N(11), N(2), Z, Rep(0, SymSize(cl[1])), N(SymSize(cl[1])),
                                                                        N(3), N(1), N(8), N(SymSize(cl[1]))),   \* link: the name table, index 3
                                                                    Sec(DotData, W(DTrunc(Reg[n], 4)), N(2), Z, Rep(0, SymSize(cl[1])),
                                                                        N(SymSize(cl[1])),
                                                                        IF n \in {"SHT_DYNSYM", "SHT_SUNW_LDYNSYM", "SHT_GNU_verneed", "SHT_GNU_verdef"} THEN N(3) ELSE N(1),
                                                                        Z, N(8), N(SymSize(cl[1])))>>]>> :
           cl \in {<<32, FALSE>>, <<64, TRUE>>}, m \in {62, 40}, o \in {0, 3, 6, 9},
           n \in {"SHT_DYNSYM", "SHT_SUNW_LDYNSYM", "SHT_SYMTAB_SHNDX", "SHT_SUNW_syminfo", "SHT_GNU_verneed", "SHT_GNU_verdef", "SHT_GNU_versym",
                  "SHT_HASH", "SHT_GNU_HASH"}}
  \* the stabs section is recognised by name AND type (SHT_PROGBITS): the name under other types, other names under the type
  \cup {<<"stab_name", [Base(cl, 62) EXCEPT !.secs = <<Sec(nm, t, Z, Z, Rep(0, 12), N(12), Z, Z, N(4), N(12))>>]>> :
           cl \in {<<32, TRUE>>, <<64, FALSE>>}, nm \in {DotStab, DotStab \o <<50>>, <<46, 115, 116, 97>>},
           t \in {N(1), N(8), N(14), N(7), W32(52, 18, 255, 111)}}
  \* p_type likewise
  \cup UNION {{<<"p_type", [Base(<<64, FALSE>>, m) EXCEPT !.segs = <<OneSeg(W(DTrunc(d, 4)))>>]>> :
                  d \in RegCodes(AllPtNames) \cup Boundary32} : m \in SweepMachines}
  \cup UNION {{<<"p_type", [Base(<<32, TRUE>>, m) EXCEPT !.segs = <<OneSeg(W(DTrunc(d, 4)))>>]>> :
                  d \in RegCodes(PtNames(m))} : m \in {Code("EM_ARM"), Code("EM_AARCH64")}}
  \* every numeric section-header field at its boundary values (one field at a time)
  \cup UNION {{<<"sh_field", [Base(cl, 62) EXCEPT !.secs = <<[OneSec(N(1)) EXCEPT ![f] = v]>>]>> :
                  f \in {"addr", "align", "entsize"}, v \in NumVals(cl[1])} : cl \in ClsLe}
  \cup {<<"sh_field", [Base(cl, 62) EXCEPT !.secs = <<[OneSec(N(1)) EXCEPT ![f] = v]>>]>> :
           cl \in ClsLe, f \in {"link", "info"}, v \in NumVals(32)}
  \cup UNION {{<<"sh_field", [Base(cl, 62) EXCEPT !.secs = <<[OneSec(N(8)) EXCEPT !.size = v]>>]>> :
                  v \in NumVals(cl[1])} : cl \in ClsLe}                                         \* NOBITS: any sh_size
  \cup {<<"sh_field", [Base(cl, 62) EXCEPT !.secs = <<[OneSec(N(1)) EXCEPT !.flags = v]>>]>> :
           cl \in ClsLe, v \in {N(1), N(2), N(4), N(16), N(32), N(64), N(128), N(256), N(512), N(1024), W32(0, 0, 0, 128), W32(0, 0, 240, 15),
                                W32(255, 247, 255, 255)}}                              \* every flag but SHF_COMPRESSED
  \* every numeric program-header field
  \cup UNION {{<<"p_field", [Base(cl, 62) EXCEPT !.segs = <<[OneSeg(N(1)) EXCEPT ![f] = v]>>]>> :
                  f \in {"offset", "vaddr", "paddr", "filesz", "memsz", "align"}, v \in NumVals(cl[1])} : cl \in ClsLe}
  \cup {<<"p_field", [Base(cl, 62) EXCEPT !.segs = <<[OneSeg(N(1)) EXCEPT !.flags = v]>>]>> :
           cl \in ClsLe, v \in NumVals(32) \cup {N(7), W32(0, 0, 240, 15), W32(0, 0, 0, 240)}}

(* -------------------------- extended numbering ------------------------- *)
XnumSet ==
  {<<"xnum", x>> : x \in
    { [Base(<<32, TRUE>>, 3) EXCEPT !.secs = <<MkSec("text", 32, 0)>>, !.nfill = 65277],                  \* 0xff00 sections: shnum escape, shstrndx 0xfeff+? (last)
      [Base(<<64, FALSE>>, 62) EXCEPT !.secs = <<MkSec("text", 64, 0)>>, !.nfill = 65276],                 \* 0xfeff sections: no escape
      [Base(<<64, TRUE>>, 183) EXCEPT !.secs = <<MkSec("bss", 64, 0)>>, !.nfill = 65277, !.strfirst = TRUE], \* shnum escape only (name table at index 1)
      [Base(<<32, FALSE>>, 8) EXCEPT !.secs = <<MkSec("text", 32, 0)>>, !.nfill = 70000, !.shextra = 8],
      \* more than 0xff00 sections: real headers at the reserved indices SHN_LORESERVE..SHN_HIRESERVE and above
      [Base(<<32, FALSE>>, 40) EXCEPT !.secs = <<MkSec("bss", 32, 0)>>, !.nfill = 65278],                   \* 0xff01 sections, name table AT 0xff00 (SHN_LORESERVE)
      [Base(<<64, TRUE>>, 62) EXCEPT !.secs = <<MkSec("text", 64, 0)>>, !.nfill = 65533],                   \* 0x10000 sections, name table at 0xffff (= SHN_XINDEX itself)
      [Base(<<32, TRUE>>, 3) EXCEPT !.secs = <<MkSec("note", 32, 0)>>, !.nfill = 65534],                    \* 0x10001 sections, name table at 0x10000
      [Base(<<64, TRUE>>, 62) EXCEPT !.segs = <<MkSeg("load", 64)>>, !.pfill = 65534],                     \* 0xffff segments: PN_XNUM
      [Base(<<32, TRUE>>, 40) EXCEPT !.segs = <<MkSeg("load", 32)>>, !.pfill = 65533],                     \* 0xfffe segments: no escape
      [Base(<<32, FALSE>>, 3) EXCEPT !.segs = <<MkSeg("gnu", 32)>>, !.pfill = 66000, !.phextra = 8, !.nfill = 65300] } }

(* ------------------------------- writer -------------------------------- *)
Init ==
  /\ Mode \in Modes
  /\ done = (Mode \in {"sweep", "xnum"})
  /\ CASE Mode = "sections" -> \E cl \in ClsLe, m \in AllMachines : im = Base(cl, m) /\ tag = "sections"
       [] Mode = "pairs" -> \E cl \in ClsLe, m \in TwoMachines : im = Base(cl, m) /\ tag = "pairs"
       [] Mode = "triples" -> \E cl \in {<<32, FALSE>>, <<64, TRUE>>} : im = Base(cl, IF cl[1] = 32 THEN Code("EM_ARM") ELSE Code("EM_X86_64")) /\ tag = "triples"
       [] Mode \in {"segments", "segments3"} -> \E cl \in ClsLe, m \in {Code("EM_X86_64"), Code("EM_ARM"), Code("EM_MIPS")} :
                                   im = [Base(cl, m) EXCEPT !.secs = <<MkSec("text", cl[1], 0)>>] /\ tag = Mode
       [] Mode = "placement" -> \E cl \in ClsLe, o \in {"A", "B", "C"}, g \in {0, 3}, se \in {0, 8, 64}, pe \in {0, 8}, sf \in BOOLEAN :
                                   /\ im = [Base(cl, 62) EXCEPT !.order = o, !.gap = g, !.shextra = se, !.phextra = pe, !.strfirst = sf,
                                                                 !.secs = <<MkSec("text", cl[1], 0), MkSec("bss", cl[1], 0)>>,
                                                                 !.segs = <<MkSeg("load", cl[1]), MkSeg("proc", cl[1])>>]
                                   /\ tag = "placement"
       [] Mode = "nosht" -> \E cl \in ClsLe : im = [Base(cl, 62) EXCEPT !.nosht = TRUE, !.segs = <<MkSeg("load", cl[1])>>] /\ tag = "nosht"
       [] Mode = "sweep" -> \E x \in SweepSet : im = x[2] /\ tag = x[1]
       [] Mode = "xnum" -> \E x \in XnumSet : im = x[2] /\ tag = x[1]

\* the index the name table will have once the image is finished is not known while sections are
\* still being added; sections that must link to a string table link to the image's own name table,
\* whose index is fixed up at Finish
AddSection(kind) ==
  /\ ~done /\ Mode \in {"sections", "pairs", "triples"} /\ Len(im.secs) < MaxSecs
  /\ im' = [im EXCEPT !.secs = Append(@, MkSec(kind, im.cls, 0))]
  /\ UNCHANGED <<done, tag, Mode>>
AddSegment(kind) ==
  /\ ~done /\ Mode \in {"segments", "segments3"} /\ Len(im.segs) < MaxSegs
  /\ im' = [im EXCEPT !.segs = Append(@, MkSeg(kind, im.cls))]
  /\ UNCHANGED <<done, tag, Mode>>
NeedsStrLink(s) == s.name \in {DotSymtab, DotRela, DotDyn}
Finish ==
  /\ ~done
  /\ done' = TRUE
  /\ im' = [im EXCEPT !.secs = [k \in 1..Len(im.secs) |->
                                  IF NeedsStrLink(im.secs[k]) THEN [im.secs[k] EXCEPT !.link = N(StrIndex(im))] ELSE im.secs[k]]]
  /\ UNCHANGED <<tag, Mode>>

Next == Finish \/ (\E k \in SecKinds : AddSection(k)) \/ (\E k \in SegKinds : AddSegment(k))
Spec == Init /\ [][Next]_vars

(* ------------------------------ emission ------------------------------- *)
\* machine-scoped names: EI_OSABI always; section / segment types only where scoping narrows the wide set of Elf!View (<<index, names>>)
Scope ==
  LET ex == ExplicitShdrs(im)   fam == MachFam(im.machine) IN
  [osabi |-> OsabiNamesOf(im.machine, N(im.osabi)),
   sh |-> IF fam = "NONE" THEN {} ELSE
          UNION {LET t == ex[i][2].sh_type IN
                 IF ByFam("SHT", fam, t) = {} \/ ShtScopedNamesOf(im.machine, t) = ShtNamesOf(im.machine, t) THEN {}
                 ELSE {<<ex[i][1], ShtScopedNamesOf(im.machine, t)>>} : i \in 1..Len(ex)},
   ph |-> IF fam = "NONE" THEN {} ELSE
          UNION {LET t == im.segs[j].type IN
                 IF ByFam("PT", fam, t) = {} \/ PtScopedNamesOf(im.machine, t) = PtNamesOf(im.machine, t) THEN {}
                 ELSE {<<j - 1, PtScopedNamesOf(im.machine, t)>>} : j \in 1..Len(im.segs)}]
\* filler indices at and around the reserved index range (SHN_LORESERVE 0xff00 .. SHN_HIRESERVE 0xffff; SHN_ABS 0xfff1, SHN_COMMON 0xfff2,
\* SHN_XINDEX 0xffff) and around PN_XNUM (0xffff): positions in the tables like any other
ReservedProbe == {65279, 65280, 65281, 65521, 65522, 65534, 65535, 65536, 65537}
Probes == [sec |-> IF im.nosht THEN {} ELSE {i \in ReservedProbe : FillFrom(im) <= i /\ i < FillFrom(im) + im.nfill},
               seg |-> {i \in ReservedProbe : Len(im.segs) <= i /\ i < NSeg(im)}]
Emit == done => CSVWrite("%1$s", <<ToJson([tag |-> tag, chunks |-> Chunks(im), view |-> View(im), scope |-> Scope, probes |-> Probes])>>, IOEnv.OUT)

(* ------------------------------ properties ----------------------------- *)
\* (evaluated on finished images; TLC checks them for every behaviour of the writer)
WellFormedChunks == done => ChunksDisjoint(im)
CountsRecovered == done => ReaderRecoversCounts(im)
\* header tables tile: entry i starts where entry i-1 ends (modulo the declared entry size)
TablesTile ==
  done => LET ex == ExplicitShdrs(im)   fs == FileSize(im)   so == ShOff(im)   se == ShEnt(im) IN
          /\ \A i \in 1..Len(ex) : so + ex[i][1] * se + se <= fs
          /\ \A i, j \in 1..Len(ex) : i < j => ex[i][1] < ex[j][1]
          /\ (~im.nosht => ex[Len(ex)][1] < NSec(im))
\* every explicit section's name is a NUL-terminated string inside the name table, and the
\* name table's own header designates exactly the table's bytes
NamesResolve ==
  done => \A k \in 1..Len(im.secs) : NameAt(im, NameOff(im, k)) = im.secs[k].name
\* lookup by name agrees with enumeration: a name maps to an index bearing that name
LookupAgrees ==
  done => LET v == View(im) IN
          \A i \in 1..Len(v.sections) :
             \E j \in 1..Len(v.sections) : v.sections[j].name = v.sections[i].name /\ v.sections[j].index >= v.sections[i].index
\* the overlay table agrees with the registry: machine codes, every name registered with a code of the architecture-specific range,
\* no name owned by two machines, no two names of one machine on one code (so a scoped set is a single name)
ASSUME /\ {OsabiOverlay[i][1] : i \in 1..Len(OsabiOverlay)} = {Code("EM_ARM"), Code("EM_AMDGPU"), Code("EM_TI_C6000")}
       /\ \A i \in 1..Len(OsabiOverlay) : \A n \in OsabiOverlay[i][2] :
             /\ n \in Fam("ELFOSABI", "BASE") /\ NatOf(Reg[n]) \in 64..255
             /\ \A j \in 1..Len(OsabiOverlay) : j # i => n \notin OsabiOverlay[j][2]
             /\ \A n2 \in OsabiOverlay[i][2] : n2 # n => Reg[n2] # Reg[n]
\* scoping only ever narrows, never below the machine's own names, never for the generic codes, and a name another machine owns
\* survives only where the machine at hand owns no name of the code
ScopeSound ==
  done => LET all == ByFam("ELFOSABI", "BASE", N(im.osabi))   sc == Scope IN
          /\ sc.osabi \subseteq all /\ (all # {} => sc.osabi # {})
          /\ (im.osabi < 64 => sc.osabi = all)
          /\ (sc.osabi # all => sc.osabi \subseteq OsabiSpecific(im.machine) /\ Cardinality(sc.osabi) = 1)
          /\ \A i \in 1..Len(OsabiOverlay) :
                (OsabiOverlay[i][1] # im.machine /\ sc.osabi \cap OsabiOverlay[i][2] # {}) => all \cap OsabiSpecific(im.machine) = {}
          /\ \A x \in sc.sh : x[2] # {} /\ x[2] \subseteq Fam("SHT", MachFam(im.machine))
          /\ \A x \in sc.ph : x[2] # {} /\ x[2] \subseteq Fam("PT", MachFam(im.machine))
\* probes are filler positions of the tables
ProbesInTables ==
  done => LET p == Probes IN (\A i \in p.sec : i < NSec(im)) /\ (\A i \in p.seg : i < NSeg(im))
=============================================================================
