-------------------------------- MODULE Prim --------------------------------
(***************************************************************************)
(* C16 - primitive decoders.                                               *)
(*                                                                         *)
(* The environment is an abstract writer that extends an input byte string *)
(* one letter at a time (a byte, or for strings a run of bytes).  Every    *)
(* reachable state is one input; every prefix of an input is a state too,  *)
(* so "every truncation point" and "regardless of what follows" are both   *)
(* covered by the state graph itself.  For each state the specification    *)
(* says what each primitive decoder must return when started at offset 0   *)
(* (value and number of bytes consumed, or "truncated").                   *)
(*                                                                         *)
(* TLC checks, without any code: the operational byte-at-a-time LEB128     *)
(* machine and the 64-byte chunked string reader agree with the            *)
(* denotational definitions; decoding depends only on the encoding's own   *)
(* bytes; non-minimal encodings denote the same value; round trips.        *)
(***************************************************************************)
EXTENDS Bytes, TLC, Json, CSV, IOUtils

CONSTANTS Kinds,      \* which writers run in this configuration
          LebA1, LebA2, LebA3,   \* byte alphabets for LEB positions 1, 2, >= 3
          MaxLeb,     \* longest LEB input
          FixA,       \* byte alphabet for fixed-width integers
          MaxCStr,    \* number of letters of a string input
          LebStop     \* TRUE: a complete LEB128 encoding is not extended further (long-encoding configurations)

VARIABLES kind, inp
vars == <<kind, inp>>

(* ------------------------------ writers -------------------------------- *)
AllBytes == 0..255
Classes6 == {0, 63, 64, 127, 128, 255}
Classes16 == {0, 1, 2, 62, 63, 64, 65, 126, 127, 128, 129, 191, 192, 193, 254, 255}
Classes64 == {b \in 0..255 : b % 4 = 3 \/ b \in Classes16}
LongLeb == {0, 63, 64, 127, 128, 255}          \* two continuation bytes, four terminators (sign bit set / clear)
FixClasses == {0, 1, 127, 128, 255}
FixClasses4 == {0, 127, 128, 255}
AllKinds == {"leb", "fix", "int24", "cstr", "initlen", "arr"}
LebAlpha(pos) == IF pos = 1 THEN LebA1 ELSE IF pos = 2 THEN LebA2 ELSE LebA3

\* string letters: a NUL, or a run of non-NUL bytes whose length sits on/around the chunk size
Runs == {1, 31, 62, 63, 64, 65}
RunBytes(start, n) == [i \in 1..n |-> ((start + i) % 255) + 1]

\* bytes 5..12 (the 64-bit length behind the escape): 5 and 12 free over {0, 255}, the six between are 0 when byte 5 is 0 and a
\* pattern otherwise - so the lengths 0, 2^56 * 255, ... and "all bits in every byte position" occur
InitLenA(pos) == IF pos <= 4 THEN {0, 1, 239, 240, 254, 255}
                 ELSE IF pos \in {5, 12} THEN {0, 255} ELSE IF inp[5] = 0 THEN {0} ELSE {(pos * 17) % 256}

ArrA == {0, 1, 2, 3, 64, 127, 128, 255}     \* 64, 127: a length whose final LEB128 byte has bit 6 set (unsigned, 7.6)

Int24Others == {0, 90, 255}

Init == kind \in Kinds /\ inp = <<>>

Next ==
  /\ UNCHANGED kind
  /\ \/ /\ kind = "leb" /\ Len(inp) < MaxLeb
        /\ (LebStop => LebTerm(inp) = {})
        /\ \E b \in LebAlpha(Len(inp) + 1) : inp' = Append(inp, b)
     \/ /\ kind = "fix" /\ Len(inp) < 8
        \* bytes 5..7 repeat byte 4 (filler); bytes 1..4 and 8 are free
        /\ \E b \in FixA : /\ (Len(inp) \in 4..6 => b = inp[4])
                            /\ inp' = Append(inp, b)
     \/ /\ kind = "int24" /\ Len(inp) < 4
        \* one free position over all 256 values, the others from a small set
        /\ \E b \in Byte : /\ (b \in Int24Others \/ \A i \in 1..Len(inp) : inp[i] \in Int24Others)
                           /\ inp' = Append(inp, b)
     \/ /\ kind = "cstr" /\ Len(SelectSeq(inp, LAMBDA b : b = 0)) < 2 /\ TLCGet("level") <= MaxCStr
        /\ \/ inp' = Append(inp, 0)
           \/ \E n \in Runs : inp' = inp \o RunBytes(Len(inp), n)
     \/ /\ kind = "initlen" /\ Len(inp) < 12
        /\ \E b \in InitLenA(Len(inp) + 1) : inp' = Append(inp, b)
     \/ /\ kind = "arr" /\ Len(inp) < 5
        /\ \E b \in ArrA : inp' = Append(inp, b)

Spec == Init /\ [][Next]_vars

(* ---------------------------- expectations ----------------------------- *)
Trunc == [ok |-> FALSE]

FixExpect(w, le, signed) ==
  IF Len(inp) < w THEN [ok |-> FALSE, used |-> 0, val |-> W(<<>>)]
  ELSE [ok |-> TRUE, used |-> w, val |-> FixDec(Slice(inp, 1, w), le, signed)]

\* count-prefixed array of bytes; the count is a u8, a u16 (either order) or a ULEB128
PrefArr(cnt, hdr) == IF Len(inp) < hdr + cnt THEN [ok |-> FALSE, used |-> 0, items |-> <<>>]
                     ELSE [ok |-> TRUE, used |-> hdr + cnt, items |-> Slice(inp, hdr + 1, cnt)]
ArrU8 == IF Len(inp) < 1 THEN [ok |-> FALSE, used |-> 0, items |-> <<>>] ELSE PrefArr(inp[1], 1)
ArrU16(le) == IF Len(inp) < 2 THEN [ok |-> FALSE, used |-> 0, items |-> <<>>]
              ELSE PrefArr(SmallDec(Slice(inp, 1, 2), le, FALSE), 2)
ArrU32(le) == IF Len(inp) < 4 THEN [ok |-> FALSE, used |-> 0, items |-> <<>>]
              \* inputs are at most 5 bytes long: a count with a non-zero high half exceeds any input
              ELSE LET d == IF le THEN Slice(inp, 1, 4) ELSE Rev(Slice(inp, 1, 4)) IN
                   IF d[3] # 0 \/ d[4] # 0 THEN [ok |-> FALSE, used |-> 0, items |-> <<>>]
                   ELSE PrefArr(d[1] + 256 * d[2], 4)
ArrUleb == LET d == LebDec(inp, FALSE) IN
           IF ~d.ok THEN [ok |-> FALSE, used |-> 0, items |-> <<>>]
           \* inputs are <= 5 bytes: a count with a non-zero fifth group (>= 2^28) exceeds any input, every other count is a Small
           ELSE IF \E i \in 5..Len(d.val.g) : d.val.g[i] # 0 THEN [ok |-> FALSE, used |-> 0, items |-> <<>>]
           ELSE PrefArr(GroupsNat(SubSeq(d.val.g, 1, Min({4, Len(d.val.g)}))), d.used)
\* repeat-until-terminator, terminator excluded from the result but consumed
Zs == {i \in 1..Len(inp) : inp[i] = 0}
ArrUntil0 == IF Zs = {} THEN [ok |-> FALSE, used |-> 0, items |-> <<>>]
             ELSE [ok |-> TRUE, used |-> Min(Zs), items |-> Slice(inp, 1, Min(Zs) - 1)]

StrPos == {p \in {0, 1, 63, 64, 65} : p <= Len(inp)}

Expect ==
  CASE kind = "leb" -> LET d == LebDec(inp, FALSE) IN [ok |-> d.ok, used |-> d.used, g |-> d.val.g]
    [] kind = "fix" -> [w \in {"1", "2", "4", "8"} |->
                          LET n == CASE w = "1" -> 1 [] w = "2" -> 2 [] w = "4" -> 4 [] w = "8" -> 8 IN
                          [ul |-> FixExpect(n, TRUE, FALSE), sl |-> FixExpect(n, TRUE, TRUE),
                           ub |-> FixExpect(n, FALSE, FALSE), sb |-> FixExpect(n, FALSE, TRUE)]]
    [] kind = "int24" -> IF Len(inp) < 3 THEN [ok |-> FALSE, le |-> 0, be |-> 0]
                         ELSE [ok |-> TRUE, le |-> SmallDec(Slice(inp, 1, 3), TRUE, FALSE),
                               be |-> SmallDec(Slice(inp, 1, 3), FALSE, FALSE)]
    [] kind = "cstr" -> [p \in StrPos |-> CStrAt(inp, p)]
    [] kind = "initlen" -> [le |-> [v2 |-> InitialLengthFor(inp, TRUE, 2), v3 |-> InitialLengthFor(inp, TRUE, 3),
                                    v4 |-> InitialLengthFor(inp, TRUE, 4), v5 |-> InitialLengthFor(inp, TRUE, 5)],
                            be |-> [v2 |-> InitialLengthFor(inp, FALSE, 2), v3 |-> InitialLengthFor(inp, FALSE, 3),
                                    v4 |-> InitialLengthFor(inp, FALSE, 4), v5 |-> InitialLengthFor(inp, FALSE, 5)]]
    [] kind = "arr" -> [u8 |-> ArrU8, u16le |-> ArrU16(TRUE), u16be |-> ArrU16(FALSE), u32le |-> ArrU32(TRUE), u32be |-> ArrU32(FALSE),
                        uleb |-> ArrUleb, until0 |-> ArrUntil0]

\* functions with non-string domains do not serialise as JSON objects: make pairs
ExpectJ == IF kind = "cstr" THEN [p \in {ToString(q) : q \in StrPos} |->
                                    CStrAt(inp, CHOOSE q \in StrPos : ToString(q) = p)]
           ELSE Expect

Emit == CSVWrite("%1$s", <<ToJson(<<kind, inp, ExpectJ>>)>>, IOEnv.OUT)

(* ------------------------------ properties ----------------------------- *)
TypeOK == kind \in Kinds /\ inp \in Seq(Byte)

\* operational machine = denotational definition (value, consumed, truncation)
LebOpEqDen ==
  (kind = "leb" /\ Len(inp) <= 4) =>
    \A signed \in BOOLEAN :
      LET d == LebDec(inp, signed)   st == LebRun(LebInit, inp) IN
      /\ d.ok = st.done
      /\ d.ok => /\ d.used = st.pos
                 /\ GroupsInt(d.val.g, signed) = LebResult(st, signed)

\* the decoded value and length depend only on the encoding's own bytes
LebIgnoresWhatFollows ==
  kind = "leb" => \A signed \in BOOLEAN :
      LET d == LebDec(inp, signed) IN
      d.ok => LebDec(SubSeq(inp, 1, d.used), signed) = d

\* every truncation of a complete encoding is reported as truncated
LebTruncation ==
  kind = "leb" => LET d == LebDec(inp, FALSE) IN
      d.ok => \A k \in 0..(d.used - 1) : ~LebDec(SubSeq(inp, 1, k), FALSE).ok

\* non-minimal encodings denote the value of the minimal one, and minimal encodings round-trip
LebRoundTrip ==
  (kind = "leb" /\ Len(inp) <= 4) =>
      /\ LET d == LebDec(inp, FALSE) IN
         d.ok => LET n == GroupsNat(d.val.g)   m == LebDec(UlebOfNat(n), FALSE) IN
                 /\ m.ok /\ GroupsNat(m.val.g) = n /\ m.used <= d.used
                 /\ m.used = Len(UlebOfNat(n))
      /\ LET d == LebDec(inp, TRUE) IN
         d.ok => LET n == GroupsInt(d.val.g, TRUE)   m == LebDec(SlebOfInt(n), TRUE) IN
                 /\ m.ok /\ GroupsInt(m.val.g, TRUE) = n /\ m.used <= d.used

\* the chunked reader is the declarative C string
CStrOpEqDen ==
  kind = "cstr" => \A p \in StrPos :
      LET d == CStrAt(inp, p)   o == ChunkRun(inp, p, <<>>) IN
      d.ok = o.ok /\ (d.ok => d.s = o.s)

\* fixed width: signed and unsigned readings differ by exactly 256^w when the top bit is set
FixSigns ==
  (kind = "fix" /\ Len(inp) >= 2) =>
     LET u == SmallDec(Slice(inp, 1, 2), TRUE, FALSE)   s == SmallDec(Slice(inp, 1, 2), TRUE, TRUE) IN
     /\ u \in 0..65535 /\ s \in -32768..32767
     /\ (u - s) \in {0, 65536}
     /\ SmallDec(Rev(Slice(inp, 1, 2)), FALSE, FALSE) = u
     /\ LEn(u, 2) = Slice(inp, 1, 2) /\ LEs(s, 2) = Slice(inp, 1, 2)

InitLenSane ==
  kind = "initlen" => \A le \in BOOLEAN :
      LET r == InitialLength(inp, le) IN
      /\ r.ok => r.used \in {4, 12} /\ (r.is64 <=> r.used = 12) /\ Len(r.len.d) = r.used - 4 * (IF r.is64 THEN 1 ELSE 0)
      /\ (r.ok /\ Len(inp) > r.used) => TRUE

=============================================================================
