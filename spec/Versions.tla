------------------------------ MODULE Versions ------------------------------
(***************************************************************************)
(* C15 - Symbol-version sections resolve each symbol to its encoded        *)
(* version.                                                                *)
(*                                                                         *)
(* Transcribed from the Sun/GNU symbol versioning specification (LSB Core, *)
(* chapter "Symbol Versioning": "Version Definitions", "Version            *)
(* Requirements", "Symbol Version Table"; Oracle Linker and Libraries      *)
(* Guide, "Versioning Sections"):                                          *)
(*   .gnu.version_d  SHT_GNU_verdef   sh_link -> string table, sh_info =   *)
(*                   number of definitions; a chain of Elfxx_Verdef        *)
(*                   records linked by vd_next (byte displacement from the *)
(*                   start of this record, 0 in the last one), each with   *)
(*                   vd_cnt Elfxx_Verdaux records reached through vd_aux   *)
(*                   (displacement from the start of the Verdef) and then  *)
(*                   vda_next (displacement from the start of the Verdaux) *)
(*   .gnu.version_r  SHT_GNU_verneed  likewise with Elfxx_Verneed /        *)
(*                   Elfxx_Vernaux (vn_next, vn_aux, vna_next); vna_other  *)
(*                   is the version index (bit 15: hidden), 0 = none       *)
(*   .gnu.version    SHT_GNU_versym   sh_link -> dynamic symbol table; one *)
(*                   Elfxx_Half per dynamic symbol (bit 15: hidden)        *)
(* The records have the same layout in both classes (only Half and Word).  *)
(*                                                                         *)
(* Environment: an abstract writer chooses class, byte order, a placement  *)
(* pattern for the records, an index assignment, a container arrangement,  *)
(* and builds the definition list one entry / one auxiliary at a time.     *)
(* Finish fixes the abstract object, its bytes (EncAll, through the        *)
(* layouts below and Elf!Ser) and the view a correct reader must report    *)
(* (VerView, computed from the abstract object and the writer's placement  *)
(* decisions, never from the bytes).  Then the reader machine              *)
(*   [entryOff, k] / [auxOff, j]   ReadEntry, ReadAux, FollowAuxNext,      *)
(*   FollowNext, AbandonAux (a lazily consumed chain may be dropped at any *)
(*   point), ReadSym                                                       *)
(* walks the *bytes* of the three sections.                                *)
(*                                                                         *)
(* Checked by TLC on the specification itself                              *)
(*   LayoutWellFormed   records tile the section without overlap, every    *)
(*                      displacement is forward, the first entry is at 0   *)
(*   InBounds           the walker never reads outside its section         *)
(*   ChainFollowsLinks  every record the walker reads by following the     *)
(*                      displacement links is the view's record k / (k, j) *)
(*                      with names resolved through the linked string      *)
(*                      table; WalkComplete: it stops after exactly        *)
(*                      sh_info entries                                    *)
(*   Discriminates      whenever the placement differs from the packed     *)
(*                      one, a reader assuming physical adjacency obtains  *)
(*                      something else (so the cases can tell them apart)  *)
(*   IndexResolution    operational look-up (walk, stop at first match) is *)
(*                      sound and complete: = the entry carrying the       *)
(*                      index, or none                                     *)
(*   HasIndexesIff      operational scan = some vna_other # 0              *)
(*   SymMatches         versym[i] (raw, hidden bit kept) is paired with    *)
(*                      the name of dynamic symbol i                       *)
(*   Progress, WalkGuard / NeverStuck   the walk terminates: a lexico-      *)
(*                      graphic measure decreases at every step and some   *)
(*                      step is enabled until the walk is done (guards     *)
(*                      written out in the quick tier, ENABLED in thorough)*)
(*   ImageWellFormed, LinksResolve, StringsAgree, NoDup   sanity of the    *)
(*                      generated container                                *)
(*                                                                         *)
(* Client sessions (strengthening round).  The property's answers are      *)
(* functions of the section alone, so they must not depend on what the     *)
(* same section object was asked before.  After the walk a client picks    *)
(* ONE section object (kind "def" or "need") and issues a sequence of      *)
(* public calls on it, one action (ClientCall) per call, the expected      *)
(* answer being logged with the call:                                      *)
(*   get(q)  index resolution      has   has_indexes (requirements)        *)
(*   num     number of entries     all   a complete nested iteration       *)
(*   open    start an iteration (a previously open one is abandoned)       *)
(*   step / peek   advance the open iteration by one entry and consume its *)
(*           whole auxiliary chain / only its first auxiliary              *)
(* Discipline "free": every sequence of MaxCalls calls over the alphabet   *)
(* FreeLetters (small objects only, FreeOK); the scripted disciplines run  *)
(* on every object whose placement is in SessPatterns: "updown" (carried   *)
(* indices ascending, absent ones, has/num, a full iteration, carried      *)
(* indices descending), "downup" (the mirror image) and "weave" (look-ups  *)
(* alternating with the steps of one open iteration, past its end).        *)
(* Checked on the specification: SessionAnswers (the logged answer of a    *)
(* call is what a walk of the bytes started afresh yields, whatever        *)
(* preceded), IterInOrder (an iteration yields entries 1..n in link order, *)
(* then stays exhausted, undisturbed by calls in between), SessionFrame    *)
(* (calls do not change the object).  Every finished session is emitted    *)
(* and replayed on one fresh section object.                               *)
(*                                                                         *)
(* File sessions (strengthening round 4).  The three version sections of   *)
(* one file object share one stream, and a client normally resolves every   *)
(* index the version-symbol table yields through the definitions and the    *)
(* requirements WHILE it iterates the table.  A session of kind "file"      *)
(* addresses the three section objects of ONE file object:                  *)
(*   sopen / sstep   the version-symbol iteration, one symbol per step      *)
(*   sget(n) / snum  random access / number of symbols                      *)
(*   dget(q) / nget(q)          index resolution on the other two sections  *)
(*   dopen / dstep, nopen / nstep   their iterations, one entry with its    *)
(*                   whole auxiliary chain per step                         *)
(*   seek(c)         the client repositions the shared stream (c = start,   *)
(*                   end, middle of the file); no answer                    *)
(* Disciplines: "resolve" (every yielded index is resolved on both sections *)
(* before the next step), "scatter" (each step followed by a random access  *)
(* from the far end and a repositioning), "braid" (the three iterations     *)
(* advanced in turn, past their ends), "free" (every sequence of            *)
(* MaxFileCalls calls after sopen + one sstep, small objects).  Checked on  *)
(* the specification: FileSessionAnswers (every logged answer is what a     *)
(* fresh read of the bytes yields: SymAt for symbol n, the look-up walks,   *)
(* the view's chains), FileIterInOrder (each of the three iterations yields *)
(* 1..n in order and then stays exhausted, whatever else was called in      *)
(* between).                                                                *)
(*                                                                         *)
(* Not asserted (the standard does not fix it / outside the quantifier):   *)
(* Version.name of a definition entry (names live in the auxiliaries);     *)
(* two entries carrying the same index (excluded, NoDup); look-up of index *)
(* 0 among requirements when some vna_other is 0 (0 means "no index");     *)
(* vd_hash/vna_hash are arbitrary words here, not the ELF hash of the name *)
(* (the property is about decoding); backward displacements (the fields    *)
(* are unsigned words, so physical order can differ from link order only   *)
(* for auxiliary arrays: "reversed" puts the arrays in reverse entry order,*)
(* "striped" interleaves the chains of all entries).  Out-of-order         *)
(* consumption of several auxiliary chains is a replay matter (G): an      *)
(* auxiliary walker's state [auxOff, j, cnt] is self-contained once        *)
(* ReadEntry has produced it.                                              *)
(***************************************************************************)
EXTENDS Elf, TLC, Json, CSV, IOUtils

CONSTANTS Modes,        \* subset of {"chains", "versym"}
          Patterns,     \* subset of {"packed", "padded", "reversed", "striped"}
          IAs,          \* index assignments, subset of {"seq", "gaps", "hidden", "none", "last", "first"}
          Containers,   \* subset of {"plain", "decoy", "rev"}
          MaxEntries, MaxAux,   \* shape bounds for the <<class, little-endian, container>> combinations in BigCombos
          SmallEntries, SmallAux,   \* ... and for all the others
          BigCombos,
          NeedMode,     \* "rev": requirement shape = reversed definition shape; "free": every shape in bounds
          VsLens,       \* versym table lengths explored in mode "versym"
          Disciplines,  \* client sessions: subset of {"free", "updown", "downup", "weave"}
          SessPatterns, \* ... on objects with these placement patterns
          MaxCalls,     \* length of the "free" sessions
          FreeCombos, FreeIAs,  \* "free" sessions: <<class, little-endian, container>> combinations and index assignments
          FileDisciplines,      \* file sessions (three section objects of one file): subset of {"resolve", "scatter", "braid", "free"}
          FileIAs,              \* ... on objects with these index assignments (and a placement in SessPatterns)
          MaxFileCalls          \* length of the "free" file sessions (after the prefix sopen, sstep)

VARIABLES phase,        \* "build" -> "walk" -> "done"
          ch,           \* the writer's choices so far
          obj,          \* the finished abstract object
          img,          \* its bytes, per section
          exp,          \* the view of the finished object
          sec,          \* section the reader is in: "def" -> "need" -> "sym"
          wk,           \* reader machine state
          sess            \* client session: [kind, disc, log of answered calls, it (entries the open iteration has yielded; -1: none open)]
vars == <<phase, ch, obj, img, exp, sec, wk, sess>>

(* ------------------------------ layouts -------------------------------- *)
\* LSB Core, Symbol Versioning, figures "Version Definition Entries", "Version Definition Auxiliary
\* Entries", "Version Needed Entries", "Version Needed Auxiliary Entries"
VerdefF == << <<"vd_version", "half">>, <<"vd_flags", "half">>, <<"vd_ndx", "half">>, <<"vd_cnt", "half">>,
              <<"vd_hash", "word">>, <<"vd_aux", "word">>, <<"vd_next", "word">> >>
VerdauxF == << <<"vda_name", "word">>, <<"vda_next", "word">> >>
VerneedF == << <<"vn_version", "half">>, <<"vn_cnt", "half">>, <<"vn_file", "word">>, <<"vn_aux", "word">>,
               <<"vn_next", "word">> >>
VernauxF == << <<"vna_hash", "word">>, <<"vna_flags", "half">>, <<"vna_other", "half">>, <<"vna_name", "word">>,
               <<"vna_next", "word">> >>
VersymF == << <<"ndx", "half">> >>

ASSUME \A c \in {32, 64} : /\ SizeOf(VerdefF, c) = 20 /\ SizeOf(VerdauxF, c) = 8 /\ SizeOf(VerneedF, c) = 16
                           /\ SizeOf(VernauxF, c) = 16 /\ SizeOf(VersymF, c) = 2

EntF(kind) == IF kind = "def" THEN VerdefF ELSE VerneedF
AuxF(kind) == IF kind = "def" THEN VerdauxF ELSE VernauxF
EntSize(kind) == IF kind = "def" THEN 20 ELSE 16
AuxSize(kind) == IF kind = "def" THEN 8 ELSE 16
FN(kind) == IF kind = "def"
            THEN [cnt |-> "vd_cnt", aux |-> "vd_aux", next |-> "vd_next", aname |-> "vda_name", anext |-> "vda_next"]
            ELSE [cnt |-> "vn_cnt", aux |-> "vn_aux", next |-> "vn_next", aname |-> "vna_name", anext |-> "vna_next"]

\* section types (LSB Core, "Additional Section Types"); names of the reserved versym values (glibc elf.h)
ShtVerdef == W(<<253, 255, 255, 111>>)        \* 0x6ffffffd
ShtVerneed == W(<<254, 255, 255, 111>>)       \* 0x6ffffffe
ShtVersym == W(<<255, 255, 255, 111>>)        \* 0x6fffffff
ASSUME /\ KindCodes["SHT_GNU_verdef"] = ShtVerdef.d /\ KindCodes["SHT_GNU_verneed"] = ShtVerneed.d
       /\ KindCodes["SHT_GNU_versym"] = ShtVersym.d
VerNdxTab == TLCEval([nm \in {"VER_NDX_LOCAL", "VER_NDX_GLOBAL", "VER_NDX_LORESERVE", "VER_NDX_ELIMINATE"} |-> NatOf(Reg[nm])])
VerNdxNames(n) == {nm \in DOMAIN VerNdxTab : VerNdxTab[nm] = n}
Hidden == 32768                               \* bit 15 of a versym entry / of vna_other

(* ------------------------- values and parsing -------------------------- *)
\* canonical field value of little-endian digits: Small below 2^30, Wide above
CanonD(d) == IF Len(d) <= 3 \/ d[Len(d)] < 64 THEN N(NatOf(d)) ELSE W(d)
Canon(v, wd) == CanonD(Digits(v, wd))
FieldIx(F, n) == CHOOSE i \in 1..Len(F) : F[i][1] = n
CanonRec(F, rec) == [n \in FieldNames(F) |-> Canon(rec[n], Width(F[FieldIx(F, n)][2], 32))]
\* a field value used as a displacement/offset/count; anything >= 2^30 is beyond every section
Far == 1073741823
Num(v) == IF IsSmall(v) THEN v.n ELSE Far

\* one Half / Word at byte offset `at` (both are class independent)
RdHalf(bs, at, le) == IF le THEN N(bs[at + 1] + 256 * bs[at + 2]) ELSE N(bs[at + 2] + 256 * bs[at + 1])
RdWord(bs, at, le) ==
  LET d == IF le THEN <<bs[at + 1], bs[at + 2], bs[at + 3], bs[at + 4]>> ELSE <<bs[at + 4], bs[at + 3], bs[at + 2], bs[at + 1]>>
  IN IF d[4] < 64 THEN N(d[1] + 256 * (d[2] + 256 * (d[3] + 256 * d[4]))) ELSE W(d)
RECURSIVE ParseFrom(_, _, _, _, _)
ParseFrom(F, i, bs, at, le) ==
  LET v == IF F[i][2] = "half" THEN RdHalf(bs, at, le) ELSE RdWord(bs, at, le) IN
  IF i = Len(F) THEN F[i][1] :> v
  ELSE (F[i][1] :> v) @@ ParseFrom(F, i + 1, bs, at + Width(F[i][2], 32), le)
\* the record of layout F found at byte offset `at` of bs
Parse(F, bs, at, le) == ParseFrom(F, 1, bs, at, le)
ASSUME \A le \in BOOLEAN : /\ RdHalf(Fix(N(513), 2, le), 0, le) = CanonD(<<1, 2>>)
                            /\ RdWord(Fix(N(67305985), 4, le), 0, le) = CanonD(<<1, 2, 3, 4>>)
                            /\ RdWord(Fix(W(<<1, 2, 3, 200>>), 4, le), 0, le) = CanonD(<<1, 2, 3, 200>>)

\* the NUL-terminated string at `pos` (gABI string table); linear scan
StrAt(bs, pos) ==
  IF pos >= 0 /\ \E i \in (pos + 1)..Len(bs) : bs[i] = 0
  THEN LET z == CHOOSE i \in (pos + 1)..Len(bs) : bs[i] = 0 /\ \A j \in (pos + 1)..(i - 1) : bs[j] # 0
       IN [ok |-> TRUE, s |-> [i \in 1..(z - 1 - pos) |-> bs[pos + i]]]
  ELSE [ok |-> FALSE, s |-> <<>>]

(* -------------------------- abstract objects --------------------------- *)
\*  def    : Seq([ndx, flags, hash, auxes : Seq(name)])
\*  need   : Seq([file, version, auxes : Seq([name, hash, flags, other])])
\*  versym : Seq(0..65535)       syms : Seq(name)   (symbol 0 is the null symbol)
Dec(n) == IF n < 10 THEN <<48 + n>>
          ELSE IF n < 100 THEN <<48 + (n \div 10), 48 + (n % 10)>>
          ELSE <<48 + (n \div 100), 48 + ((n \div 10) % 10), 48 + (n % 10)>>
\* Names are byte strings of the linked string table; a reader decodes them as that table's strings are decoded (UTF-8).
\* NonAscii (a definition, overridden to NonAsciiOn by C15's own cfgs so that the other checks' reduced cfgs keep plain ASCII names)
\* puts a two-byte UTF-8 letter (U+00E9 = C3 A9) into every second file name and into the names whose padding count is 2.
NonAscii == FALSE
NonAsciiOn == TRUE
Accent == <<195, 169>>
Suffix(c, n) == IF NonAscii /\ n = 2 THEN <<c>> \o Accent ELSE Rep(c, n)
SymName(i) == IF i = 0 THEN <<>> ELSE <<115, 121, 109, 95>> \o Dec(i)                               \* "sym_<i>"
FileName(k) == <<108, 105, 98, 96 + k>> \o (IF NonAscii /\ (k % 2) = 0 THEN Accent ELSE <<>>) \o <<46, 115, 111, 46>> \o Dec(k)   \* "lib<a..>[e-acute].so.<k>"
DefName(k, j) == <<86, 69, 82, 95>> \o Dec(k) \o <<46>> \o Dec(j) \o Suffix(120, (k + j) % 3)          \* "VER_<k>.<j>x*"
NeedName(k, j) == <<71, 76, 73, 66, 67, 95>> \o Dec(k) \o <<46>> \o Dec(j) \o Suffix(121, (k + 2 * j) % 3)  \* "GLIBC_<k>.<j>y*"

RECURSIVE Sum(_, _)
Sum(sh, k) == IF k = 0 THEN 0 ELSE sh[k] + Sum(sh, k - 1)
DefNdx(ia, k) == CASE ia = "gaps" -> 3 * k + 2
                   [] ia = "hidden" -> (IF (k % 2) = 1 THEN Hidden ELSE 0) + k + 1
                   [] ia = "last" -> 5 * k
                   [] OTHER -> k
NeedOther(ia, r, total) ==
  CASE ia = "seq" -> r + 1
    [] ia = "gaps" -> 4 * r + 1
    [] ia = "hidden" -> (IF (r % 2) = 1 THEN Hidden ELSE 0) + r + 1
    [] ia = "none" -> 0
    [] ia = "last" -> IF r = total THEN 9 ELSE 0
    [] ia = "first" -> IF r = 1 THEN 9 ELSE 0
Hash(a, b) == IF ((a + b) % 2) = 1 THEN W(<<a, 17 * b, 200 + a, 128 + b>>) ELSE N(1000 * a + b + 1)
MkDefs(ia, sh) ==
  [k \in 1..Len(sh) |-> [ndx |-> DefNdx(ia, k), flags |-> IF k = 1 THEN 1 ELSE IF k = 3 THEN 2 ELSE 0,   \* VER_FLG_BASE / VER_FLG_WEAK
                         hash |-> Hash(k, 0), auxes |-> [j \in 1..sh[k] |-> DefName(k, j)]]]
MkNeeds(ia, sh) ==
  LET tot == Sum(sh, Len(sh)) IN
  [k \in 1..Len(sh) |-> [file |-> FileName(k), version |-> 1,
                         auxes |-> [j \in 1..sh[k] |-> [name |-> NeedName(k, j), hash |-> Hash(k, j), flags |-> IF j = 2 THEN 2 ELSE 0,
                                                        other |-> NeedOther(ia, Sum(sh, k - 1) + j, tot)]]]]
\* versym of a "chains" object: local, global, every carried index, a hidden variant, an index nobody carries
ChainVersym(defs, needs) ==
  <<0, 1>> \o [k \in 1..Len(defs) |-> defs[k].ndx]
  \o Flat([k \in 1..Len(needs) |-> SelectSeq([j \in 1..Len(needs[k].auxes) |-> needs[k].auxes[j].other], LAMBDA x : x # 0)])
  \o <<Hidden + 2, 29>>
VsCycle == <<1, 2, 32770, 3, 0, 65281, 6>>
VsTable(len) == [i \in 1..len |-> IF i = 1 THEN 0 ELSE VsCycle[((i - 2) % 7) + 1]]

MkObj(c, dsh, nsh, vlen) ==
  LET defs == MkDefs(c.ia, dsh)
      needs == MkNeeds(c.ia, nsh)
      vs == IF c.mode = "versym" THEN VsTable(vlen) ELSE ChainVersym(defs, needs)
  IN [cls |-> c.cls, le |-> c.le, pattern |-> c.pattern, ia |-> c.ia, cont |-> c.cont, mode |-> c.mode,
      def |-> defs, need |-> needs, versym |-> vs, syms |-> [i \in 1..Len(vs) |-> SymName(i - 1)]]

(* ------------------------------ placement ------------------------------ *)
\* a record is <<k, 0>> (entry k) or <<k, j>> (auxiliary j of entry k); the writer decides the physical
\* order of the records and the padding between them; the displacement fields are what links them
Shape(entries) == [k \in 1..Len(entries) |-> Len(entries[k].auxes)]
Blk(k, c) == [j \in 1..c |-> <<k, j>>]
MaxOf(sh) == IF sh = <<>> THEN 0 ELSE Max({sh[k] : k \in 1..Len(sh)})
PlaceOrder(p, sh) ==
  LET n == Len(sh)
      ents == [k \in 1..n |-> <<k, 0>>]
  IN CASE p \in {"packed", "padded"} -> Flat([k \in 1..n |-> <<<<k, 0>>>> \o Blk(k, sh[k])])
       [] p = "reversed" -> ents \o Flat([i \in 1..n |-> Blk(n + 1 - i, sh[n + 1 - i])])
       [] p = "striped" -> ents \o Flat([j \in 1..MaxOf(sh) |-> SelectSeq([k \in 1..n |-> <<k, j>>], LAMBDA r : j <= sh[r[1]])])
Gap(p) == CASE p = "padded" -> 8 [] p = "striped" -> 4 [] OTHER -> 0
Junk == 165                                             \* padding bytes are not zero
RSize(kind, r) == IF r[2] = 0 THEN EntSize(kind) ELSE AuxSize(kind)
RECURSIVE Offs(_, _, _, _)
Offs(kind, order, g, at) == IF order = <<>> THEN <<>>
                            ELSE <<at>> \o Offs(kind, Tail(order), g, at + RSize(kind, Head(order)) + g)
Layout(kind, p, sh) ==
  LET ord == PlaceOrder(p, sh)
      offs == Offs(kind, ord, Gap(p), 0)
  IN [ord |-> ord, offs |-> offs,
      size |-> IF ord = <<>> THEN 0 ELSE offs[Len(ord)] + RSize(kind, ord[Len(ord)]) + Gap(p)]
OffOf(lay, k, j) == lay.offs[CHOOSE i \in 1..Len(lay.ord) : lay.ord[i] = <<k, j>>]

(* ----------------------------- string table ---------------------------- *)
\* every name once; container "decoy" stores each string behind a one-byte prefix, so that all name
\* offsets point into the middle of a longer string (what tail merging produces)
Pool(o) == Tail(o.syms) \o [k \in 1..Len(o.need) |-> o.need[k].file]
           \o Flat([k \in 1..Len(o.def) |-> o.def[k].auxes])
           \o Flat([k \in 1..Len(o.need) |-> [j \in 1..Len(o.need[k].auxes) |-> o.need[k].auxes[j].name]])
\* balanced versions of Flat and of the running sum (tables of some hundred symbols: no deep recursion)
RECURSIVE FlatB(_)
FlatB(ss) == IF Len(ss) = 0 THEN <<>> ELSE IF Len(ss) = 1 THEN ss[1]
             ELSE LET h == Len(ss) \div 2 IN FlatB(SubSeq(ss, 1, h)) \o FlatB(SubSeq(ss, h + 1, Len(ss)))
RECURSIVE Running(_)
Running(ns) == IF Len(ns) <= 1 THEN ns
               ELSE LET h == Len(ns) \div 2
                        a == Running(SubSeq(ns, 1, h))
                        b == Running(SubSeq(ns, h + 1, Len(ns)))
                    IN a \o [i \in 1..Len(b) |-> b[i] + a[h]]
StrInfo(o) ==
  LET pool == Pool(o)
      pre == IF o.cont = "decoy" THEN 1 ELSE 0
      ends == Running([i \in 1..Len(pool) |-> pre + Len(pool[i]) + 1])        \* end of string i, relative to offset 1
  IN [pool |-> pool, offs |-> [i \in 1..Len(pool) |-> 1 + ends[i] - Len(pool[i]) - 1],
      bytes |-> <<0>> \o FlatB([i \in 1..Len(pool) |-> Rep(120, pre) \o pool[i] \o <<0>>])]
StrOffOf(st, name) == IF name = <<>> THEN 0 ELSE st.offs[CHOOSE i \in 1..Len(st.pool) : st.pool[i] = name]

(* -------------------------------- Enc ---------------------------------- *)
DefRec(o, lay, k) ==
  LET d == o.def[k] IN
  [vd_version |-> N(1), vd_flags |-> N(d.flags), vd_ndx |-> N(d.ndx), vd_cnt |-> N(Len(d.auxes)), vd_hash |-> d.hash,
   vd_aux |-> N(OffOf(lay, k, 1) - OffOf(lay, k, 0)),
   vd_next |-> N(IF k < Len(o.def) THEN OffOf(lay, k + 1, 0) - OffOf(lay, k, 0) ELSE 0)]
DefAuxRec(o, st, lay, k, j) ==
  [vda_name |-> N(StrOffOf(st, o.def[k].auxes[j])),
   vda_next |-> N(IF j < Len(o.def[k].auxes) THEN OffOf(lay, k, j + 1) - OffOf(lay, k, j) ELSE 0)]
NeedRec(o, st, lay, k) ==
  LET d == o.need[k] IN
  [vn_version |-> N(d.version), vn_cnt |-> N(Len(d.auxes)), vn_file |-> N(StrOffOf(st, d.file)),
   vn_aux |-> N(OffOf(lay, k, 1) - OffOf(lay, k, 0)),
   vn_next |-> N(IF k < Len(o.need) THEN OffOf(lay, k + 1, 0) - OffOf(lay, k, 0) ELSE 0)]
NeedAuxRec(o, st, lay, k, j) ==
  LET a == o.need[k].auxes[j] IN
  [vna_hash |-> a.hash, vna_flags |-> N(a.flags), vna_other |-> N(a.other), vna_name |-> N(StrOffOf(st, a.name)),
   vna_next |-> N(IF j < Len(o.need[k].auxes) THEN OffOf(lay, k, j + 1) - OffOf(lay, k, j) ELSE 0)]
RecAt(kind, o, st, lay, r) ==
  IF kind = "def" THEN (IF r[2] = 0 THEN DefRec(o, lay, r[1]) ELSE DefAuxRec(o, st, lay, r[1], r[2]))
  ELSE (IF r[2] = 0 THEN NeedRec(o, st, lay, r[1]) ELSE NeedAuxRec(o, st, lay, r[1], r[2]))
FOf(kind, r) == IF r[2] = 0 THEN EntF(kind) ELSE AuxF(kind)
\* the section: every record at the place the layout gave it, padding in between
EncSec(kind, o, st, lay) ==
  Flat([i \in 1..Len(lay.ord) |-> Ser(FOf(kind, lay.ord[i]), RecAt(kind, o, st, lay, lay.ord[i]), 32, o.le)
                                  \o Rep(Junk, Gap(o.pattern))])
SymRec(o, st, i) ==
  [st_name |-> N(IF i = 1 THEN 0 ELSE st.offs[i - 1]), st_value |-> N(IF i = 1 THEN 0 ELSE 4096 + 16 * i),
   st_size |-> N(i - 1), st_info |-> N(IF i = 1 THEN 0 ELSE 18), st_other |-> Z, st_shndx |-> N(IF i = 1 THEN 0 ELSE 1)]
EncSyms(o, st) == FlatB([i \in 1..Len(o.syms) |-> Ser(SymF(o.cls), SymRec(o, st, i), o.cls, o.le)])
EncVersym(o) == FlatB([i \in 1..Len(o.versym) |-> Ser(VersymF, [ndx |-> N(o.versym[i])], 32, o.le)])

DefLayout(o) == Layout("def", o.pattern, Shape(o.def))
NeedLayout(o) == Layout("need", o.pattern, Shape(o.need))
EncAll(o) ==
  LET st == StrInfo(o) IN
  [def |-> EncSec("def", o, st, DefLayout(o)), need |-> EncSec("need", o, st, NeedLayout(o)),
   str |-> st.bytes, sym |-> EncSyms(o, st), vs |-> EncVersym(o),
   count |-> [def |-> Len(o.def), need |-> Len(o.need)]]             \* sh_info of the two chain sections

(* -------------------------------- view --------------------------------- *)
VerView(o) ==
  LET st == StrInfo(o)
      ld == DefLayout(o)
      ln == NeedLayout(o)
  IN [def |-> [k \in 1..Len(o.def) |->
                 [e |-> CanonRec(VerdefF, DefRec(o, ld, k)), name |-> <<>>,
                  auxes |-> [j \in 1..Len(o.def[k].auxes) |->
                               [a |-> CanonRec(VerdauxF, DefAuxRec(o, st, ld, k, j)), name |-> o.def[k].auxes[j]]]]],
      need |-> [k \in 1..Len(o.need) |->
                 [e |-> CanonRec(VerneedF, NeedRec(o, st, ln, k)), name |-> o.need[k].file,
                  auxes |-> [j \in 1..Len(o.need[k].auxes) |->
                               [a |-> CanonRec(VernauxF, NeedAuxRec(o, st, ln, k, j)), name |-> o.need[k].auxes[j].name]]]],
      versym |-> [i \in 1..Len(o.versym) |-> [ndx |-> o.versym[i], names |-> VerNdxNames(o.versym[i]), sym |-> o.syms[i]]]]

\* index resolution, declaratively: the entry carrying the index, 0 / <<0, 0>> when no entry carries it
DefByIndex(o, q) == LET hits == {k \in 1..Len(o.def) : o.def[k].ndx = q} IN
                    IF hits = {} THEN 0 ELSE CHOOSE k \in hits : TRUE
NeedCarriers(o, q) == UNION {{<<k, j>> : j \in {jj \in 1..Len(o.need[k].auxes) : o.need[k].auxes[jj].other = q}} : k \in 1..Len(o.need)}
NeedByIndex(o, q) == LET hits == NeedCarriers(o, q) IN IF hits = {} THEN <<0, 0>> ELSE CHOOSE r \in hits : TRUE
HasIndexes(o) == \E k \in 1..Len(o.need) : \E j \in 1..Len(o.need[k].auxes) : o.need[k].auxes[j].other # 0

Flip(x) == IF x >= Hidden THEN x - Hidden ELSE x + Hidden
DefCarried(o) == {o.def[k].ndx : k \in 1..Len(o.def)}
NeedCarried(o) == UNION {{o.need[k].auxes[j].other : j \in 1..Len(o.need[k].auxes)} : k \in 1..Len(o.need)}
\* indices looked up: every carried one, the hidden-bit twins of the smallest and the largest carried one,
\* and some that nobody carries
Twins(car) == IF car = {} THEN {} ELSE {Flip(Min(car)), Flip(Max(car))}
DefQueries(o) == DefCarried(o) \cup Twins(DefCarried(o)) \cup {0, 7, Hidden + 7, 65535}
NeedQueries(o) == LET car == NeedCarried(o) \ {0} IN
                  car \cup Twins(car) \cup {7, Hidden + 7, 65535} \cup (IF 0 \in NeedCarried(o) THEN {} ELSE {0})

(* ------------------------------ container ------------------------------ *)
DotDynsym == <<46, 100, 121, 110, 115, 121, 109>>
DotDynstr == <<46, 100, 121, 110, 115, 116, 114>>
DotGnuVersion == <<46, 103, 110, 117, 46, 118, 101, 114, 115, 105, 111, 110>>
DotGnuVersionD == DotGnuVersion \o <<95, 100>>
DotGnuVersionR == DotGnuVersion \o <<95, 114>>
\* "decoy": two more string tables, also called .dynstr, with other content, one before and one after the
\* real one; only sh_link tells them apart
SecOrder(cont) ==
  CASE cont = "plain" -> <<"dynsym", "dynstr", "versym", "verdef", "verneed">>
    [] cont = "decoy" -> <<"decoy", "dynsym", "versym", "verdef", "verneed", "dynstr", "decoy">>
    [] cont = "rev" -> <<"verneed", "verdef", "versym", "dynstr", "dynsym">>
StrFirst(cont) == cont = "rev"
SIdx(cont, kind) == (CHOOSE p \in 1..Len(SecOrder(cont)) : SecOrder(cont)[p] = kind) + (IF StrFirst(cont) THEN 1 ELSE 0)
Decoy(bs) == [i \in 1..Len(bs) |-> IF bs[i] = 0 THEN 0 ELSE 88]
MkVSec(o, g, kind) ==
  LET str == N(SIdx(o.cont, "dynstr")) IN
  CASE kind = "dynsym" -> Sec(DotDynsym, N(11), N(2), N(4096), g.sym, N(Len(g.sym)), str, N(1), N(8), N(SizeOf(SymF(o.cls), o.cls)))
    [] kind = "dynstr" -> Sec(DotDynstr, N(3), N(2), N(8192), g.str, N(Len(g.str)), Z, Z, N(1), Z)
    [] kind = "decoy" -> Sec(DotDynstr, N(3), N(2), N(12288), Decoy(g.str), N(Len(g.str)), Z, Z, N(1), Z)
    [] kind = "versym" -> Sec(DotGnuVersion, ShtVersym, N(2), N(16384), g.vs, N(Len(g.vs)), N(SIdx(o.cont, "dynsym")), Z, N(2), N(2))
    [] kind = "verdef" -> Sec(DotGnuVersionD, ShtVerdef, N(2), N(20480), g.def, N(Len(g.def)), str, N(g.count.def), N(4), Z)
    [] kind = "verneed" -> Sec(DotGnuVersionR, ShtVerneed, N(2), N(24576), g.need, N(Len(g.need)), str, N(g.count.need), N(4), Z)
ImageOf(o, g) ==
  [Im0 EXCEPT !.cls = o.cls, !.le = o.le, !.machine = IF o.cls = 32 THEN 3 ELSE 62,          \* EM_386 / EM_X86_64
              !.strfirst = StrFirst(o.cont),
              !.secs = [p \in 1..Len(SecOrder(o.cont)) |-> MkVSec(o, g, SecOrder(o.cont)[p])]]

(* --------------------------- reader machine ---------------------------- *)
\* context of one chain section: cx = [kind, bytes, str (linked string table), le, count (sh_info)]
\* state: pc in {"entry", "aux", "auxnext", "next", "end"}; k entries read so far; j auxiliaries of entry k read
NoCur == [what |-> "none", r |-> <<>>, name |-> <<>>]
W0(cx) == [pc |-> IF cx.count = 0 THEN "end" ELSE "entry", entryOff |-> 0, k |-> 0, auxOff |-> 0, j |-> 0, cnt |-> 0,
           enext |-> 0, anext |-> 0, cur |-> NoCur]
EntryFits(cx, ws) == ws.entryOff >= 0 /\ ws.entryOff + EntSize(cx.kind) <= Len(cx.bytes)
AuxFits(cx, ws) == ws.auxOff >= 0 /\ ws.auxOff + AuxSize(cx.kind) <= Len(cx.bytes)
Clamp(n) == IF n > Far THEN Far ELSE n
DoReadEntry(cx, ws) ==
  LET e == Parse(EntF(cx.kind), cx.bytes, ws.entryOff, cx.le)
      f == FN(cx.kind)
  IN [ws EXCEPT !.pc = "aux", !.k = @ + 1, !.j = 0, !.cnt = Num(e[f.cnt]),
                !.auxOff = Clamp(ws.entryOff + Num(e[f.aux])), !.enext = Num(e[f.next]),
                !.cur = [what |-> "entry", r |-> e,
                         name |-> IF cx.kind = "need" THEN StrAt(cx.str, Num(e.vn_file)).s ELSE <<>>]]
DoReadAux(cx, ws) ==
  LET a == Parse(AuxF(cx.kind), cx.bytes, ws.auxOff, cx.le)
      f == FN(cx.kind)
  IN [ws EXCEPT !.j = @ + 1, !.pc = IF ws.j + 1 < ws.cnt THEN "auxnext" ELSE "next", !.anext = Num(a[f.anext]),
                !.cur = [what |-> "aux", r |-> a, name |-> StrAt(cx.str, Num(a[f.aname])).s]]
DoFollowAux(ws) == [ws EXCEPT !.auxOff = Clamp(@ + ws.anext), !.pc = "aux"]
DoAbandon(ws) == [ws EXCEPT !.pc = "next"]
\* leaving an entry forgets everything about its auxiliary chain (consumed or abandoned)
DoFollowNext(cx, ws) ==
  LET fresh == [ws EXCEPT !.auxOff = 0, !.j = 0, !.cnt = 0, !.anext = 0, !.enext = 0, !.cur = NoCur] IN
  IF ws.k < cx.count THEN [fresh EXCEPT !.entryOff = Clamp(@ + ws.enext), !.pc = "entry"]
  ELSE [fresh EXCEPT !.entryOff = 0, !.pc = "end"]

\* versym: one Half per symbol of the linked symbol table; symbol names through that table's string table
SymCount(vs) == Len(vs) \div 2
SymAt(vs, symtab, syment, strtab, le, i) ==
  LET v == Parse(VersymF, vs, 2 * i, le).ndx.n
      nm == Num(Parse(<< <<"st_name", "word">> >>, symtab, i * syment, le).st_name)     \* st_name leads Elfxx_Sym in both classes
  IN [ndx |-> v, sym |-> StrAt(strtab, nm).s]
ASSUME SymF(32)[1] = <<"st_name", "word">> /\ SymF(64)[1] = <<"st_name", "word">>

\* operational look-ups: run the machine, stop at the first record carrying the index
RECURSIVE FindDef(_, _, _)
FindDef(cx, ws, q) ==
  CASE ws.pc = "end" -> 0
    [] ws.pc = "entry" -> LET w1 == DoReadEntry(cx, ws) IN
                          IF w1.cur.r.vd_ndx = N(q) THEN w1.k ELSE FindDef(cx, DoFollowNext(cx, DoAbandon(w1)), q)
RECURSIVE FindNeed(_, _, _)
FindNeed(cx, ws, q) ==                 \* q = -1: any non-zero vna_other (has_indexes)
  CASE ws.pc = "end" -> <<0, 0>>
    [] ws.pc = "entry" -> FindNeed(cx, DoReadEntry(cx, ws), q)
    [] ws.pc = "aux" -> LET w1 == DoReadAux(cx, ws)
                            o == w1.cur.r.vna_other.n
                        IN IF (q = -1 /\ o # 0) \/ o = q THEN <<w1.k, w1.j>> ELSE FindNeed(cx, w1, q)
    [] ws.pc = "auxnext" -> FindNeed(cx, DoFollowAux(ws), q)
    [] ws.pc = "next" -> FindNeed(cx, DoFollowNext(cx, ws), q)

\* the reader that assumes records are physically adjacent (what the links make unnecessary)
RECURSIVE AdjWalk(_, _, _)
AdjWalk(cx, at, k) ==
  IF k = cx.count THEN <<>>
  ELSE IF at + EntSize(cx.kind) > Len(cx.bytes) THEN <<"oob">>
  ELSE LET e == Parse(EntF(cx.kind), cx.bytes, at, cx.le)
           cnt == Num(e[FN(cx.kind).cnt])
           a0 == at + EntSize(cx.kind)
       IN IF cnt > 64 \/ a0 + cnt * AuxSize(cx.kind) > Len(cx.bytes) THEN <<"oob">>
          ELSE <<[e |-> e, auxes |-> [j \in 1..cnt |-> Parse(AuxF(cx.kind), cx.bytes, a0 + (j - 1) * AuxSize(cx.kind), cx.le)]]>>
               \o AdjWalk(cx, a0 + cnt * AuxSize(cx.kind), k + 1)
Bare(v) == [k \in 1..Len(v) |-> [e |-> v[k].e, auxes |-> [j \in 1..Len(v[k].auxes) |-> v[k].auxes[j].a]]]

(* ------------------------------- writer -------------------------------- *)
ClsLe == {<<32, TRUE>>, <<32, FALSE>>, <<64, TRUE>>, <<64, FALSE>>}
NoIts == [def |-> -1, need |-> -1, sym |-> -1]        \* file sessions: entries each open iteration has yielded; -1: none open
NoSess == [kind |-> "none", disc |-> "none", log |-> <<>>, it |-> -1, its |-> NoIts]
Init ==
  /\ phase = "build" /\ obj = <<>> /\ img = <<>> /\ exp = <<>> /\ sec = "none" /\ wk = <<>> /\ sess = NoSess
  /\ \E cl \in ClsLe, m \in Modes, ct \in Containers :
       \/ m = "chains" /\ \E p \in Patterns, ia \in IAs :
            ch = [cls |-> cl[1], le |-> cl[2], mode |-> m, pattern |-> p, ia |-> ia, cont |-> ct, dsh |-> <<>>]
       \/ m = "versym" /\ ch = [cls |-> cl[1], le |-> cl[2], mode |-> m, pattern |-> "packed", ia |-> "seq", cont |-> ct, dsh |-> <<1>>]

IsBig(c) == <<c.cls, c.le, c.cont>> \in BigCombos
EntriesBound(c) == IF IsBig(c) THEN MaxEntries ELSE SmallEntries
AuxBound(c) == IF IsBig(c) THEN MaxAux ELSE SmallAux
AllCombos == {<<c, l, t>> : c \in {32, 64}, l \in BOOLEAN, t \in {"plain", "decoy", "rev"}}
QuickBig == {<<64, TRUE, "plain">>, <<32, FALSE, "decoy">>}
AddEntry ==
  /\ phase = "build" /\ ch.mode = "chains" /\ Len(ch.dsh) < EntriesBound(ch)
  /\ ch' = [ch EXCEPT !.dsh = Append(@, 1)]
  /\ UNCHANGED <<phase, obj, img, exp, sec, wk, sess>>
AddAux ==
  /\ phase = "build" /\ ch.mode = "chains" /\ ch.dsh # <<>> /\ ch.dsh[Len(ch.dsh)] < AuxBound(ch)
  /\ ch' = [ch EXCEPT !.dsh[Len(ch.dsh)] = @ + 1]
  /\ UNCHANGED <<phase, obj, img, exp, sec, wk, sess>>

AllShapes == UNION {[1..n -> 1..SmallAux] : n \in 0..SmallEntries}
NeedShapes(c) == IF c.mode = "versym" THEN {<<2>>} ELSE IF NeedMode = "rev" THEN {Rev(c.dsh)} ELSE AllShapes
ChainCx(kind) == [kind |-> kind, bytes |-> img[kind], str |-> img.str, le |-> obj.le, count |-> img.count[kind]]
\* look-ups do not need names: same machine, empty string table
LookupCx(kind) == [ChainCx(kind) EXCEPT !.str = <<>>]
CxOf(g, le, kind) == [kind |-> kind, bytes |-> g[kind], str |-> g.str, le |-> le, count |-> g.count[kind]]
Finish ==
  /\ phase = "build"
  /\ \E nsh \in NeedShapes(ch), vlen \in (IF ch.mode = "versym" THEN VsLens ELSE {0}) :
       LET o == MkObj(ch, ch.dsh, nsh, vlen)
           g == EncAll(o)
       IN /\ obj' = o /\ img' = g /\ exp' = VerView(o)
          /\ sec' = "def" /\ wk' = W0(CxOf(g, o.le, "def"))
  /\ phase' = "walk"
  /\ UNCHANGED <<ch, sess>>

(* ------------------------------- reader -------------------------------- *)
InChain == phase = "walk" /\ sec \in {"def", "need"}
ReadEntry == /\ InChain /\ wk.pc = "entry" /\ EntryFits(ChainCx(sec), wk)
             /\ wk' = DoReadEntry(ChainCx(sec), wk) /\ UNCHANGED <<phase, ch, obj, img, exp, sec, sess>>
ReadAux == /\ InChain /\ wk.pc = "aux" /\ AuxFits(ChainCx(sec), wk)
           /\ wk' = DoReadAux(ChainCx(sec), wk) /\ UNCHANGED <<phase, ch, obj, img, exp, sec, sess>>
FollowAuxNext == /\ InChain /\ wk.pc = "auxnext"
                 /\ wk' = DoFollowAux(wk) /\ UNCHANGED <<phase, ch, obj, img, exp, sec, sess>>
AbandonAux == /\ InChain /\ wk.pc \in {"aux", "auxnext"}
              /\ wk' = DoAbandon(wk) /\ UNCHANGED <<phase, ch, obj, img, exp, sec, sess>>
FollowNext == /\ InChain /\ wk.pc = "next"
              /\ wk' = DoFollowNext(ChainCx(sec), wk) /\ UNCHANGED <<phase, ch, obj, img, exp, sec, sess>>
NextSection == /\ InChain /\ wk.pc = "end"
               /\ IF sec = "def" THEN sec' = "need" /\ wk' = W0(ChainCx("need"))
                                 ELSE sec' = "sym" /\ wk' = [i |-> 0, cur |-> <<>>]
               /\ UNCHANGED <<phase, ch, obj, img, exp, sess>>
SymEnt == SizeOf(SymF(obj.cls), obj.cls)
ReadSym == /\ phase = "walk" /\ sec = "sym" /\ wk.i < SymCount(img.vs)
           /\ wk' = [i |-> wk.i + 1, cur |-> SymAt(img.vs, img.sym, SymEnt, img.str, obj.le, wk.i)]
           /\ UNCHANGED <<phase, ch, obj, img, exp, sec, sess>>
EndWalk == /\ phase = "walk" /\ sec = "sym" /\ wk.i = SymCount(img.vs)
           /\ phase' = "done" /\ UNCHANGED <<ch, obj, img, exp, sec, wk, sess>>

WalkNext == ReadEntry \/ ReadAux \/ FollowAuxNext \/ AbandonAux \/ FollowNext \/ NextSection \/ ReadSym \/ EndWalk

(* --------------------------- client sessions --------------------------- *)
Count(kind) == Len(obj[kind])
Carried(kind) == IF kind = "def" THEN DefCarried(obj) ELSE NeedCarried(obj) \ {0}
AllQueries(kind) == IF kind = "def" THEN DefQueries(obj) ELSE NeedQueries(obj)
FreeQueries(kind) == LET car == Carried(kind) IN car \cup (IF car = {} THEN {} ELSE {Flip(Min(car))}) \cup {7}
RECURSIVE Asc(_)
Asc(S) == IF S = {} THEN <<>> ELSE LET m == Min(S) IN <<m>> \o Asc(S \ {m})
Letter(op, q) == [op |-> op, q |-> q]
Gets(qs) == [i \in 1..Len(qs) |-> Letter("get", qs[i])]
FreeLetters(kind, it) ==
  {Letter("get", q) : q \in FreeQueries(kind)}
  \cup {Letter(o, 0) : o \in {"num", "all", "open"} \cup (IF kind = "need" THEN {"has"} ELSE {})}
  \cup (IF it >= 0 THEN {Letter("step", 0), Letter("peek", 0)} ELSE {})
Script(kind, disc) ==
  LET up == Asc(Carried(kind))
      absent == Asc(AllQueries(kind) \ Carried(kind))
      mid == <<Letter(IF kind = "need" THEN "has" ELSE "num", 0), Letter("all", 0)>>
      qs == up \o absent
      n == Max({Len(qs), Count(kind) + 2})
  IN CASE disc = "updown" -> Gets(up) \o Gets(absent) \o mid \o Gets(Rev(up))
       [] disc = "downup" -> Gets(Rev(up)) \o mid \o Gets(absent) \o Gets(up)
       [] disc = "weave" -> <<Letter("open", 0)>>
                            \o Flat([i \in 1..n |-> (IF i <= Len(qs) THEN <<Letter("get", qs[i])>> ELSE <<>>)
                                                   \o (IF i <= Count(kind) + 2 THEN <<Letter(IF (i % 2) = 1 THEN "step" ELSE "peek", 0)>> ELSE <<>>)])
\* the answer the property fixes for a call, as <<k, j>>: the entry / auxiliary carrying the index (0: none), a flag, a count
Call(op, q, k, j) == [op |-> op, q |-> q, k |-> k, j |-> j]
Answer(kind, l, it) ==
  CASE l.op = "get" -> (IF kind = "def" THEN Call("get", l.q, DefByIndex(obj, l.q), 0)
                        ELSE LET r == NeedByIndex(obj, l.q) IN Call("get", l.q, r[1], r[2]))
    [] l.op = "has" -> Call("has", 0, IF HasIndexes(obj) THEN 1 ELSE 0, 0)
    [] l.op \in {"num", "all"} -> Call(l.op, 0, Count(kind), 0)
    [] l.op = "open" -> Call("open", 0, 0, 0)
    [] l.op \in {"step", "peek"} -> IF it < Count(kind)
                                    THEN Call(l.op, 0, it + 1, IF l.op = "step" THEN Len(obj[kind][it + 1].auxes) ELSE 1)
                                    ELSE Call(l.op, 0, 0, 0)
NextIt(kind, l, it) == CASE l.op = "open" -> 0
                         [] l.op \in {"step", "peek"} -> IF it < Count(kind) THEN it + 1 ELSE it
                         [] OTHER -> it
SmallShape(entries) == Len(entries) <= SmallEntries /\ \A k \in 1..Len(entries) : Len(entries[k].auxes) <= SmallAux
FreeOK == /\ MaxCalls > 0 /\ <<obj.cls, obj.le, obj.cont>> \in FreeCombos /\ obj.ia \in FreeIAs
          /\ SmallShape(obj.def) /\ SmallShape(obj.need)
StartSession(kind, disc) ==
  /\ phase = "done" /\ obj.mode = "chains" /\ obj.pattern \in SessPatterns
  /\ (disc = "free" => FreeOK)
  /\ sess' = [kind |-> kind, disc |-> disc, log |-> <<>>, it |-> -1, its |-> NoIts]
  /\ phase' = "sess" /\ UNCHANGED <<ch, obj, img, exp, sec, wk>>

\* ---- file sessions: the three section objects of one file object (one shared stream)
SOps == {"sopen", "sstep", "sget", "snum"}   DOps == {"dget", "dopen", "dstep"}   NOps == {"nget", "nopen", "nstep"}
NSyms == Len(obj.versym)
NeedAskable(v) == v # 0 \/ 0 \notin NeedCarried(obj)          \* (index 0 among requirements that carry 0: not asserted)
FileScript(disc) ==
  LET n == NSyms   cd == Count("def")   cn == Count("need")   m == Max({n, cd, cn}) + 1 IN
  CASE disc = "resolve" ->
         <<Letter("sopen", 0)>>
         \o Flat([i \in 1..n |-> <<Letter("sstep", 0), Letter("dget", obj.versym[i])>>
                                  \o (IF NeedAskable(obj.versym[i]) THEN <<Letter("nget", obj.versym[i])>> ELSE <<>>)])
         \o <<Letter("sstep", 0), Letter("snum", 0)>>
    [] disc = "scatter" ->
         <<Letter("sopen", 0)>>
         \o Flat([i \in 1..n |-> <<Letter("sstep", 0), Letter("sget", n - i), Letter("seek", i % 3)>>])
         \o <<Letter("sstep", 0), Letter("seek", 0), Letter("sstep", 0)>>
    [] disc = "braid" ->
         <<Letter("sopen", 0), Letter("dopen", 0), Letter("nopen", 0)>>
         \o Flat([i \in 1..m |-> (IF i <= n + 1 THEN <<Letter("sstep", 0)>> ELSE <<>>)
                                  \o (IF i <= cd + 1 THEN <<Letter("dstep", 0)>> ELSE <<>>)
                                  \o (IF i <= cn + 1 THEN <<Letter("nstep", 0)>> ELSE <<>>)])
FileQ(kind) == LET car == Carried(kind) IN IF car = {} THEN {7} ELSE {Min(car)}
FileFreeLetters(its) ==
  {Letter("dget", q) : q \in FileQ("def") \cup {7}} \cup {Letter("nget", q) : q \in FileQ("need")}
  \cup {Letter("sget", NSyms - 1), Letter("seek", 1)}
  \cup {Letter(o, 0) : o \in {"sopen", "dopen", "nopen"}}
  \cup (IF its.sym >= 0 THEN {Letter("sstep", 0)} ELSE {})
  \cup (IF its.def >= 0 THEN {Letter("dstep", 0)} ELSE {})
  \cup (IF its.need >= 0 THEN {Letter("nstep", 0)} ELSE {})
\* the answer the property fixes: sstep / sget -> <<position of the symbol (1-based; 0: exhausted), its index>>;
\* dstep / nstep -> <<entry number (0: exhausted), number of auxiliaries of its chain>>; look-ups as above
FileAnswer(l, its) ==
  CASE l.op = "dget" -> Call("dget", l.q, DefByIndex(obj, l.q), 0)
    [] l.op = "nget" -> LET r == NeedByIndex(obj, l.q) IN Call("nget", l.q, r[1], r[2])
    [] l.op \in {"sopen", "dopen", "nopen", "seek"} -> Call(l.op, l.q, 0, 0)
    [] l.op = "sstep" -> IF its.sym < NSyms THEN Call("sstep", 0, its.sym + 1, obj.versym[its.sym + 1]) ELSE Call("sstep", 0, 0, 0)
    [] l.op = "sget" -> Call("sget", l.q, l.q + 1, obj.versym[l.q + 1])
    [] l.op = "snum" -> Call("snum", 0, NSyms, 0)
    [] l.op = "dstep" -> IF its.def < Count("def") THEN Call("dstep", 0, its.def + 1, Len(obj.def[its.def + 1].auxes)) ELSE Call("dstep", 0, 0, 0)
    [] l.op = "nstep" -> IF its.need < Count("need") THEN Call("nstep", 0, its.need + 1, Len(obj.need[its.need + 1].auxes)) ELSE Call("nstep", 0, 0, 0)
FileNextIts(l, its) ==
  CASE l.op = "sopen" -> [its EXCEPT !.sym = 0]
    [] l.op = "dopen" -> [its EXCEPT !.def = 0]
    [] l.op = "nopen" -> [its EXCEPT !.need = 0]
    [] l.op = "sstep" -> IF its.sym < NSyms THEN [its EXCEPT !.sym = @ + 1] ELSE its
    [] l.op = "dstep" -> IF its.def < Count("def") THEN [its EXCEPT !.def = @ + 1] ELSE its
    [] l.op = "nstep" -> IF its.need < Count("need") THEN [its EXCEPT !.need = @ + 1] ELSE its
    [] OTHER -> its
FreePrefix == <<Call("sopen", 0, 0, 0), Call("sstep", 0, 1, obj.versym[1])>>
StartFileSession(disc) ==
  /\ phase = "done" /\ obj.mode = "chains" /\ obj.pattern \in SessPatterns /\ obj.ia \in FileIAs
  /\ (disc = "free" => FreeOK /\ MaxFileCalls > 0)
  \* a "free" session starts with the version-symbol iteration open and advanced by one symbol
  /\ sess' = [kind |-> "file", disc |-> disc, log |-> IF disc = "free" THEN FreePrefix ELSE <<>>, it |-> -1,
              its |-> IF disc = "free" THEN [NoIts EXCEPT !.sym = 1] ELSE NoIts]
  /\ phase' = "sess" /\ UNCHANGED <<ch, obj, img, exp, sec, wk>>

SessLen == IF sess.kind = "file" THEN (IF sess.disc = "free" THEN MaxFileCalls + Len(FreePrefix) ELSE Len(FileScript(sess.disc)))
           ELSE IF sess.disc = "free" THEN MaxCalls ELSE Len(Script(sess.kind, sess.disc))
ClientCall ==
  /\ phase = "sess" /\ Len(sess.log) < SessLen
  /\ IF sess.kind = "file"
     THEN \E l \in (IF sess.disc = "free" THEN FileFreeLetters(sess.its) ELSE {FileScript(sess.disc)[Len(sess.log) + 1]}) :
            sess' = [sess EXCEPT !.log = Append(@, FileAnswer(l, sess.its)), !.its = FileNextIts(l, sess.its)]
     ELSE \E l \in (IF sess.disc = "free" THEN FreeLetters(sess.kind, sess.it) ELSE {Script(sess.kind, sess.disc)[Len(sess.log) + 1]}) :
            sess' = [sess EXCEPT !.log = Append(@, Answer(sess.kind, l, sess.it)), !.it = NextIt(sess.kind, l, sess.it)]
  /\ UNCHANGED <<phase, ch, obj, img, exp, sec, wk>>
SessNext == \/ \E kind \in {"def", "need"}, disc \in Disciplines : StartSession(kind, disc)
            \/ \E disc \in FileDisciplines : StartFileSession(disc)
            \/ ClientCall

Next == AddEntry \/ AddAux \/ Finish \/ WalkNext \/ SessNext
Spec == Init /\ [][Next]_vars

(* ------------------------------ emission ------------------------------- *)
\* A case is written as several lines, each below 8 KB: CSVWrite appends a line with one write() only up
\* to that size, and lines of different workers must not interleave.  Every line carries the case key,
\* its number and the number of lines of the case; the replay side reassembles them.
Tag == obj.mode \o "/" \o obj.pattern \o "/" \o obj.ia \o "/" \o obj.cont
CaseKey == ToString(<<obj.mode, obj.pattern, obj.ia, obj.cont, obj.cls, obj.le, Shape(obj.def), Shape(obj.need), Len(obj.versym)>>)
Piece == 1200
RECURSIVE SplitChunk(_)
SplitChunk(c) == IF Len(c[2]) <= Piece \/ c[3] # 1 THEN <<c>>
                 ELSE <<<<c[1], SubSeq(c[2], 1, Piece), 1>>>> \o SplitChunk(<<c[1] + Piece, SubSeq(c[2], Piece + 1, Len(c[2])), 1>>)
RECURSIVE Slices(_, _)
Slices(sq, n) == IF Len(sq) <= n THEN <<sq>> ELSE <<SubSeq(sq, 1, n)>> \o Slices(SubSeq(sq, n + 1, Len(sq)), n)
CaseParts ==
  LET cs == Chunks(ImageOf(obj, img))
      pcs == Flat([i \in 1..Len(cs) |-> SplitChunk(cs[i])])
      vss == Slices(exp.versym, 40)
  IN << [t |-> "head", v |-> [tag |-> Tag, cls |-> obj.cls, le |-> obj.le,
                              shape |-> <<Shape(obj.def), Shape(obj.need), Len(obj.versym)>>,
                              idx |-> [versym |-> SIdx(obj.cont, "versym"), verdef |-> SIdx(obj.cont, "verdef"),
                                       verneed |-> SIdx(obj.cont, "verneed"), dynsym |-> SIdx(obj.cont, "dynsym")],
                              defq |-> {<<q, DefByIndex(obj, q)>> : q \in DefQueries(obj)},
                              needq |-> {<<q, NeedByIndex(obj, q)[1], NeedByIndex(obj, q)[2]>> : q \in NeedQueries(obj)},
                              has_indexes |-> HasIndexes(obj)]],
        [t |-> "def", v |-> exp.def], [t |-> "need", v |-> exp.need] >>
     \o [i \in 1..Len(pcs) |-> [t |-> "chunk", v |-> pcs[i]]]
     \o [i \in 1..Len(vss) |-> [t |-> "versym", v |-> vss[i]]]
\* a finished session is one more line of its object's case (n = 0: not counted among the case's parts)
SessLine == [k |-> CaseKey, n |-> 0, i |-> 0, t |-> "sess",
             v |-> [kind |-> sess.kind, disc |-> sess.disc,
                    log |-> [i \in 1..Len(sess.log) |-> <<sess.log[i].op, sess.log[i].q, sess.log[i].k, sess.log[i].j>>]]]
Emit ==
  /\ phase = "done" =>
       LET parts == CaseParts
           key == CaseKey
       IN \A i \in 1..Len(parts) :
            CSVWrite("%1$s", <<ToJson([k |-> key, n |-> Len(parts), i |-> i, t |-> parts[i].t, v |-> parts[i].v])>>, IOEnv.OUT)
  /\ (phase = "sess" /\ Len(sess.log) = SessLen => CSVWrite("%1$s", <<ToJson(SessLine)>>, IOEnv.OUT))

(* ------------------------------ properties ----------------------------- *)
Walking == phase \in {"walk", "done"}
\* generator sanity: no two entries carry the same index (0 = "no index" may repeat among requirements)
NoDup ==
  Walking => /\ \A k1, k2 \in 1..Len(obj.def) : obj.def[k1].ndx = obj.def[k2].ndx => k1 = k2
             /\ \A q \in NeedCarried(obj) \ {0} : Cardinality(NeedCarriers(obj, q)) = 1
\* records tile without overlap inside the section, displacements are forward, first entry at 0
LayOK(kind, lay, size) ==
  /\ lay.size = size
  /\ (lay.ord # <<>> => lay.ord[1] = <<1, 0>> /\ lay.offs[1] = 0)
  /\ \A i \in 1..Len(lay.ord) : lay.offs[i] + RSize(kind, lay.ord[i]) <= size
  /\ \A i \in 1..(Len(lay.ord) - 1) : lay.offs[i] + RSize(kind, lay.ord[i]) <= lay.offs[i + 1]
  /\ \A i \in 1..Len(lay.ord) :
       LET r == lay.ord[i] IN
       IF r[2] = 0 THEN /\ OffOf(lay, r[1], 1) > lay.offs[i]
                        /\ (<<r[1] + 1, 0>> \in {lay.ord[x] : x \in 1..Len(lay.ord)} => OffOf(lay, r[1] + 1, 0) > lay.offs[i])
       ELSE (<<r[1], r[2] + 1>> \in {lay.ord[x] : x \in 1..Len(lay.ord)} => OffOf(lay, r[1], r[2] + 1) > lay.offs[i])
LayoutWellFormed ==
  phase = "done" => /\ LayOK("def", DefLayout(obj), Len(img.def)) /\ LayOK("need", NeedLayout(obj), Len(img.need))
                    /\ Len(img.vs) = 2 * Len(obj.versym) /\ Len(img.sym) = SymEnt * Len(obj.syms)
InBounds ==
  InChain => /\ (wk.pc = "entry" => EntryFits(ChainCx(sec), wk))
             /\ (wk.pc = "aux" => AuxFits(ChainCx(sec), wk))
\* what the walker has just read by following the links is the view's record, names included
ChainFollowsLinks ==
  InChain => /\ wk.k <= Len(exp[sec])
             /\ (wk.cur.what = "entry" => LET v == exp[sec][wk.k] IN wk.cur.r = v.e /\ wk.cur.name = v.name /\ wk.cnt = Len(v.auxes))
             /\ (wk.cur.what = "aux" => /\ wk.j <= Len(exp[sec][wk.k].auxes)
                                        /\ LET v == exp[sec][wk.k].auxes[wk.j] IN wk.cur.r = v.a /\ wk.cur.name = v.name)
WalkComplete == InChain /\ wk.pc = "end" => wk.k = Len(exp[sec]) /\ wk.k = Len(obj[sec])
SymMatches ==
  phase = "walk" /\ sec = "sym" =>
    /\ SymCount(img.vs) = Len(obj.versym) /\ Len(exp.versym) = Len(obj.syms)
    /\ (wk.i > 0 => /\ wk.cur.ndx = exp.versym[wk.i].ndx /\ wk.cur.sym = exp.versym[wk.i].sym
                    /\ wk.cur.ndx = obj.versym[wk.i] /\ wk.cur.sym = obj.syms[wk.i])
Discriminates ==
  phase = "done" =>
    \A kind \in {"def", "need"} :
      Layout(kind, obj.pattern, Shape(obj[kind])).offs # Layout(kind, "packed", Shape(obj[kind])).offs
        => AdjWalk(ChainCx(kind), 0, 0) # Bare(exp[kind])
PackedIsAdjacent ==
  phase = "done" /\ obj.pattern = "packed" => \A kind \in {"def", "need"} : AdjWalk(ChainCx(kind), 0, 0) = Bare(exp[kind])
\* sound: a hit carries the index (and is the declarative answer); complete: a carried index is found
IndexResolution ==
  phase = "done" =>
    /\ \A q \in DefQueries(obj) :
         LET r == FindDef(LookupCx("def"), W0(LookupCx("def")), q) IN
         /\ (r # 0 => obj.def[r].ndx = q)
         /\ ((\E k \in 1..Len(obj.def) : obj.def[k].ndx = q) => r # 0)
         /\ r = DefByIndex(obj, q)
    /\ \A q \in NeedQueries(obj) :
         LET r == FindNeed(LookupCx("need"), W0(LookupCx("need")), q) IN
         /\ (r # <<0, 0>> => obj.need[r[1]].auxes[r[2]].other = q)
         /\ (NeedCarriers(obj, q) # {} => r # <<0, 0>>)
         /\ r = NeedByIndex(obj, q)
    /\ DefCarried(obj) \subseteq DefQueries(obj)
    /\ (NeedCarried(obj) \ {0}) \subseteq NeedQueries(obj)
HasIndexesIff ==
  phase = "done" => ((FindNeed(LookupCx("need"), W0(LookupCx("need")), -1) # <<0, 0>>) <=> HasIndexes(obj))
\* the two string readers agree on every name offset of the generated table
StringsAgree ==
  phase = "done" => LET st == StrInfo(obj) IN
                    \A i \in 1..Len(st.pool) : StrAt(img.str, st.offs[i]).s = st.pool[i] /\ CStrAt(img.str, st.offs[i]).s = st.pool[i]
ImageWellFormed == phase = "done" => ChunksDisjoint(ImageOf(obj, img))
\* sh_link of every version section designates a section of the right type
LinksResolve ==
  phase = "done" =>
    LET im == ImageOf(obj, img)
        S(kind) == im.secs[CHOOSE p \in 1..Len(im.secs) : UserIndex(im, p) = SIdx(obj.cont, kind)]
        Linked(kind) == im.secs[CHOOSE p \in 1..Len(im.secs) : UserIndex(im, p) = S(kind).link.n]
    IN /\ SectionKind(im.machine, S("verdef").type, S("verdef").name) = "verdef"
       /\ SectionKind(im.machine, S("verneed").type, S("verneed").name) = "verneed"
       /\ SectionKind(im.machine, S("versym").type, S("versym").name) = "versym"
       /\ Linked("verdef").type = N(3) /\ Linked("verdef").data = img.str
       /\ Linked("verneed").type = N(3) /\ Linked("verneed").data = img.str
       /\ Linked("versym").type = N(11) /\ Linked("versym").data = img.sym
       /\ Linked("dynsym").data = img.str
       /\ S("verdef").info = N(Len(obj.def)) /\ S("verneed").info = N(Len(obj.need))

\* termination: <<sections left, entries left, auxiliaries left, rank of pc>> decreases lexicographically
Measure ==
  IF phase # "walk" THEN <<0, 0, 0, 0>>
  ELSE IF sec = "sym" THEN <<1, SymCount(img.vs) - wk.i + 1, 0, 0>>
  ELSE <<IF sec = "def" THEN 3 ELSE 2,
         IF wk.pc = "end" THEN 0 ELSE img.count[sec] - wk.k + 1,
         IF wk.pc \in {"aux", "auxnext"} THEN wk.cnt - wk.j ELSE 0,
         IF wk.pc \in {"auxnext", "next"} THEN 1 ELSE 0>>
LexLess(a, b) == \E i \in 1..4 : a[i] < b[i] /\ \A x \in 1..(i - 1) : a[x] = b[x]
Progress == [][phase = "walk" => LexLess(Measure', Measure) /\ \A i \in 1..4 : Measure'[i] >= 0]_vars
\* some step is possible until the walk is done: WalkGuard is the disjunction of the guards of the
\* reader actions written out (cheap); NeverStuck states it with ENABLED (thorough tier)
WalkGuard ==
  phase = "walk" =>
    IF sec = "sym" THEN wk.i <= SymCount(img.vs)
    ELSE \/ wk.pc = "entry" /\ EntryFits(ChainCx(sec), wk)
         \/ wk.pc = "aux" /\ AuxFits(ChainCx(sec), wk)
         \/ wk.pc \in {"auxnext", "next", "end"}
NeverStuck == phase = "walk" => ENABLED WalkNext

\* sessions.  The answer logged for the latest call is what a walk of the section's bytes started afresh yields,
\* whatever calls preceded it on the same object (by induction over the log: every call of every session)
FreshFind(kind, q) == IF kind = "def" THEN <<FindDef(LookupCx("def"), W0(LookupCx("def")), q), 0>>
                      ELSE FindNeed(LookupCx("need"), W0(LookupCx("need")), q)
SessionAnswers ==
  phase = "sess" /\ sess.kind # "file" /\ sess.log # <<>> =>
    LET c == sess.log[Len(sess.log)] IN
    CASE c.op = "get" -> FreshFind(sess.kind, c.q) = <<c.k, c.j>>
      [] c.op = "has" -> (c.k = 1) <=> (FindNeed(LookupCx("need"), W0(LookupCx("need")), -1) # <<0, 0>>)
      [] c.op \in {"num", "all"} -> c.k = img.count[sess.kind] /\ c.k = Len(exp[sess.kind])
      [] OTHER -> TRUE
\* an iteration yields the entries in link order, each once, then stays exhausted - whatever is called in between
LastOpen(log) == Max({0} \cup {i \in 1..Len(log) : log[i].op = "open"})
StepsAfterOpen(log) == SelectSeq(SubSeq(log, LastOpen(log) + 1, Len(log)), LAMBDA c : c.op \in {"step", "peek"})
IterInOrder ==
  phase = "sess" /\ sess.kind # "file" =>
    /\ (\A i \in 1..Len(sess.log) : sess.log[i].op \in {"step", "peek"} => LastOpen(SubSeq(sess.log, 1, i)) > 0)
    /\ LET st == StepsAfterOpen(sess.log) IN
       \A i \in 1..Len(st) : IF i <= Count(sess.kind)
                              THEN st[i].k = i /\ st[i].j = (IF st[i].op = "step" THEN Len(exp[sess.kind][i].auxes) ELSE 1)
                              ELSE st[i].k = 0
\* file sessions: every logged answer is what a fresh read of the bytes yields - symbol n of the version-symbol table by
\* SymAt (index from the table, name through the linked symbol table and its string table), look-ups by the walks,
\* iteration steps by the view's chains
FileSessionAnswers ==
  phase = "sess" /\ sess.kind = "file" /\ sess.log # <<>> =>
    LET c == sess.log[Len(sess.log)] IN
    CASE c.op \in {"sstep", "sget"} ->
           (c.k > 0 => LET r == SymAt(img.vs, img.sym, SymEnt, img.str, obj.le, c.k - 1) IN
                       /\ c.k <= SymCount(img.vs) /\ r.ndx = c.j /\ r.sym = exp.versym[c.k].sym /\ c.j = exp.versym[c.k].ndx
                       /\ (c.op = "sget" => c.k = c.q + 1))
      [] c.op = "snum" -> c.k = SymCount(img.vs)
      [] c.op = "dget" -> FreshFind("def", c.q) = <<c.k, c.j>>
      [] c.op = "nget" -> FreshFind("need", c.q) = <<c.k, c.j>>
      [] c.op = "dstep" -> c.k <= Len(exp.def) /\ (c.k > 0 => c.j = Len(exp.def[c.k].auxes))
      [] c.op = "nstep" -> c.k <= Len(exp.need) /\ (c.k > 0 => c.j = Len(exp.need[c.k].auxes))
      [] OTHER -> TRUE
\* each of the three iterations yields 1..n in order, then stays exhausted, undisturbed by whatever is called in between
LastOp(log, op) == Max({0} \cup {i \in 1..Len(log) : log[i].op = op})
OpsAfter(log, open, step) == SelectSeq(SubSeq(log, LastOp(log, open) + 1, Len(log)), LAMBDA c : c.op = step)
FileIterInOrder ==
  phase = "sess" /\ sess.kind = "file" =>
    \A x \in {<<"sopen", "sstep", SymCount(img.vs)>>, <<"dopen", "dstep", img.count.def>>, <<"nopen", "nstep", img.count.need>>} :
      /\ (\A i \in 1..Len(sess.log) : sess.log[i].op = x[2] => LastOp(SubSeq(sess.log, 1, i), x[1]) > 0)
      /\ LET st == OpsAfter(sess.log, x[1], x[2]) IN \A i \in 1..Len(st) : st[i].k = (IF i <= x[3] THEN i ELSE 0)
SessionFrame == [][phase = "sess" => phase' = "sess" /\ UNCHANGED <<ch, obj, img, exp, sec, wk>> /\ Len(sess'.log) = Len(sess.log) + 1]_vars
=============================================================================
