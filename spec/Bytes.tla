------------------------------- MODULE Bytes -------------------------------
(***************************************************************************)
(* Numbers and byte encodings shared by every other module.                *)
(*                                                                         *)
(* TLC integers are 32-bit, ELF/DWARF fields are up to 64-bit and LEB128   *)
(* has no bound.  Two kinds of number are therefore kept apart:            *)
(*   Small  - an ordinary TLA+ integer (|n| < 2^30): cursors, sizes,       *)
(*            counts, and every value the spec does arithmetic on;         *)
(*   Wide   - a little-endian base-256 digit string [d |-> <<..>>, s |->   *)
(*            signed?] (fixed width) or a base-128 group string            *)
(*            [g |-> <<..>>, s |-> signed?] (LEB128, possibly non-minimal) *)
(*            that is only carried, compared, or combined by the ripple-   *)
(*            carry operators below.                                       *)
(* The Python side has exactly one piece of knowledge about these:         *)
(* denote(Wide) -> int.                                                    *)
(***************************************************************************)
EXTENDS Integers, Sequences, FiniteSets

Byte == 0..255

Min(S) == CHOOSE x \in S : \A y \in S : x <= y
Max(S) == CHOOSE x \in S : \A y \in S : x >= y

RECURSIVE Pow(_, _)
Pow(b, e) == IF e = 0 THEN 1 ELSE b * Pow(b, e - 1)

Rev(s) == [i \in 1..Len(s) |-> s[Len(s) + 1 - i]]

\* concatenation of a sequence of sequences, balanced so that long sequences do not overflow the Java stack
RECURSIVE FlatR(_, _, _)
FlatR(ss, lo, hi) == IF lo > hi THEN <<>> ELSE IF lo = hi THEN ss[lo]
                     ELSE LET mid == (lo + hi) \div 2 IN FlatR(ss, lo, mid) \o FlatR(ss, mid + 1, hi)
Flat(ss) == FlatR(ss, 1, Len(ss))
\* sum of f[lo..hi], balanced
RECURSIVE SumR(_, _, _)
SumR(f, lo, hi) == IF lo > hi THEN 0 ELSE IF lo = hi THEN f[lo]
                   ELSE LET mid == (lo + hi) \div 2 IN SumR(f, lo, mid) + SumR(f, mid + 1, hi)

Rep(b, n) == [i \in 1..n |-> b]

Slice(s, from, n) == [i \in 1..n |-> s[from + i - 1]]     \* n elements starting at index `from`

(* ---------------------------------------------------------------------- *)
(* Fixed width                                                            *)
(* ---------------------------------------------------------------------- *)
RECURSIVE LEn(_, _)
LEn(n, w) == IF w = 0 THEN <<>> ELSE <<n % 256>> \o LEn(n \div 256, w - 1)   \* Small >= 0 -> w LE digits

\* two's complement digits of a (possibly negative) Small, w digits (w <= 8)
LEs(n, w) == IF n >= 0 THEN LEn(n, w)
             ELSE LET m == -n - 1                           \* ~m
                      dm == LEn(m, w)
                  IN [i \in 1..w |-> 255 - dm[i]]

RECURSIVE NatOf(_)
NatOf(d) == IF d = <<>> THEN 0 ELSE Head(d) + 256 * NatOf(Tail(d))          \* only for Len(d) <= 3 (or small values)

\* Field values are records so that TLC can tell the two kinds apart:
N(n) == [n |-> n]                       \* a Small
W(d) == [d |-> d, s |-> FALSE]          \* a Wide, unsigned reading
WS(d) == [d |-> d, s |-> TRUE]          \* a Wide, two's complement reading
IsSmall(v) == "n" \in DOMAIN v

\* digits of a field value (Small or Wide) at width w
Digits(v, w) == IF IsSmall(v) THEN LEs(v.n, w) ELSE [i \in 1..w |-> IF i <= Len(v.d) THEN v.d[i] ELSE 0]

\* the bytes of a fixed-width field: little- or big-endian
Fix(v, w, le) == IF le THEN Digits(v, w) ELSE Rev(Digits(v, w))

\* value of a byte string read as an unsigned/signed integer of its length
FixDec(bs, le, signed) == [d |-> IF le THEN bs ELSE Rev(bs), s |-> signed]
\* the same as a Small where it is safe (<= 3 bytes)
SmallDec(bs, le, signed) ==
  LET d == IF le THEN bs ELSE Rev(bs)
      n == NatOf(d)
  IN IF signed /\ Len(d) > 0 /\ d[Len(d)] >= 128 THEN n - Pow(256, Len(d)) ELSE n

\* ripple-carry arithmetic on equal-length digit strings, modulo 256^w
RECURSIVE AddC(_, _, _)
AddC(a, b, c) == IF a = <<>> THEN <<>>
                 ELSE LET s == Head(a) + Head(b) + c IN <<s % 256>> \o AddC(Tail(a), Tail(b), s \div 256)
DAdd(a, b) == AddC(a, b, 0)
DNot(a) == [i \in 1..Len(a) |-> 255 - a[i]]
DOne(w) == [i \in 1..w |-> IF i = 1 THEN 1 ELSE 0]
DZero(w) == [i \in 1..w |-> 0]
DNeg(a) == DAdd(DNot(a), DOne(Len(a)))
DSub(a, b) == DAdd(a, DNeg(b))
DTrunc(a, w) == [i \in 1..w |-> IF i <= Len(a) THEN a[i] ELSE 0]
DSext(a, w) == [i \in 1..w |-> IF i <= Len(a) THEN a[i] ELSE IF a[Len(a)] >= 128 THEN 255 ELSE 0]
DIsNeg(a) == a[Len(a)] >= 128
RoundUp(n, k) == ((n + k - 1) \div k) * k

(* ---------------------------------------------------------------------- *)
(* LEB128 (DWARF 7.6)                                                     *)
(* ---------------------------------------------------------------------- *)
\* minimal encodings of a Small
RECURSIVE UlebOfNat(_)
UlebOfNat(n) == IF n < 128 THEN <<n>> ELSE <<(n % 128) + 128>> \o UlebOfNat(n \div 128)
RECURSIVE SlebOfInt(_)
SlebOfInt(n) == LET b == n % 128   r == (n - b) \div 128 IN
                IF (r = 0 /\ b < 64) \/ (r = -1 /\ b >= 64) THEN <<b>> ELSE <<b + 128>> \o SlebOfInt(r)
\* an encoding from explicit 7-bit groups (may be non-minimal)
LebOfGroups(g) == [i \in 1..Len(g) |-> IF i < Len(g) THEN g[i] + 128 ELSE g[i]]
\* non-minimal variants: pad an unsigned value with k zero groups / a signed one with sign groups
UlebPadded(n, k) == LET m == UlebOfNat(n) IN
                    IF k = 0 THEN m
                    ELSE [i \in 1..(Len(m) + k) |-> IF i < Len(m) THEN m[i]
                                                    ELSE IF i = Len(m) THEN m[i] + 128
                                                    ELSE IF i < Len(m) + k THEN 128 ELSE 0]
SlebPadded(n, k) == LET m == SlebOfInt(n)   f == IF n < 0 THEN 127 ELSE 0 IN
                    IF k = 0 THEN m
                    ELSE [i \in 1..(Len(m) + k) |-> IF i < Len(m) THEN m[i]
                                                    ELSE IF i = Len(m) THEN m[i] + 128
                                                    ELSE IF i < Len(m) + k THEN f + 128 ELSE f]

\* Denotational decoder: the encoding is the shortest prefix ending in a byte < 128;
\* its value is the base-128 number of the low 7 bits (sign from bit 6 of the last group).
LebTerm(bs) == {i \in 1..Len(bs) : bs[i] < 128}
LebDec(bs, signed) ==
  IF LebTerm(bs) = {} THEN [ok |-> FALSE, used |-> Len(bs), val |-> [g |-> <<>>, s |-> signed]]
  ELSE LET k == Min(LebTerm(bs)) IN
       [ok |-> TRUE, used |-> k, val |-> [g |-> [i \in 1..k |-> bs[i] % 128], s |-> signed]]

\* Small value of a group string (only when it fits: <= 4 groups)
RECURSIVE GroupsNat(_)
GroupsNat(g) == IF g = <<>> THEN 0 ELSE Head(g) + 128 * GroupsNat(Tail(g))
GroupsInt(g, signed) == IF signed /\ g[Len(g)] >= 64 THEN GroupsNat(g) - Pow(128, Len(g)) ELSE GroupsNat(g)

\* Operational decoder: the byte-at-a-time machine of the implementation
\* (value |= (b & 0x7f) << shift; shift += 7; stop when b & 0x80 = 0).
LebInit == [pos |-> 0, shift |-> 0, acc |-> 0, done |-> FALSE, last |-> 0]
LebStep(st, b) == [pos |-> st.pos + 1, shift |-> st.shift + 7,
                   acc |-> st.acc + (b % 128) * Pow(2, st.shift), done |-> b < 128, last |-> b]
RECURSIVE LebRun(_, _)
LebRun(st, bs) == IF st.done \/ bs = <<>> THEN st ELSE LebRun(LebStep(st, Head(bs)), Tail(bs))
LebResult(st, signed) == IF signed /\ st.last % 128 >= 64 THEN st.acc - Pow(2, st.shift) ELSE st.acc

(* ---------------------------------------------------------------------- *)
(* Strings                                                                *)
(* ---------------------------------------------------------------------- *)
\* Declarative: bytes from `pos` (0-based) up to, not including, the first NUL at or after pos
NulAt(bs, pos) == {i \in (pos + 1)..Len(bs) : bs[i] = 0}
CStrAt(bs, pos) == IF NulAt(bs, pos) = {} THEN [ok |-> FALSE, s |-> <<>>, used |-> 0]
                   ELSE LET z == Min(NulAt(bs, pos)) IN
                        [ok |-> TRUE, s |-> [i \in 1..(z - 1 - pos) |-> bs[pos + i]], used |-> z - pos]
\* Operational: the 64-byte chunked reader (read a chunk, search a NUL, keep or cut, stop on short chunk)
Chunk == 64
RECURSIVE ChunkRun(_, _, _)
ChunkRun(bs, pos, acc) ==
  LET n == IF Len(bs) - pos >= Chunk THEN Chunk ELSE IF Len(bs) > pos THEN Len(bs) - pos ELSE 0
      zs == {i \in 1..n : bs[pos + i] = 0}
  IN IF zs # {} THEN [ok |-> TRUE, s |-> acc \o [i \in 1..(Min(zs) - 1) |-> bs[pos + i]]]
     ELSE IF n < Chunk THEN [ok |-> FALSE, s |-> <<>>]
     ELSE ChunkRun(bs, pos + n, acc \o [i \in 1..n |-> bs[pos + i]])

(* ---------------------------------------------------------------------- *)
(* DWARF initial length (DWARF5 7.4): first word < 0xfffffff0 -> 32-bit   *)
(* length; 0xffffffff -> 64-bit length in the next 8 bytes;               *)
(* 0xfffffff0..0xfffffffe reserved.                                       *)
(* ---------------------------------------------------------------------- *)
InitialLength(bs, le) ==
  IF Len(bs) < 4 THEN [ok |-> FALSE, why |-> "truncated", used |-> 0, is64 |-> FALSE, len |-> W(<<>>)]
  ELSE LET f == IF le THEN Slice(bs, 1, 4) ELSE Rev(Slice(bs, 1, 4)) IN
       IF f[4] = 255 /\ f[3] = 255 /\ f[2] = 255 /\ f[1] = 255
       THEN IF Len(bs) < 12 THEN [ok |-> FALSE, why |-> "truncated", used |-> 0, is64 |-> TRUE, len |-> W(<<>>)]
            ELSE [ok |-> TRUE, why |-> "", used |-> 12, is64 |-> TRUE,
                  len |-> W(IF le THEN Slice(bs, 5, 8) ELSE Rev(Slice(bs, 5, 8)))]
       ELSE IF f[4] = 255 /\ f[3] = 255 /\ f[2] = 255 /\ f[1] >= 240
       THEN [ok |-> FALSE, why |-> "reserved", used |-> 0, is64 |-> FALSE, len |-> W(<<>>)]
       \* 0xffffff00..0xffffffef: reserved by DWARF 2-4 (7.4), an ordinary 32-bit length in DWARF 5: "v5only".
       \* What a decoder must do depends on the version it is configured for - see InitialLengthFor.
       ELSE IF f[4] = 255 /\ f[3] = 255 /\ f[2] = 255
       THEN [ok |-> TRUE, why |-> "v5only", used |-> 4, is64 |-> FALSE, len |-> W(f)]
       ELSE [ok |-> TRUE, why |-> "", used |-> 4, is64 |-> FALSE, len |-> W(f)]

\* The same for a decoder configured for DWARF version `ver` (the library's struct sets carry one, default 2):
\* versions 2-4 reject the "v5only" words as reserved escapes; for version 5 the word is a valid length, and because a reader
\* meets the field before it can know the version, either answer is accepted there (both = TRUE).
InitialLengthFor(bs, le, ver) ==
  LET r == InitialLength(bs, le) IN
  IF r.why = "v5only" /\ ver <= 4
  THEN [ok |-> FALSE, why |-> "reserved", used |-> 0, is64 |-> FALSE, len |-> W(<<>>), both |-> FALSE]
  ELSE [ok |-> r.ok, why |-> r.why, used |-> r.used, is64 |-> r.is64, len |-> r.len, both |-> r.why = "v5only"]

=============================================================================
