------------------------------ MODULE FaultWalk ------------------------------
(***************************************************************************)
(* C19 (c) - WALKER TERMINATION.  Every enumeration loop the property names *)
(* ("enumerating headers, sections, segments, symbol counts, dynamic tags   *)
(* and notes", plus the hash-table counts and the version chains of its     *)
(* quantifier) as a small deterministic machine over a finite abstract file *)
(* of n units (n <= 64), read the way the format documents tell a reader to *)
(* walk it:                                                                *)
(*   shdr      gABI ch.4 "ELF Header"/"Sections": e_shnum entries of         *)
(*             e_shentsize bytes from e_shoff; e_shnum = 0 with a table     *)
(*             present: the count is sh_size of entry 0 (extended numbering)*)
(*   phdr      gABI ch.5 "Program Header": e_phnum entries of e_phentsize   *)
(*             bytes from e_phoff; e_phnum = PN_XNUM (0xffff): the count is  *)
(*             sh_info of section header 0.  `phdr0`: the same loop on a    *)
(*             valid file WITHOUT a table (e_phoff = e_phentsize = e_phnum  *)
(*             = 0, e.g. a relocatable object); `shdr0` likewise for a      *)
(*             file without section headers (a stripped executable)        *)
(*   symcount  gABI ch.4 "Symbol Table": sh_size / sh_entsize entries       *)
(*   dyn       gABI ch.5 "Dynamic Section": entries up to the DT_NULL entry  *)
(*   notes     gABI ch.5 "Note Section": header of three words, name and    *)
(*             descriptor padded; next note after them (cf. NoteWalk.tla)   *)
(*   sysvhash  gABI ch.5 "Hash Table": nbucket, nchain, then nbucket+nchain *)
(*             words; the symbol count is nchain                           *)
(*   gnuhash   GNU hash section (cf. HashWalk.tla): header of four words,   *)
(*             bloom words, nbuckets words; the count is found by walking   *)
(*             the chain of the highest bucket to the word with bit 0 set   *)
(*   verchain  LSB "Symbol Versioning": sh_info Verdef/Verneed entries      *)
(*             linked by vd_next/vn_next, each with vd_cnt/vn_cnt           *)
(*             auxiliaries from vd_aux/vn_aux linked by vda_next/vna_next   *)
(*   links     gABI ch.4 figure 4-14 "sh_link and sh_info interpretation":   *)
(*             enumerating the sections makes, for a section whose kind      *)
(*             gives sh_link a meaning, the object of the section that field *)
(*             designates (a symbol table's string table, a hash / version / *)
(*             relocation / group / index section's symbol table), which in  *)
(*             turn has a link of its own.  Sections are the units here: a   *)
(*             table of n-1 one-unit headers, kinds null, str, sym, use,     *)
(*             str, sym, use, ...; a `sym` links to the `str` before it, a   *)
(*             `use` to the `sym` before it.  Link faults: 0, the section's  *)
(*             own index (`self`), the next / previous section of the same   *)
(*             kind (`peern` / `peerp`, cyclically), the section whose link  *)
(*             designates this one (`back`), the number of sections          *)
(*             (`count`), far beyond (hi / ones).  One fault closes a 1- or  *)
(*             2-cycle, two close a 2-cycle between peers.                   *)
(*                                                                         *)
(* The abstract file is a VALID file of the walker's kind plus at most      *)
(* MaxFaults field corruptions (2 in files of more than SmallN units; the   *)
(* same `fault plan` idea as Faults.tla):                                  *)
(* a fault sets one field to a value class                                 *)
(*   zero 0, one 1, entm1 (one record minus one unit), fsize n, fsize1 n+1, *)
(*   hi / ones  - "far beyond everything" (2^31, 2^63 / 2^32-1, 2^64-1):    *)
(*                Omega.  A COUNT of Omega never runs out.                  *)
(* Records read at a position where the valid file has no record of that    *)
(* kind read as all-zero (what is there is other content, not a second      *)
(* adversarial fault) - except dynamic tags, where a misplaced read never   *)
(* is DT_NULL, chain words, where it never has the end bit (the worst cases *)
(* for those scans), and version records / a misplaced section header 0,   *)
(* where `gb` chooses between the all-zero record and the worst one for a   *)
(* count-driven walk (count far beyond everything, displacements 0).        *)
(*                                                                         *)
(* No state constraint.  `steps` saturates at K*(n+1)+1 so that the state   *)
(* space is finite even where the walk is not.                              *)
(*                                                                         *)
(* Checked by TLC (cfg/Faults_walk_*.cfg):                                  *)
(*   Guarded = TRUE  (a reader that (g1) rejects an entry size smaller than *)
(*     the record it reads, wherever the table is, and (g2) ends a chain at *)
(*     a zero `next` displacement; (g3) follows a link only to a section of *)
(*     the kind figure 4-14 names for it - that relation is well-founded    *)
(*     (use > sym > str), so a link walk visits no section twice: INVARIANT *)
(*     LinkOnce):  PROPERTY Halts (<>halted under weak                      *)
(*     fairness) and INVARIANT Linear (steps <= K*(n+1)) hold for every     *)
(*     walker, every n, every fault set.                                   *)
(*   Guarded = FALSE (the loops exactly as the format text implies: follow  *)
(*     the count, add the displacement): TLC REFUTES Halts with a lasso     *)
(*     and INVARIANT WitnessBound writes out every (walker, n, faults)      *)
(*     whose walk exceeds the bound.  These witnesses are not defects of    *)
(*     the model: they are the interesting result.  vf/c19.py concretises   *)
(*     each of them into a fault plan on the seed files (through `Maps`)    *)
(*     and runs it against the code under a work budget; one that           *)
(*     reproduces is a finding.                                            *)
(* Apalache-style progress obligations over unbounded values exist for the  *)
(* integer-shaped note walk (NoteWalkInd.tla, C14); the other walks are     *)
(* covered for n <= 64 only.                                               *)
(***************************************************************************)
EXTENDS Integers, Sequences, FiniteSets, TLC, Json, CSV, IOUtils

CONSTANTS Walkers,      \* subset of AllWalkers
          Ns,           \* file sizes in units
          MaxFaults,    \* 0..3: faults per file of at most SmallN units (larger files: at most 2)
          SmallN,
          Guarded,      \* BOOLEAN
          K             \* the linear bound: steps <= K * (n + 1)

VARIABLES w,            \* walker name
          n,            \* file size in units
          flt,          \* set of faults [f, u, c]
          gb,           \* what a version record reads as where the valid file has none: "zero" | "stall"
          st            \* machine state
vars == <<w, n, flt, gb, st>>

AllWalkers == {"shdr", "shdr0", "phdr", "phdr0", "symcount", "dyn", "notes", "sysvhash", "gnuhash", "verchain", "links"}
\* the link walk is a statement about the link graph, not about sizes: a few table sizes, among them the smallest ones
\* with two sections of every kind (n = 7: sections 0..5) and three (n = 10)
LinkNs == {2, 3, 4, 7, 10}
Ns8 == 1..8
Ns12 == {1, 2, 3, 4, 5, 6, 7, 8, 9, 10, 12}
Ns16 == 1..16
Ns64 == {1, 2, 3, 4, 5, 6, 7, 8, 9, 10, 11, 12, 13, 14, 15, 16, 21, 22, 31, 32, 33, 47, 48, 49, 62, 63, 64}
NsAll == 1..64

Omega == 1000000
Classes == {"zero", "one", "entm1", "fsize", "fsize1", "hi", "ones"}
LinkCls == {"zero", "self", "peern", "peerp", "back", "count", "hi", "ones"}
MinI(a, b) == IF a < b THEN a ELSE b
MaxI(a, b) == IF a > b THEN a ELSE b

(* ----------------------------- valid files ----------------------------- *)
\* record sizes in units
Hdr == 3          \* a section / program header, a version entry, a note header
Ent == 2          \* a dynamic entry, a version auxiliary
Grp == 7          \* one version entry with its two auxiliaries
NoteLen == 5      \* note header + one unit of name + one unit of descriptor

RecSize(wk) == CASE wk \in {"shdr", "shdr0", "phdr", "phdr0", "symcount", "verchain", "notes"} -> Hdr
                 [] wk = "dyn" -> Ent
                 [] OTHER -> 1                                      \* (links: one section header)
\* number of records of the valid file (unit 0 is the file header, never part of a table)
NRec(wk, nn) == CASE wk \in {"shdr", "phdr", "symcount"} -> (nn - 1) \div Hdr
                  [] wk \in {"phdr0", "shdr0"} -> 0
                  [] wk = "dyn" -> (nn - 1) \div Ent
                  [] wk = "notes" -> (nn - 1) \div NoteLen
                  [] wk = "verchain" -> (nn - 1) \div Grp
                  [] wk = "sysvhash" -> MaxI(0, nn - 4)            \* chain words
                  [] wk = "gnuhash" -> MaxI(0, nn - 7)             \* chain words
                  [] wk = "links" -> nn - 1                        \* sections 0 .. nn-2 (record r = section r-1)
\* where the valid table / extent starts: it ends at the end of the file
Start(wk, nn) == CASE wk \in {"shdr", "phdr", "symcount"} -> nn - Hdr * NRec(wk, nn)
                   [] wk \in {"phdr0", "shdr0"} -> 0
                   [] wk = "dyn" -> nn - Ent * NRec(wk, nn)
                   [] wk = "notes" -> nn - NoteLen * NRec(wk, nn)
                   [] wk = "verchain" -> nn - Grp * NRec(wk, nn)
                   [] OTHER -> 1

\* links: the kind of section i and what its link designates in the valid file
LKind(i) == IF i = 0 THEN "null" ELSE CASE (i % 3) = 1 -> "str" [] (i % 3) = 2 -> "sym" [] OTHER -> "use"
LExpect(kind) == CASE kind = "sym" -> "str" [] kind = "use" -> "sym" [] OTHER -> "none"     \* figure 4-14, abstracted
LinkField(kind) == CASE kind = "sym" -> "symlink" [] kind = "use" -> "uselink" [] OTHER -> "nolink"
LSame(nn, i) == {j \in 1..(NRec("links", nn) - 1) : j # i /\ LKind(j) = LKind(i)}
\* the fields a fault can hit: <<field, unit>>; unit 0 = not per record; per-record fields at the first and the last record
\* (links: the first and the last section of either linking kind)
Focus(wk, nn) == IF NRec(wk, nn) = 0 THEN {} ELSE {1, NRec(wk, nn)}
LinkFocus(nn, kind) == LET S == {r \in 1..NRec("links", nn) : LKind(r - 1) = kind} IN
                       {r \in S : (\A q \in S : q >= r) \/ (\A q \in S : q <= r)}
GlobalFields(wk) ==
  CASE wk \in {"shdr", "shdr0"} -> {"off", "entsize", "num", "sh0size"}
    [] wk \in {"phdr", "phdr0"} -> {"off", "entsize", "num", "sh0info"}
    [] wk = "symcount" -> {"size", "entsize"}
    [] wk = "dyn" -> {"off"}
    [] wk = "notes" -> {"off", "size"}
    [] wk = "sysvhash" -> {"off", "nbucket", "nchain"}
    [] wk = "gnuhash" -> {"off", "nbuckets", "symoffset", "bloomsize", "bucket", "endword"}
    [] wk = "verchain" -> {"off", "info"}
    [] wk = "links" -> {}
UnitFields(wk) ==
  CASE wk = "dyn" -> {"tag"}
    [] wk = "notes" -> {"namesz", "descsz"}
    [] wk = "verchain" -> {"cnt", "aux", "next", "anext"}
    [] OTHER -> {}
FaultSites(wk, nn) == IF wk = "links" THEN {<<"symlink", u>> : u \in LinkFocus(nn, "sym")} \cup {<<"uselink", u>> : u \in LinkFocus(nn, "use")}
                      ELSE {<<f, 0>> : f \in GlobalFields(wk)} \cup {<<f, u>> : f \in UnitFields(wk), u \in Focus(wk, nn)}

\* the valid value of a field
Default(wk, nn, f, u) ==
  LET k == NRec(wk, nn) IN
  CASE f = "off" -> Start(wk, nn)
    [] f = "entsize" -> IF wk \in {"phdr0", "shdr0"} THEN 0 ELSE Hdr
    [] f = "num" -> k
    [] f \in {"sh0size", "sh0info"} -> 0
    [] f = "size" -> IF wk = "notes" THEN NoteLen * k ELSE Hdr * k
    [] f = "tag" -> IF u = k THEN 0 ELSE 1                  \* 0: DT_NULL
    [] f \in {"namesz", "descsz"} -> 1
    [] f = "nbucket" -> 1
    [] f = "nchain" -> k
    [] f \in {"nbuckets", "symoffset", "bloomsize", "bucket"} -> 1
    [] f = "endword" -> 1                                    \* bit 0 of the last chain word
    [] f = "info" -> k
    [] f = "cnt" -> 2
    [] f = "aux" -> Hdr
    [] f = "next" -> IF u = k THEN 0 ELSE Grp
    [] f = "anext" -> Ent                                    \* of the first auxiliary; the second one ends the chain with 0
    [] f \in {"symlink", "uselink"} -> u - 2                 \* record u is section u-1; it links to the section before it

ClassVal(wk, nn, c) ==
  CASE c = "zero" -> 0 [] c = "one" -> 1 [] c = "entm1" -> RecSize(wk) - 1
    [] c = "fsize" -> nn [] c = "fsize1" -> nn + 1 [] OTHER -> Omega

\* the value of a link class in the header of section i = u - 1 (a class the file has no section for: the valid value)
LinkVal(nn, u, c) ==
  LET i == u - 1   k == NRec("links", nn)   same == LSame(nn, i)
      lo(S) == CHOOSE x \in S : \A y \in S : x <= y
      hi(S) == CHOOSE x \in S : \A y \in S : x >= y IN
  CASE c = "zero" -> 0 [] c = "self" -> i [] c = "count" -> k
    [] c = "peern" -> (IF same = {} THEN i - 1 ELSE IF \E j \in same : j > i THEN lo({j \in same : j > i}) ELSE lo(same))
    [] c = "peerp" -> (IF same = {} THEN i - 1 ELSE IF \E j \in same : j < i THEN hi({j \in same : j < i}) ELSE hi(same))
    [] c = "back" -> (IF i + 1 < k /\ LExpect(LKind(i + 1)) = LKind(i) THEN i + 1 ELSE i - 1)
    [] OTHER -> Omega
IsLink(f) == f \in {"symlink", "uselink"}
ValOf(wk, nn, x) == IF IsLink(x.f) THEN LinkVal(nn, x.u, x.c) ELSE ClassVal(wk, nn, x.c)
Fault(f, u, c) == [f |-> f, u |-> u, c |-> c]
\* a fault must change the field
Effective(wk, nn, x) == ValOf(wk, nn, x) # Default(wk, nn, x.f, x.u)
SingleFaults(wk, nn) == {x \in {Fault(s[1], s[2], c) : s \in FaultSites(wk, nn), c \in (IF wk = "links" THEN LinkCls ELSE Classes)} : Effective(wk, nn, x)}
Site(x) == <<x.f, x.u>>
FaultBound(nn) == IF nn <= SmallN THEN MaxFaults ELSE MinI(MaxFaults, 2)
FaultSets(wk, nn) ==
  LET S == SingleFaults(wk, nn)   mf == FaultBound(nn) IN
  {{}} \cup (IF mf >= 1 THEN {{x} : x \in S} ELSE {})
       \cup (IF mf >= 2 THEN {{x, y} : x \in S, y \in S} ELSE {})
       \cup (IF mf >= 3 THEN {{x, y, z} : x \in S, y \in S, z \in S} ELSE {})
Distinct(F) == \A x, y \in F : x # y => Site(x) # Site(y)

\* the value of a field of the (corrupted) file
Get(f, u) == IF \E x \in flt : x.f = f /\ x.u = u
             THEN ValOf(w, n, CHOOSE x \in flt : x.f = f /\ x.u = u)
             ELSE Default(w, n, f, u)
\* 16-bit escapes of the gABI: e_phnum = 0xffff (class `ones` in a half-word) is PN_XNUM, not a count
IsOnes(f) == \E x \in flt : x.f = f /\ x.u = 0 /\ x.c = "ones"

\* the record (1-based) of the valid file that starts at pos, or 0
RecAt(pos, size) == LET s == Start(w, n) IN
                    IF pos >= s /\ pos < n /\ ((pos - s) % size) = 0 /\ ((pos - s) \div size) + 1 <= NRec(w, n)
                    THEN ((pos - s) \div size) + 1 ELSE 0
\* a per-record field read at pos: the record's (possibly corrupted) value, or `other` where no record starts
FieldAt(f, pos, size, other) == LET r == RecAt(pos, size) IN IF r = 0 THEN other ELSE Get(f, r)

(* ------------------------------- machine ------------------------------- *)
Cap == K * (n + 1) + 1
Sat(x) == IF x > n + 1 THEN n + 1 ELSE x                  \* every position beyond the end behaves alike
Dec(l) == IF l >= Omega THEN Omega ELSE l - 1
Plus(a, b) == IF a >= Omega \/ b >= Omega THEN Omega ELSE a + b
S0 == [pc |-> "start", pos |-> 0, left |-> 0, apos |-> 0, aleft |-> 0, mx |-> 0, steps |-> 0, halted |-> FALSE, out |-> "", seen |-> {}, again |-> FALSE]
Halt(s, why) == [s EXCEPT !.halted = TRUE, !.out = why, !.pc = "halt", !.steps = MinI(@ + 1, Cap)]
Go(s) == [s EXCEPT !.steps = MinI(@ + 1, Cap)]

\* section / program header tables
TableStep(s) ==
  LET off == Get("off", 0)   es == Get("entsize", 0)   num == Get("num", 0)   IsSh == w \in {"shdr", "shdr0"} IN
  CASE s.pc = "start" ->
         IF IsSh /\ off = 0 THEN Halt(s, "no table")                                   \* e_shoff = 0: no section header table
         ELSE IF Guarded /\ es < Hdr /\ (num # 0 \/ IsSh) THEN Halt(s, "raise: entry size")   \* (g1)
         ELSE IF IsSh /\ num = 0                                                               \* extended numbering: count in sh_size of entry 0
              THEN IF off + Hdr > n THEN Halt(s, "raise: eof")
                   \* an entry 0 that is not where the valid file has it reads as other content: gb
                   ELSE Go([s EXCEPT !.pc = "walk", !.pos = Sat(off),
                                     !.left = IF gb = "stall" /\ off # Start(w, n) THEN Omega ELSE Get("sh0size", 0)])
         ELSE IF ~IsSh /\ IsOnes("num")                                                   \* PN_XNUM: count in sh_info of section header 0
              THEN Go([s EXCEPT !.pc = "walk", !.pos = Sat(off), !.left = Get("sh0info", 0)])
         ELSE Go([s EXCEPT !.pc = "walk", !.pos = Sat(off), !.left = num])
    [] s.pc = "walk" ->
         IF s.left = 0 THEN Halt(s, "done")
         ELSE IF s.pos + Hdr > n THEN Halt(s, "raise: eof")
         ELSE Go([s EXCEPT !.pos = Sat(s.pos + es), !.left = Dec(s.left)])

SymCountStep(s) == IF Get("entsize", 0) = 0 THEN Halt(s, "raise: zero entry size") ELSE Halt(s, "count")

DynStep(s) ==
  CASE s.pc = "start" -> Go([s EXCEPT !.pc = "walk", !.pos = Sat(Get("off", 0))])
    [] s.pc = "walk" ->
         IF s.pos + Ent > n THEN Halt(s, "raise: eof")
         ELSE IF FieldAt("tag", s.pos, Ent, 1) = 0 THEN Halt(s, "done")
         ELSE Go([s EXCEPT !.pos = Sat(s.pos + Ent)])

NotesStep(s) ==
  LET end == Plus(Get("off", 0), Get("size", 0)) IN
  CASE s.pc = "start" -> Go([s EXCEPT !.pc = "walk", !.pos = Sat(Get("off", 0))])
    [] s.pc = "walk" ->
         IF s.pos + Hdr > end THEN Halt(s, "done")
         ELSE IF s.pos + Hdr > n THEN Halt(s, "raise: eof")
         ELSE Go([s EXCEPT !.pos = Sat(Plus(s.pos + Hdr, Plus(FieldAt("namesz", s.pos, NoteLen, 0), FieldAt("descsz", s.pos, NoteLen, 0))))])

SysVStep(s) ==
  LET off == Get("off", 0) IN
  CASE s.pc = "start" -> IF off + 2 > n THEN Halt(s, "raise: eof")
                         ELSE Go([s EXCEPT !.pc = "words", !.pos = Sat(off + 2), !.left = Plus(Get("nbucket", 0), Get("nchain", 0))])
    [] s.pc = "words" -> IF s.left = 0 THEN Halt(s, "count")
                         ELSE IF s.pos + 1 > n THEN Halt(s, "raise: eof")
                         ELSE Go([s EXCEPT !.pos = Sat(s.pos + 1), !.left = Dec(s.left)])

\* valid layout: header at 1..4, bloom word 5, bucket 6, chain words 7..n-1
GnuStep(s) ==
  LET off == Get("off", 0)   nb == Get("nbuckets", 0)   so == Get("symoffset", 0)   bs == Get("bloomsize", 0)
      chains == Plus(Plus(off + 4, bs), nb) IN
  CASE s.pc = "start" -> IF off + 4 > n THEN Halt(s, "raise: eof")
                         ELSE Go([s EXCEPT !.pc = "bloom", !.pos = Sat(off + 4), !.left = bs])
    [] s.pc = "bloom" -> IF s.left = 0 THEN Go([s EXCEPT !.pc = "buckets", !.left = nb, !.mx = 0])
                         ELSE IF s.pos + 1 > n THEN Halt(s, "raise: eof")
                         ELSE Go([s EXCEPT !.pos = Sat(s.pos + 1), !.left = Dec(s.left)])
    [] s.pc = "buckets" ->
         IF s.left = 0
         THEN IF nb = 0 THEN Halt(s, "raise: no bucket")
              ELSE IF s.mx < so THEN Halt(s, "count: symoffset")
              ELSE Go([s EXCEPT !.pc = "chain", !.pos = Sat(Plus(chains, s.mx - so))])
         ELSE IF s.pos + 1 > n THEN Halt(s, "raise: eof")
         ELSE Go([s EXCEPT !.pos = Sat(s.pos + 1), !.left = Dec(s.left),
                           !.mx = MaxI(@, IF s.pos = 6 THEN Get("bucket", 0) ELSE 0)])
    [] s.pc = "chain" ->
         IF s.pos + 1 > n THEN Halt(s, "raise: eof")
         ELSE IF s.pos = n - 1 /\ Get("endword", 0) % 2 = 1 THEN Halt(s, "count: chain end")
         ELSE Go([s EXCEPT !.pos = Sat(s.pos + 1)])

VerStep(s) ==
  CASE s.pc = "start" -> Go([s EXCEPT !.pc = "entry", !.pos = Sat(Get("off", 0)), !.left = Get("info", 0)])
    [] s.pc = "entry" ->
         IF s.left = 0 THEN Halt(s, "done")
         ELSE IF s.pos + Hdr > n THEN Halt(s, "raise: eof")
         ELSE Go([s EXCEPT !.pc = "aux", !.apos = Sat(Plus(s.pos, FieldAt("aux", s.pos, Grp, 0))),
                           !.aleft = FieldAt("cnt", s.pos, Grp, IF gb = "stall" THEN Omega ELSE 0)])
    [] s.pc = "aux" ->
         IF s.aleft = 0 THEN Go([s EXCEPT !.pc = "next"])
         ELSE IF s.apos + Ent > n THEN Halt(s, "raise: eof")
         ELSE LET r == RecAt(s.apos - Hdr, Grp)                      \* first auxiliary of entry r ?
                  an == IF r # 0 THEN Get("anext", r) ELSE 0 IN       \* second auxiliaries and everything else: 0
              IF Guarded /\ an = 0 THEN Go([s EXCEPT !.pc = "next"])                         \* (g2)
              ELSE Go([s EXCEPT !.apos = Sat(Plus(s.apos, an)), !.aleft = Dec(s.aleft)])
    [] s.pc = "next" ->
         LET nx == FieldAt("next", s.pos, Grp, 0) IN
         IF Guarded /\ nx = 0 THEN Halt(s, "done: chain end")                               \* (g2)
         ELSE Go([s EXCEPT !.pc = "entry", !.pos = Sat(Plus(s.pos, nx)), !.left = Dec(s.left)])

\* pos: the section being enumerated; apos: the section whose object is being made for it (the cursor of the link walk);
\* seen: the sections the walk from pos has made so far; again: a section was made twice in one walk
LinkStep(s) ==
  LET k == NRec(w, n) IN
  CASE s.pc = "start" -> Go([s EXCEPT !.pc = "enum", !.pos = 0])
    [] s.pc = "enum" -> IF s.pos >= k THEN Halt(s, "done")
                        ELSE Go([s EXCEPT !.pc = "make", !.apos = s.pos, !.seen = {s.pos}])
    [] s.pc = "make" ->
         LET i == s.apos   kind == LKind(i) IN
         IF LExpect(kind) = "none" THEN Go([s EXCEPT !.pc = "enum", !.pos = s.pos + 1, !.seen = {}])      \* no link to follow: the object is complete
         ELSE LET t == Get(LinkField(kind), i + 1) IN
              IF t >= k THEN Halt(s, "raise: eof")                                           \* no such header: the table ends the file
              ELSE IF Guarded /\ LKind(t) # LExpect(kind) THEN Halt(s, "raise: link kind")    \* (g3)
              ELSE Go([s EXCEPT !.apos = t, !.seen = @ \cup {t}, !.again = @ \/ t \in s.seen])

Step(s) == CASE w \in {"shdr", "shdr0", "phdr", "phdr0"} -> TableStep(s)
             [] w = "links" -> LinkStep(s)
             [] w = "symcount" -> SymCountStep(s)
             [] w = "dyn" -> DynStep(s)
             [] w = "notes" -> NotesStep(s)
             [] w = "sysvhash" -> SysVStep(s)
             [] w = "gnuhash" -> GnuStep(s)
             [] w = "verchain" -> VerStep(s)

Init == /\ w \in Walkers /\ n \in Ns /\ (w = "links" => n \in LinkNs)
        /\ flt \in {F \in FaultSets(w, n) : Distinct(F)}
        /\ gb \in (IF w \in {"verchain", "shdr", "shdr0"} THEN {"zero", "stall"} ELSE {"zero"})
        /\ st = S0
Walk == ~st.halted /\ st' = Step(st) /\ UNCHANGED <<w, n, flt, gb>>
Next == Walk
Spec == Init /\ [][Next]_vars /\ WF_vars(Next)

(* ------------------------------ properties ----------------------------- *)
TypeOK == /\ st.pos \in 0..(n + 1) /\ st.apos \in 0..(n + 1) /\ st.steps \in 0..Cap
          /\ Cardinality(flt) <= FaultBound(n)
Halts == <>(st.halted)
Linear == st.steps <= K * (n + 1)
\* a walker that has not halted can always take a step (termination is never by getting stuck)
NoStall == ~st.halted => ENABLED Walk
\* a link walk of the guarded reader makes every section at most once (and at most three: use, sym, str)
LinkOnce == (w = "links" /\ Guarded) => (~st.again /\ Cardinality(st.seen) <= 3)

(* ------------------------------- witnesses ----------------------------- *)
\* how a walker field is called in a real file: alternatives <<record role, field name>>; the fault plan
\* machine of Faults.tla names its records with the same roles
Maps(f) ==
  CASE w \in {"shdr", "shdr0"} -> (CASE f = "off" -> {<<"ehdr", "e_shoff">>} [] f = "entsize" -> {<<"ehdr", "e_shentsize">>}
                        [] f = "num" -> {<<"ehdr", "e_shnum">>} [] f = "sh0size" -> {<<"shdr:null0", "sh_size">>})
    [] w \in {"phdr", "phdr0"} -> (CASE f = "off" -> {<<"ehdr", "e_phoff">>} [] f = "entsize" -> {<<"ehdr", "e_phentsize">>}
                                     [] f = "num" -> {<<"ehdr", "e_phnum">>} [] f = "sh0info" -> {<<"shdr:null0", "sh_info">>})
    [] w = "symcount" -> (CASE f = "size" -> {<<"shdr:symtab", "sh_size">>, <<"shdr:dynsym", "sh_size">>}
                            [] f = "entsize" -> {<<"shdr:symtab", "sh_entsize">>, <<"shdr:dynsym", "sh_entsize">>})
    [] w = "dyn" -> (CASE f = "off" -> {<<"shdr:dynamic", "sh_offset">>, <<"phdr:dynamic", "p_offset">>} [] f = "tag" -> {<<"dyn", "d_tag">>})
    [] w = "notes" -> (CASE f = "off" -> {<<"shdr:note", "sh_offset">>, <<"phdr:note", "p_offset">>}
                         [] f = "size" -> {<<"shdr:note", "sh_size">>, <<"phdr:note", "p_filesz">>}
                         [] f = "namesz" -> {<<"nhdr", "n_namesz">>} [] f = "descsz" -> {<<"nhdr", "n_descsz">>})
    [] w = "sysvhash" -> (CASE f = "off" -> {<<"shdr:hash", "sh_offset">>} [] f = "nbucket" -> {<<"hash", "nbucket">>} [] f = "nchain" -> {<<"hash", "nchain">>})
    [] w = "gnuhash" -> (CASE f = "off" -> {<<"shdr:gnu_hash", "sh_offset">>} [] f = "nbuckets" -> {<<"gnuhash", "nbuckets">>}
                           [] f = "symoffset" -> {<<"gnuhash", "symoffset">>} [] f = "bloomsize" -> {<<"gnuhash", "bloom_size">>}
                           [] f = "bucket" -> {<<"gnubucket", "bucket">>} [] f = "endword" -> {<<"gnuchain", "chain">>})
    [] w = "verchain" -> (CASE f = "off" -> {<<"shdr:verdef", "sh_offset">>, <<"shdr:verneed", "sh_offset">>}
                            [] f = "info" -> {<<"shdr:verdef", "sh_info">>, <<"shdr:verneed", "sh_info">>}
                            [] f = "cnt" -> {<<"verdef", "vd_cnt">>, <<"verneed", "vn_cnt">>}
                            [] f = "aux" -> {<<"verdef", "vd_aux">>, <<"verneed", "vn_aux">>}
                            [] f = "next" -> {<<"verdef", "vd_next">>, <<"verneed", "vn_next">>}
                            [] f = "anext" -> {<<"verdaux", "vda_next">>, <<"vernaux", "vna_next">>})
    [] w = "links" -> (CASE f = "symlink" -> {<<"shdr:symtab", "sh_link">>, <<"shdr:dynsym", "sh_link">>, <<"shdr:ldynsym", "sh_link">>}
                         [] f = "uselink" -> {<<"shdr:dynamic", "sh_link">>, <<"shdr:hash", "sh_link">>, <<"shdr:gnu_hash", "sh_link">>,
                                              <<"shdr:versym", "sh_link">>, <<"shdr:verdef", "sh_link">>, <<"shdr:verneed", "sh_link">>,
                                              <<"shdr:rel", "sh_link">>, <<"shdr:rela", "sh_link">>, <<"shdr:symtab_shndx", "sh_link">>,
                                              <<"shdr:group", "sh_link">>, <<"shdr:syminfo", "sh_link">>})
\* which record: "first" / "last" of its kind (per-record fields), "" otherwise
\* (links: the first / last section of its kind)
Which(x) == IF x.u = 0 THEN ""
            ELSE IF IsLink(x.f) THEN (IF \A q \in LinkFocus(n, LKind(x.u - 1)) : q >= x.u THEN "first" ELSE "last")
            ELSE IF x.u = 1 THEN "first" ELSE "last"
\* concrete classes an abstract class stands for (tried in this order; a class that does not fit the field falls back
\* to the widest one that does - Faults.tla ClassDigits)
ConcreteClasses(c) == CASE c = "hi" -> <<"b31", "b63">> [] c = "ones" -> <<"m32", "m64">> [] c = "back" -> <<"back", "backl">>
                           [] c = "count" -> <<"shnum">> [] OTHER -> <<c>>
\* the kind of valid file the walker starts from, where it matters (a trait of the seed, see Faults!SeedLines)
Needs == CASE w = "phdr0" -> "no phtable" [] w = "phdr" -> "phtable" [] w = "shdr" -> "shtable" [] w = "shdr0" -> "no shtable" [] OTHER -> ""
Witness == [w |-> w, n |-> n, k |-> NRec(w, n), pc |-> st.pc, pos |-> st.pos, needs |-> Needs, gb |-> gb,
            faults |-> {[f |-> x.f, which |-> Which(x), c |-> x.c, classes |-> ConcreteClasses(x.c),
                         maps |-> {<<m[1], m[2]>> : m \in Maps(x.f)}] : x \in flt}]
WitnessBound == (st.steps > K * (n + 1)) => CSVWrite("%1$s", <<ToJson(Witness)>>, IOEnv.OUT)
=============================================================================
